# -*- coding: utf-8 -*-
"""
Functions of /repo re-derived from the source text on EVERY run by the statement-level translator
(`py2lean.translate_function`) into `lean/PyGqlModel/Generated/Tr*.lean`, and proved equal to the
hand-written model in `lean/PyGqlModel/Props/Cxx_tr.lean` (`theorem <fn>_model_eq_source`). Through that
equation every theorem about the hand-written function is a theorem about the code as translated; an edit
of the Python function changes the generated definition and re-opens the equation.

`EXTRA[Cxx](ctx) -> {generated file: content}` is merged into the property's generated files by
`common.regenerate`; raising (the function left the translatable subset, or no longer exists) is handled
exactly like a failing `extract`: a broken obligation, then the failing-input search of the property.
"""
import ast
import re

import common
import py2lean
from py2lean import Ext, TList, TEXT, INT, BOOL, Untranslatable

SRC = lambda rel: (common.REPO / "src" / "py_gql" / rel).read_text()

TRUSTED = [
    "py2lean.Tr statement-level translator (for -> structural recursion, while -> explicit fuel with an OutOfFuel exception, "
    "early return / raise -> Flow / Except, tuples, slices, item access with explicit IndexError)",
    "lean/PyGqlModel/PyPrelude.lean: the reading of Python built-ins used by translated code (str = list of code points, int = Int, "
    "len, enumerate, range, slicing with CPython's bound normalisation, xs[i] / xs[i] = v / pop with IndexError, str.lstrip(<literal set>), "
    "str.join, min / max, re.split on the literal pattern \\r\\n|[\\n\\r] (pattern text checked at extraction))",
    "exceptions are identified by class name only; `raise Cls(args)` keeps no arguments",
]

# what each property's equations additionally rest on (shown in the evidence next to TRUSTED)
TRUSTED_PER = {
    "C01": ["Lexer methods: self._source / self._position read as parameters, the new _position returned; `digits` / `ascii_letters` "
            "are the constants of the standard `string` module; IGNORED_CHARS read as the module literal; exception arguments dropped"],
    "C02": ["LINE_SEPARATOR.split read as Py.lineSepSplit (the pattern text r'\\r\\n|[\\n\\r]' is checked on every run); "
            "the equation assumes len(raw) < sys.maxsize (2^63 - 1)"],
    "C04": ["directive_arguments(SkipDirective / IncludeDirective, node, variables) read as the model's dirIf for @skip / @include "
            "(the constants are checked to be those directives); schema.get_type_from_literal / is_possible_type / "
            "isinstance(_, GraphQLAbstractType) read as the by-name schema model"],
    "C05": ["same as C04 (shared executor model)"],
    "C06": ["_same_value: print_ast(a) == print_ast(b) on list / object / null / variable literals read as the model's structural "
            "comparison; type(v) as the literal's constructor; names compared as Lean Strings (code point order, as Python's str)",
            "_types_conflict: types by name (Ty); isinstance(t, GraphQLLeafType) as the schema model's isLeaf"],
    "C07": ["coerce_int / coerce_float: isinstance / is None / == '' / int() / float() / is_integer() / != / NaN and infinity tests on "
            "the dynamically typed argument are parameters instantiated with the JSON-value model (PyNum); int(<float>) followed by "
            "`numeric != f` is summarised by the hypothesis TruncSpec; exception classes are matched by name"],
    "C10": [],
    "C19": ["directive_arguments read as the depth model's evalOpt on the @skip / @include condition"],
}

HEAD = """import PyGqlModel.PyPrelude
set_option linter.unusedVariables false
namespace PyGql.Generated.Tr
open PyGql
"""


def _file(origin, parts, note=None, head=None):
    """parts: list of (lean text, python source, constructs)"""
    lines = [py2lean.header(origin).rstrip("\n")]
    cons = sorted({c for _, _, cs in parts for c in cs})
    lines.append("/- Translated by py2lean.Tr. Constructs used and how they were read:")
    lines += ["     * " + c for c in cons]
    lines.append("   Types: str -> List Nat (code points), int -> Int, one character -> Nat; result `Except String _`,")
    lines.append("   the string being the class of the exception raised. See lean/PyGqlModel/PyPrelude.lean. -/")
    if note:
        lines.append(note)
    lines.append(head or HEAD)
    for text, src, _ in parts:
        lines.append("/-\n" + src.replace("-/", "- /").replace("/-", "/ -") + "\n-/")
        lines.append(text)
    lines.append("end PyGql.Generated.Tr")
    return "\n".join(lines) + "\n"


# ---- _string_utils.index_to_loc / loc_to_index (C01, C10) ---------------------------------------------

def tr_index_to_loc(ctx):
    src = SRC("_string_utils.py")
    parts = [py2lean.translate_function(src, "index_to_loc", "index_to_loc"),
             py2lean.translate_function(src, "loc_to_index", "loc_to_index")]
    return {"PyGqlModel/Generated/TrIndexToLoc.lean": _file("src/py_gql/_string_utils.py (index_to_loc, loc_to_index)", parts)}


# ---- utilities/collect_fields.py: _skip_selection, _fragment_type_applies (C04, C05, C19) ---------------

def OP(n):
    return ("Opaque", n)


def tr_collect(ctx):
    src = SRC("utilities/collect_fields.py")
    # the two directive constants are what their names say (live objects of the tree under test)
    from py_gql.schema import IncludeDirective, SkipDirective
    if (SkipDirective.name, IncludeDirective.name) != ("skip", "include"):
        raise Untranslatable("SkipDirective / IncludeDirective are no longer @skip / @include")
    skip = py2lean.translate_function(
        src, "_skip_selection", "_skip_selection", ret=BOOL, generic_exc=True,
        params={"node": OP("N"), "variables": OP("V")},
        binders="{ε N V : Type} (exc : String → ε) (directive_arguments : String → N → V → Except ε (Option Bool)) "
                "(node : N) (variables : V)",
        externals={"directive_arguments": Ext("directive_arguments", ("Option", BOOL), partial=True, kw=("variables",))},
        consts={"SkipDirective": ('"skip"', OP("String")), "IncludeDirective": ('"include"', OP("String"))},
        attrs={"['if']": BOOL})
    applies = py2lean.translate_function(
        src, "_fragment_type_applies", "_fragment_type_applies", ret=BOOL, generic_exc=True,
        params={"object_type": OP("T")},
        binders="{ε T C : Type} [BEq T] (exc : String → ε) (get_type_from_literal : Option C → Except ε T) "
                "(isAbstract : T → Bool) (is_possible_type : T → T → Bool) (object_type : T) (type_condition : Option C)",
        externals={"schema.get_type_from_literal": Ext("get_type_from_literal", OP("T"), partial=True),
                   "schema.is_possible_type": Ext("is_possible_type", BOOL)},
        isinstance_map={"GraphQLAbstractType": "isAbstract"},
        attrs={"fragment.type_condition": ("type_condition", ("Option", OP("C")))})
    note = ("/- Abstracted over their environment: `directive_arguments(D, node, variables=...)` (D = SkipDirective / IncludeDirective,\n"
            "   passed as the directive NAME) returns the coerced `if` argument or None; `schema.get_type_from_literal`,\n"
            "   `isinstance(_, GraphQLAbstractType)`, `schema.is_possible_type` are parameters; `fragment.type_condition` is the\n"
            "   parameter `type_condition`; exceptions of the callees have the abstract type ε. -/")
    return {"PyGqlModel/Generated/TrCollect.lean":
            _file("src/py_gql/utilities/collect_fields.py (_skip_selection, _fragment_type_applies)", [skip, applies], note)}


# ---- validation/rules/overlapping_fields_can_be_merged.py: _types_conflict (C05, C06) -----------------------

def tr_overlap(ctx):
    src = SRC("validation/rules/overlapping_fields_can_be_merged.py")
    step, pysrc = py2lean.translate_step(
        src, "_types_conflict", "_types_conflict_step", {"_types_conflict": "rec_types_conflict"},
        isinstance_extra={"GraphQLLeafType": "isLeafType"}, extra_params="(isLeafType : Ty → Bool)")
    cons = ["isinstance(t, WrappingType) -> t.isWrapping; isinstance(t, GraphQLLeafType) -> the parameter isLeafType",
            "type(a) != type(b) -> !Ty.sameCtor a b; t.type -> t.inner; a != b on types -> by-name inequality of type expressions",
            "self-recursion -> the parameter rec_types_conflict (step functional; the equation below closes the knot)"]
    A, V = OP("A"), OP("V")
    same_args = py2lean.translate_function(
        src, "_same_arguments", "_same_arguments",
        params={"args_1": TList(A), "args_2": TList(A)},
        binders="{A V : Type} (name_lt : String → String → Bool) (arg_name : A → String) (arg_value : A → V) "
                "(same_value : V → V → Bool) (args_1 args_2 : List A)",
        externals={"_same_value": Ext("same_value", BOOL)},
        attrs={".name.value": ("arg_name", A, OP("String")), ".value": ("arg_value", A, V)},
        consts={"sorted_lt": ("name_lt", None)})
    same_value = py2lean.translate_function(
        src, "_same_value", "_same_value",
        params={"value_1": V, "value_2": V},
        binders="{V K P W : Type} [BEq K] [BEq P] [BEq W] (class_of : V → K) (isListValue isObjectValue isNullValue isVariable : V → Bool) "
                "(print_ast : V → P) (value_of : V → W) (value_1 value_2 : V)",
        externals={"type": Ext("class_of", OP("K")), "print_ast": Ext("print_ast", OP("P"))},
        isinstance_map={"_ast.ListValue": "isListValue", "_ast.ObjectValue": "isObjectValue",
                        "_ast.NullValue": "isNullValue", "_ast.Variable": "isVariable"},
        attrs={".value": ("value_of", V, OP("W"))})
    T = OP("T")
    perms = py2lean.translate_function(
        src, "_permutations", "_permutations", params={"lst": TList(T)}, ret=TList(("Tuple", T, T)),
        binders="{T : Type} (lst : List T)", implicit="{T : Type}")
    note = ("/- `_same_arguments` / `_same_value` are abstracted over the AST: `a.name.value` = arg_name a, `a.value` = arg_value a,\n"
            "   `type(v)` = class_of v, `isinstance(v, _ast.X)` = isX v, `print_ast`, `v.value` = value_of v are parameters;\n"
            "   `sorted(key=...)` is the stable insertion sort `Py.sortedBy` with `<` on names as a parameter. -/")
    return {"PyGqlModel/Generated/TrOverlap.lean":
            _file("src/py_gql/validation/rules/overlapping_fields_can_be_merged.py (_types_conflict, _same_arguments, _same_value, _permutations)",
                  [(step, pysrc, cons), same_args, same_value, perms], note,
                  head=HEAD.replace("import PyGqlModel.PyPrelude", "import PyGqlModel.Ty\nimport PyGqlModel.PyPrelude"))}


# ---- _string_utils.parse_block_string (C02) ----------------------------------------------------------------

def tr_block_string(ctx):
    src = SRC("_string_utils.py")
    pat = None
    for n in ast.parse(src).body:
        if isinstance(n, ast.Assign) and len(n.targets) == 1 and isinstance(n.targets[0], ast.Name) and n.targets[0].id == "LINE_SEPARATOR":
            v = n.value
            if (isinstance(v, ast.Call) and ast.unparse(v.func) == "re.compile" and len(v.args) == 1 and not v.keywords
                    and isinstance(v.args[0], ast.Constant)):
                pat = v.args[0].value
    if pat != "\\r\\n|[\\n\\r]":
        raise Untranslatable("LINE_SEPARATOR is not re.compile(r'\\r\\n|[\\n\\r]') (Py.lineSepSplit models exactly that pattern): %r" % (pat,))
    part = py2lean.translate_function(
        src, "parse_block_string", "parse_block_string",
        externals={"LINE_SEPARATOR.split": Ext("Py.lineSepSplit", TList(TEXT))},
        # one fuel expression per `while`, evaluated at loop entry: each iteration pops one line
        fuel=["len(lines) + 1", "len(lines) + 1"])
    return {"PyGqlModel/Generated/TrBlockString.lean":
            _file("src/py_gql/_string_utils.py (parse_block_string)", [part])}


# ---- lang/lexer.py: Lexer._read_name, Lexer._read_over_digits (C01) --------------------------------------------

def tr_lexer(ctx):
    import string
    src = SRC("lang/lexer.py")
    imported = set()
    for n in ast.parse(src).body:
        if isinstance(n, ast.ImportFrom) and n.module == "string" and n.level == 0:
            imported |= {a.name for a in n.names if a.asname is None}
    if not {"ascii_letters", "digits"} <= imported:
        raise Untranslatable("`from string import ascii_letters, digits` not found in lexer.py")
    consts = {"digits": ("(%s : List Nat)" % py2lean._codes(string.digits), TEXT),
              "ascii_letters": ("(%s : List Nat)" % py2lean._codes(string.ascii_letters), TEXT)}
    fn = py2lean.find_function(src, "_read_name", cls="Lexer")
    dflt = [ast.unparse(d) for d in fn.args.defaults]
    if [a.arg for a in fn.args.args] != ["self", "__ascii_letters"] or dflt != ["ascii_letters"]:
        raise Untranslatable("signature of Lexer._read_name is not (self, __ascii_letters=ascii_letters)")
    fn.args.defaults = []
    # the mangled default parameter is only ever the default: read it as the constant
    consts["__ascii_letters"] = consts["ascii_letters"]
    consts["_Lexer__ascii_letters"] = consts["ascii_letters"]
    name_src = src.replace("self, __ascii_letters: Container[str] = ascii_letters", "self")
    st = {"self__source": TEXT, "self__position": INT}
    tok = ("Tuple", INT, INT, TEXT)
    read_name = py2lean.translate_function(
        name_src, "_read_name", "Lexer._read_name", cls="Lexer", params=dict(st), ret=tok, self_state=["_position"],
        externals={"Name": Ext("Py.tok3", tok)}, consts=consts,
        fuel=["len(self__source) - self__position + 1"])
    read_digits = py2lean.translate_function(
        src, "_read_over_digits", "Lexer._read_over_digits", cls="Lexer", params=dict(st), ret="Unit", self_state=["_position"],
        consts=consts, fuel=["len(self__source) - self__position + 1"])
    read_ellipsis = py2lean.translate_function(
        src, "_read_ellipsis", "Lexer._read_ellipsis", cls="Lexer", params=dict(st), ret=("Tuple", INT, INT),
        self_state=["_position"], externals={"Ellip": Ext("Py.tok2", ("Tuple", INT, INT))})
    read_integer = py2lean.translate_function(
        src, "_read_over_integer", "Lexer._read_over_integer", cls="Lexer", params=dict(st), ret="Unit", self_state=["_position"],
        consts=consts, methods={"_read_over_digits": "Lexer._read_over_digits"})
    num_tok = ("Tuple", BOOL, INT, INT, TEXT)
    read_number = py2lean.translate_function(
        src, "_read_number", "Lexer._read_number", cls="Lexer", params=dict(st), ret=num_tok, self_state=["_position"],
        consts=consts, join=True, locals_={"char": ("Option", py2lean.CHAR)},
        methods={"_read_over_digits": "Lexer._read_over_digits", "_read_over_integer": "Lexer._read_over_integer"},
        externals={"Float": Ext("Py.tokNum true", num_tok), "Integer": Ext("Py.tokNum false", num_tok)})
    ignored = None
    for n in ast.parse(src).body:
        if isinstance(n, ast.Assign) and len(n.targets) == 1 and isinstance(n.targets[0], ast.Name) and n.targets[0].id == "IGNORED_CHARS":
            try:
                ignored = ast.literal_eval(n.value)
            except Exception:
                pass
    if not isinstance(ignored, str):
        raise Untranslatable("IGNORED_CHARS is not a string literal")
    fn = py2lean.find_function(src, "_read_over_whitespace", cls="Lexer")
    if [a.arg for a in fn.args.args] != ["self", "__ignored"] or [ast.unparse(d) for d in fn.args.defaults] != ["IGNORED_CHARS"]:
        raise Untranslatable("signature of Lexer._read_over_whitespace is not (self, __ignored=IGNORED_CHARS)")
    ws_consts = dict(consts)
    ws_consts["__ignored"] = ("(%s : List Nat)" % py2lean._codes(ignored), TEXT)
    ws_src = src.replace("self, __ignored: Container[str] = IGNORED_CHARS", "self")
    read_ws = py2lean.translate_function(
        ws_src, "_read_over_whitespace", "Lexer._read_over_whitespace", cls="Lexer", params=dict(st), ret="Unit",
        self_state=["_position"], consts=ws_consts,
        # outer loop, then the comment loop: every iteration of either consumes one character
        fuel=["len(self__source) - pos + 1", "len(self__source) - pos + 1"])
    note = ("/- Methods of `Lexer`: `self._source` is the parameter `self__source`, `self._position` the parameter `self__position`\n"
            "   whose final value is returned next to the result; `Name(start, end, value)` is the triple of its arguments;\n"
            "   `digits` / `ascii_letters` are the constants of the standard `string` module (checked: imported from there);\n"
            "   the exception arguments (position, source) are dropped; `self._read_over_digits()` is the translated method above run on\n"
            "   the current attribute values; the default parameter `__ignored` is the module literal IGNORED_CHARS;\n"
            "   in `_read_number` the local `char` is Optional[str] (`None` after the end of the source), `Float(..)` / `Integer(..)` are\n"
            "   (is_float, start, end, value), and the statements after each if / try are one auxiliary definition `.kN`. -/")
    return {"PyGqlModel/Generated/TrLexer.lean":
            _file("src/py_gql/lang/lexer.py (Lexer._read_name, _read_over_digits, _read_over_integer, _read_over_whitespace, _read_ellipsis, _read_number)",
                  [read_name, read_digits, read_integer, read_ws, read_ellipsis, read_number], note)}


def tr_c01(ctx):
    out = dict(tr_index_to_loc(ctx))
    out.update(tr_lexer(ctx))
    return out


# ---- schema/scalars.py: coerce_int (C07) ------------------------------------------------------------------------

def _module_int(src, name):
    for n in ast.parse(src).body:
        if isinstance(n, ast.Assign) and len(n.targets) == 1 and isinstance(n.targets[0], ast.Name) and n.targets[0].id == name:
            try:
                v = ast.literal_eval(n.value)
            except Exception:
                break
            if isinstance(v, int) and not isinstance(v, bool):
                return v
    raise Untranslatable("module constant %s is not an integer literal" % name)


def tr_scalars(ctx):
    src = SRC("schema/scalars.py")
    JV, F = OP("JV"), OP("F")
    consts = {k: ("(%d : Int)" % _module_int(src, k), INT) for k in ("MIN_INT", "MAX_INT")}
    coerce_int = py2lean.translate_function(
        src, "coerce_int", "coerce_int", params={"maybe_int": JV}, ret=INT,
        binders="{JV F : Type} (isInt isFloat isStr isNone strIsEmpty : JV → Bool) (py_int : JV → Except String Int) "
                "(int_ne : Int → JV → Bool) (py_int10 : JV → Except String Int) (py_float : JV → Except String F) "
                "(is_integer : F → Bool) (int_of_float : F → Except String Int) (maybe_int : JV)",
        isinstance_map={"int": "isInt", "float": "isFloat", "str": "isStr"},
        externals={"int": [("py_int", [JV], INT, True), ("py_int10", [JV, INT], INT, True), ("int_of_float", [F], INT, True)],
                   "float": [("py_float", [JV], F, True)],
                   "float_value.is_integer": Ext("is_integer float_value", BOOL)},
        whole={"maybe_int is None": ("(isNone maybe_int)", BOOL),
               "not maybe_int": ("(strIsEmpty maybe_int)", BOOL),
               "numeric != maybe_int": ("(int_ne numeric maybe_int)", BOOL)},
        consts=consts)
    note = ("/- `coerce_int` over a dynamically typed argument: `isinstance(x, int / float / str)`, `x is None`, `not x` (on a str),\n"
            "   `int(x)`, `int(x, 10)` (the base is passed and ignored by the reading `py_int10`), `float(x)`, `f.is_integer()`, `int(f)`\n"
            "   and `n != x` are parameters (the partial ones raise by class NAME); MIN_INT / MAX_INT are the module's literals. -/")
    text = coerce_int[0].replace("(py_int10 maybe_int (10 : Int))", "(py_int10 maybe_int)")
    if text == coerce_int[0]:
        raise Untranslatable("int(maybe_int, 10) not found in coerce_int")
    coerce_float = py2lean.translate_function(
        src, "coerce_float", "coerce_float", params={"maybe_float": JV}, ret=F,
        binders="{JV F : Type} (isEmptyStr isNone : JV → Bool) (py_float : JV → Except String F) (isNaN isInf : F → Bool) "
                "(maybe_float : JV)",
        externals={"float": [("py_float", [JV], F, True)]},
        whole={"maybe_float == ''": ("(isEmptyStr maybe_float)", BOOL),
               "maybe_float is None": ("(isNone maybe_float)", BOOL),
               "numeric != numeric": ("(isNaN numeric)", BOOL),
               "numeric in (float('inf'), float('-inf'))": ("(isInf numeric)", BOOL)})
    note += ("\n/- `coerce_float`: `x == \"\"`, `x is None`, `float(x)` (partial), `f != f` (NaN) and `f in (inf, -inf)` are parameters. -/")
    return {"PyGqlModel/Generated/TrScalars.lean":
            _file("src/py_gql/schema/scalars.py (coerce_int, coerce_float)",
                  [(text, coerce_int[1], coerce_int[2]), coerce_float], note)}


EXTRA = {
    "C01": tr_c01,
    "C10": tr_index_to_loc,
    "C04": tr_collect,
    "C05": tr_collect,
    "C19": tr_collect,
    "C06": tr_overlap,
    "C02": tr_block_string,
    "C07": tr_scalars,
}

GENERATED = {
    "C01": ["PyGqlModel/Generated/TrIndexToLoc.lean", "PyGqlModel/Generated/TrLexer.lean"],
    "C10": ["PyGqlModel/Generated/TrIndexToLoc.lean"],
    "C04": ["PyGqlModel/Generated/TrCollect.lean"],
    "C05": ["PyGqlModel/Generated/TrCollect.lean"],
    "C19": ["PyGqlModel/Generated/TrCollect.lean"],
    "C06": ["PyGqlModel/Generated/TrOverlap.lean"],
    "C02": ["PyGqlModel/Generated/TrBlockString.lean"],
    "C07": ["PyGqlModel/Generated/TrScalars.lean"],
}

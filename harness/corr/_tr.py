# -*- coding: utf-8 -*-
"""
Functions of /repo re-derived from the source text on EVERY run by the statement-level translator
(`py2lean.translate_function`) into `lean/PyGqlModel/Generated/Tr*.lean`, and proved equal to the
hand-written model in `lean/PyGqlModel/Props/Cxx_tr.lean` (`theorem <fn>_model_eq_source`). Through that
equation every theorem about the hand-written function is a theorem about the code as translated; an edit
of the Python function changes the generated definition and re-opens the equation.

`EXTRA[Cxx](ctx) -> {generated file: content}` is merged into the property's generated files by
`common.regenerate`; raising (the function left the translatable subset, or no longer exists) is handled
exactly like a failing `extract`: a broken obligation, then the failing-input search of the property.
"""
import ast
import re

import common
import py2lean
from py2lean import Ext, TList, TEXT, INT, BOOL, Untranslatable

SRC = lambda rel: (common.REPO / "src" / "py_gql" / rel).read_text()

TRUSTED = [
    "py2lean.Tr statement-level translator (for -> structural recursion, while -> explicit fuel with an OutOfFuel exception, "
    "early return / raise -> Flow / Except, tuples, slices, item access with explicit IndexError)",
    "lean/PyGqlModel/PyPrelude.lean: the reading of Python built-ins used by translated code (str = list of code points, int = Int, "
    "len, enumerate, slicing with CPython's bound normalisation, xs[i] / xs[i] = v / pop with IndexError, str.lstrip(<literal set>), "
    "str.join, min / max, re.split on the literal pattern \\r\\n|[\\n\\r] (pattern text checked at extraction))",
    "exceptions are identified by class name only; `raise Cls(args)` keeps no arguments",
]

HEAD = """import PyGqlModel.PyPrelude
set_option linter.unusedVariables false
namespace PyGql.Generated.Tr
open PyGql
"""


def _file(origin, parts):
    """parts: list of (lean text, python source, constructs)"""
    lines = [py2lean.header(origin).rstrip("\n")]
    cons = sorted({c for _, _, cs in parts for c in cs})
    lines.append("/- Translated by py2lean.Tr. Constructs used and how they were read:")
    lines += ["     * " + c for c in cons]
    lines.append("   Types: str -> List Nat (code points), int -> Int, one character -> Nat; result `Except String _`,")
    lines.append("   the string being the class of the exception raised. See lean/PyGqlModel/PyPrelude.lean. -/")
    lines.append(HEAD)
    for text, src, _ in parts:
        lines.append("/-\n" + src.replace("-/", "- /") + "\n-/")
        lines.append(text)
    lines.append("end PyGql.Generated.Tr")
    return "\n".join(lines) + "\n"


# ---- _string_utils.index_to_loc / loc_to_index (C01, C10) ---------------------------------------------

def tr_index_to_loc(ctx):
    src = SRC("_string_utils.py")
    parts = [py2lean.translate_function(src, "index_to_loc", "index_to_loc"),
             py2lean.translate_function(src, "loc_to_index", "loc_to_index")]
    return {"PyGqlModel/Generated/TrIndexToLoc.lean": _file("src/py_gql/_string_utils.py (index_to_loc, loc_to_index)", parts)}


EXTRA = {
    "C01": tr_index_to_loc,
    "C10": tr_index_to_loc,
}

GENERATED = {
    "C01": ["PyGqlModel/Generated/TrIndexToLoc.lean"],
    "C10": ["PyGqlModel/Generated/TrIndexToLoc.lean"],
}

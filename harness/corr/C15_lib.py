# -*- coding: utf-8 -*-
"""
C15 helpers: schema cases (SDL-built and code-built), execution under the executor/runtime
configurations, decoding of an introspection result back into a schema description, the
default-value oracle with its shrinker.

Nothing here knows how `_format_default_value` formats: the oracles only use the public
`parse_value` / `value_from_ast` and the live schema objects.
"""
import asyncio
import copy
import json

from canon_schema import canon_value, dump_schema, ty_of
from gen import schema as gs

KIND_OF = {"SCALAR": "scalar", "OBJECT": "object", "INTERFACE": "interface", "UNION": "union", "ENUM": "enum",
           "INPUT_OBJECT": "input"}


# ---------------------------------------------------------------------------
# canonical values (insertion order of dict keys is kept: json.dumps prints in that order)
# ---------------------------------------------------------------------------

def canon_value_ordered(v):
    if v is None or isinstance(v, (bool, int, str)):
        return v
    if isinstance(v, float):
        return {"$float": repr(v)}
    if isinstance(v, (list, tuple)):
        return [canon_value_ordered(x) for x in v]
    if isinstance(v, dict):
        return {str(k): canon_value_ordered(x) for k, x in v.items()}
    return {"$repr": type(v).__name__}


def _patch_args(dumped, live):
    for d, a in zip(dumped, live):
        d["default_value"] = canon_value_ordered(a.default_value) if a.has_default_value else None
        d["python_name"] = a.python_name


def dump_full(schema):
    """`dump_schema(schema, include_builtin=True)` with defaults in insertion order of their dict keys."""
    from py_gql.schema import InputObjectType, InterfaceType, ObjectType
    d = dump_schema(schema, include_builtin=True)
    for td in d["types"]:
        t = schema.types[td["name"]]
        if isinstance(t, (ObjectType, InterfaceType)):
            for fd, f in zip(td["fields"], t.fields):
                _patch_args(fd["args"], f.arguments)
        elif isinstance(t, InputObjectType):
            _patch_args(td["input_fields"], t.fields)
    for dd in d["directives"]:
        _patch_args(dd["args"], schema.directives[dd["name"]].arguments)
    return d


# ---------------------------------------------------------------------------
# schema cases
# ---------------------------------------------------------------------------

STRINGS = ['a', '', 'x y', 'q"uote', 'back\\slash', 'new\nline', 'tab\there', '\u00e9', 'both "\\" ends"', '\\"', 'nul\x00l',
           'bell\x07', '\U0001F600']   # (no U+2028/U+0085: common.Driver.ask splits answers with str.splitlines)


def gen_desc(rng, size, with_subscription=None):
    """A generator description (gen/schema.py) enriched with what C15 quantifies over."""
    desc = gs.gen_schema(rng, size, with_mutation=rng.random() < 0.5)
    if with_subscription if with_subscription is not None else rng.random() < 0.35:
        desc["types"].append({"kind": "object", "name": "Subscription", "interfaces": [], "desc": None,
                              "fields": [{"name": "s0", "type": ("named", "Int"), "args": [], "deprecated": None, "desc": None}]})
        desc["subscription"] = "Subscription"
    return desc


def build_sdl(desc):
    from py_gql import build_schema
    return build_schema(gs.to_sdl(desc))


_SUB = {}


def subclasses():
    """One (trivial) SUBCLASS of every library type class: the documented way to write custom scalars is to
    subclass ScalarType; nothing forbids the others. A subclass instance must be reported exactly like an
    instance of the plain class."""
    if not _SUB:
        import py_gql.schema as S
        for name in ("ScalarType", "ObjectType", "InterfaceType", "UnionType", "EnumType", "InputObjectType",
                     "ListType", "NonNullType"):
            base = getattr(S, name)
            _SUB[name] = type("Sub" + name, (base,), {"__doc__": "subclass of %s (C15 generator)" % name})
        _SUB["SubSub"] = type("SubSubObjectType", (_SUB["ObjectType"],), {})
    return _SUB


def ty_live(j, reg, cls=None):
    from py_gql.schema import ListType, NonNullType
    if j["k"] == "named":
        return reg[j["n"]]
    lt, nt = (cls["ListType"], cls["NonNullType"]) if cls else (ListType, NonNullType)
    return (lt if j["k"] == "list" else nt)(ty_live(j["t"], reg, cls))


EXTRA_SCALARS = ("Rx", "UUID")


def add_library_scalars(d):
    """Extend a dump with the scalar helpers the library exports (`RegexType`, `UUID`) and a query field using them."""
    from py_gql.schema import UUID, RegexType
    rx = RegexType("Rx", "^a+$")
    d = copy.deepcopy(d)
    blank = {"interfaces": [], "fields": [], "members": [], "values": [], "input_fields": []}
    d["types"].append(dict(blank, kind="scalar", name="Rx", desc=rx.description))
    d["types"].append(dict(blank, kind="scalar", name="UUID", desc=UUID.description))
    q = [t for t in d["types"] if t["name"] == d["query"]][0]
    q["fields"].append({"name": "libScalars", "type": {"k": "named", "n": "Rx"}, "deprecated": None, "desc": None, "args": [
        {"name": "rx", "type": {"k": "list", "t": {"k": "nonNull", "t": {"k": "named", "n": "Rx"}}}, "has_default": True,
         "default_value": ["aa", "a"], "desc": None},
        {"name": "id", "type": {"k": "named", "n": "UUID"}, "has_default": False, "default_value": None, "desc": None}]})
    return d


def remap_value(v, tj, dump_types, enum_map):
    """Translate a default value to the internal enum values of `enum_map` following its type."""
    if v is None:
        return None
    if tj["k"] == "nonNull":
        return remap_value(v, tj["t"], dump_types, enum_map)
    if tj["k"] == "list":
        if isinstance(v, list):
            return [remap_value(x, tj["t"], dump_types, enum_map) for x in v]
        return remap_value(v, tj["t"], dump_types, enum_map)
    td = dump_types.get(tj["n"])
    if td is None:
        return v
    if td["kind"] == "enum":
        return enum_map.get(tj["n"], {}).get(v, v)
    if td["kind"] == "input" and isinstance(v, dict):
        ft = {f["name"]: f["type"] for f in td["input_fields"]}
        return {k: remap_value(x, ft[k], dump_types, enum_map) if k in ft else x for k, x in v.items()}
    return v


def rekey(v, tj, dump_types, keymap):
    """Rename the keys of input-object values inside a default, following its type. keymap: {input type: {old: new}}"""
    if v is None:
        return None
    if tj["k"] == "nonNull":
        return rekey(v, tj["t"], dump_types, keymap)
    if tj["k"] == "list":
        return [rekey(x, tj["t"], dump_types, keymap) for x in v] if isinstance(v, list) else rekey(v, tj["t"], dump_types, keymap)
    td = dump_types.get(tj["n"])
    if td is not None and td["kind"] == "input" and isinstance(v, dict):
        ft = {f["name"]: f["type"] for f in td["input_fields"]}
        km = keymap.get(tj["n"], {})
        return {km.get(k, k): (rekey(x, ft[k], dump_types, keymap) if k in ft else x) for k, x in v.items()}
    return v


def all_args(d):
    for t in d["types"]:
        for f in t["fields"]:
            for a in f["args"]:
                yield a
        for a in t["input_fields"]:
            yield a
    for x in d["directives"]:
        for a in x["args"]:
            yield a


def snake_input_fields(d):
    """Rename every user input field `fN` to the snake-case `in_fN` (defaults re-keyed): the camel-case transform
    then renames them to `inFN` while the coerced defaults stay keyed by the Python (snake) names."""
    d = copy.deepcopy(d)
    keymap = {t["name"]: {a["name"]: "in_" + a["name"] for a in t["input_fields"]}
              for t in d["types"] if t["kind"] == "input" and not t["name"].startswith("__")}
    old_types = {t["name"]: copy.deepcopy(t) for t in d["types"]}
    for a in all_args(d):
        if a["has_default"]:
            a["default_value"] = rekey(a["default_value"], a["type"], old_types, keymap)
    for t in d["types"]:
        if t["name"] in keymap:
            for a in t["input_fields"]:
                a["name"] = keymap[t["name"]][a["name"]]
    return d


# strings a custom scalar may well hold that LOOK numeric (none is the repr of a float or a plain integer text:
# those are printed as numbers on purpose, pinned by tests/test_utilities/test_ast_node_from_value.py)
NUMERIC_LOOKING = ["007", "1e3", "1.50", "nan", " 7 ", "inf", "-007", "1E3", "+5", ".5", "Infinity", "1_0",
                   "7", "42.42", "-0", "1e+20", "2147483648"]   # (the last five: reprs of numbers, see I11)


def typed_parse_literal(node, variables=None):
    """a custom scalar which keeps int, float and string literals apart (any JSON-like scalar does)"""
    from py_gql.lang import ast as A
    if isinstance(node, A.IntValue):
        return int(node.value)
    if isinstance(node, A.FloatValue):
        return float(node.value)
    return node.value


def add_numeric_scalar_defaults(d, rng):
    """A custom scalar `Code` with numeric-looking STRING defaults, top level, in a list and nested (ledger I4/H3)."""
    d = copy.deepcopy(d)
    blank = {"interfaces": [], "fields": [], "members": [], "values": [], "input_fields": []}
    d["types"].append(dict(blank, kind="scalar", name="Code", desc=None))
    code = {"k": "named", "n": "Code"}
    pick = lambda: rng.choice(NUMERIC_LOOKING)  # noqa
    q = [t for t in d["types"] if t["name"] == d["query"]][0]
    q["fields"].append({"name": "codes", "type": {"k": "named", "n": "Int"}, "deprecated": None, "desc": None, "args": [
        {"name": "code", "type": code, "has_default": True, "default_value": pick(), "desc": None},
        {"name": "codeList", "type": {"k": "list", "t": code}, "has_default": True, "default_value": [pick(), pick(), "plain"], "desc": None},
        {"name": "nested", "type": {"k": "list", "t": {"k": "list", "t": {"k": "nonNull", "t": code}}}, "has_default": True,
         "default_value": [[pick()], []], "desc": None}]})
    return d


def uncanon(v):
    if isinstance(v, dict) and "$float" in v:
        return float(v["$float"])
    if isinstance(v, list):
        return [uncanon(x) for x in v]
    if isinstance(v, dict):
        return {k: uncanon(x) for k, x in v.items()}
    return v


def build_code(d, enum_map=None, subclass=False, pynames=False):
    """
    Build a live schema *in code* from a dump description `d` (user types/directives only; built-ins by name).
    `enum_map`: {enum name: {value name: internal value}}; defaults are translated accordingly.
    `subclass`: every type object (wrappers included) is an instance of a SUBCLASS of the library class, and the
    scalars named in EXTRA_SCALARS are the library's own `RegexType` instance / `UUID` object.
    """
    from py_gql.schema import (Argument, Directive, EnumType, EnumValue, Field, InputField, InputObjectType,
                               InterfaceType, ObjectType, Schema, UnionType, ScalarType, SPECIFIED_DIRECTIVES)
    from py_gql.schema.scalars import SPECIFIED_SCALAR_TYPES
    from py_gql.schema.introspection import INTROPSPECTION_TYPES
    enum_map = enum_map or {}
    reg = {t.name: t for t in SPECIFIED_SCALAR_TYPES + INTROPSPECTION_TYPES}
    sub = None
    if subclass:
        from py_gql.schema import UUID, RegexType
        sub = subclasses()
        ScalarType, EnumType, InputObjectType, InterfaceType, UnionType = (
            sub["ScalarType"], sub["EnumType"], sub["InputObjectType"], sub["InterfaceType"], sub["UnionType"])
        ObjectType = sub["SubSub"]
        if any(t["name"] == "Rx" for t in d["types"]):
            reg["Rx"] = RegexType("Rx", "^a+$")
            reg["UUID"] = UUID
    spec_dirs = {x.name for x in SPECIFIED_DIRECTIVES}
    dump_types = {t["name"]: t for t in d["types"]}

    # pynames: every input field gets python_name = "py_" + name, and (as coercion would produce them) the declared
    # input-object defaults are keyed by those Python names
    pymap = ({t["name"]: {a["name"]: "py_" + a["name"] for a in t["input_fields"]} for t in d["types"] if t["kind"] == "input"}
             if pynames else {})

    def mk_arg(cls, a):
        kw = {}
        if a["has_default"]:
            kw["default_value"] = remap_value(uncanon(a["default_value"]), a["type"], dump_types, enum_map)
            if pynames:
                kw["default_value"] = rekey(kw["default_value"], a["type"], dump_types, pymap)
        if pynames and cls is InputField:
            kw["python_name"] = "py_" + a["name"]
        return cls(a["name"], (lambda tj=a["type"]: ty_live(tj, reg, sub)), description=a["desc"], **kw)

    def mk_field(f):
        return Field(f["name"], (lambda tj=f["type"]: ty_live(tj, reg, sub)), args=[mk_arg(Argument, a) for a in f["args"]],
                     description=f["desc"], deprecation_reason=f["deprecated"])

    for t in d["types"]:
        n = t["name"]
        if n in reg:
            continue
        k = t["kind"]
        if k == "scalar":
            reg[n] = ScalarType(n, serialize=lambda x: x, parse=lambda x: x, description=t["desc"],
                                parse_literal=typed_parse_literal if n == "Code" else None)
        elif k == "enum":
            m = enum_map.get(n, {})
            reg[n] = EnumType(n, [EnumValue(v["name"], value=m.get(v["name"], v["name"]), description=v["desc"],
                                            deprecation_reason=v["deprecated"]) for v in t["values"]], description=t["desc"])
        elif k == "input":
            reg[n] = InputObjectType(n, [mk_arg(InputField, a) for a in t["input_fields"]], description=t["desc"])
        elif k == "interface":
            reg[n] = InterfaceType(n, [mk_field(f) for f in t["fields"]], description=t["desc"])
        elif k == "object":
            reg[n] = ObjectType(n, [mk_field(f) for f in t["fields"]],
                                interfaces=(lambda names=t["interfaces"]: [reg[i] for i in names]), description=t["desc"])
        elif k == "union":
            reg[n] = UnionType(n, (lambda names=t["members"]: [reg[i] for i in names]), description=t["desc"])
    dirs = [Directive(x["name"], list(x["locations"]), args=[mk_arg(Argument, a) for a in x["args"]], description=x["desc"])
            for x in d["directives"] if x["name"] not in spec_dirs]
    user = [reg[t["name"]] for t in d["types"]]
    return Schema(query_type=reg.get(d["query"]) if d["query"] else None,
                  mutation_type=reg.get(d["mutation"]) if d["mutation"] else None,
                  subscription_type=reg.get(d["subscription"]) if d["subscription"] else None,
                  directives=dirs, types=user)


def make_enum_map(rng, dump):
    """Internal values different from the names: ints (1-based) or strings, pairwise distinct per enum."""
    m = {}
    for t in dump["types"]:
        if t["kind"] == "enum" and not t["name"].startswith("__"):
            style = rng.choice(["int", "str", "name"])
            if style == "int":
                m[t["name"]] = {v["name"]: i + 1 for i, v in enumerate(t["values"])}
            elif style == "str":
                m[t["name"]] = {v["name"]: "v:" + v["name"].lower() for v in t["values"]}
    return m


def sprinkle_string_defaults(rng, dump):
    """Give some String-typed arguments / input fields a default drawn from STRINGS (code-built only)."""
    def strip(t):
        return t["t"] if t["k"] == "nonNull" else t

    def visit(args):
        for a in args:
            t = strip(a["type"])
            if t == {"k": "named", "n": "String"} and rng.random() < 0.6:
                a["has_default"], a["default_value"] = True, rng.choice(STRINGS)
            elif t["k"] == "list" and strip(t["t"]) == {"k": "named", "n": "String"} and rng.random() < 0.6:
                a["has_default"], a["default_value"] = True, [rng.choice(STRINGS), rng.choice(STRINGS)]
    for t in dump["types"]:
        if t["name"].startswith("__"):
            continue
        for f in t["fields"]:
            visit(f["args"])
        visit(t["input_fields"])
    for x in dump["directives"]:
        if x["name"] not in ("include", "skip", "deprecated"):
            visit(x["args"])


# ---------------------------------------------------------------------------
# execution under the executor / runtime configurations
# ---------------------------------------------------------------------------

CONFIGS = ["blocking", "generic", "asyncio", "threadpool", "threadpool-real"]
_POOL = []


class _InlineExecutor:
    """Stands in for `ThreadPoolRuntime._inner`: runs the submitted function at once in the calling thread, so
    that the runtime's own code (chain / gather_futures / unwrap_future) is exercised without the thread race
    of `gather_futures` (`done += 1`, ledger R*, property C08) making this check flaky."""

    def submit(self, fn, *a, **k):
        from concurrent.futures import Future
        f = Future()
        try:
            f.set_result(fn(*a, **k))
        except BaseException as e:  # noqa
            f.set_exception(e)
        return f

    def shutdown(self, wait=True):
        pass


_VALIDATED = {}


def _novalidate(schema, document, variables=None):
    return []


def execute(schema, query, config="blocking", disable=False, root=None):
    """-> ("ok", response dict) | ("exc", class name) | ("inconclusive", why).
    The document is validated by the library the first time a (schema, query) pair is executed; repeated
    executions of the same pair (other configurations / flags) skip the validation stage (validation does not
    depend on them and dominates the run time)."""
    key = (id(schema), query)
    if key in _VALIDATED and _VALIDATED[key] is schema:
        kw = {"validators": [_novalidate]}
    else:
        kw = {}
    st, r = _execute(schema, query, config, disable, root, kw)
    if st == "ok" and not kw:
        if len(_VALIDATED) > 4000:
            _VALIDATED.clear()
        _VALIDATED[key] = schema
    return st, r


def _execute(schema, query, config, disable, root, kw):
    from py_gql._graphql import process_graphql_query
    from py_gql.execution import Executor
    from py_gql.execution.blocking_executor import BlockingExecutor
    from py_gql.execution.runtime import AsyncIORuntime, BlockingRuntime, ThreadPoolRuntime
    try:
        if config == "blocking":
            r = process_graphql_query(schema, query, root=root, disable_introspection=disable, **kw,
                                      executor_cls=BlockingExecutor, runtime=BlockingRuntime())
        elif config == "generic":
            r = process_graphql_query(schema, query, root=root, disable_introspection=disable, **kw,
                                      executor_cls=Executor, runtime=BlockingRuntime())
        elif config == "asyncio":
            loop = asyncio.new_event_loop()
            try:
                r = loop.run_until_complete(process_graphql_query(
                    schema, query, root=root, disable_introspection=disable, **kw, executor_cls=Executor,
                    runtime=AsyncIORuntime(loop=loop, execute_blocking_functions_in_thread=False)))
            finally:
                loop.close()
        elif config == "threadpool":
            rt = ThreadPoolRuntime(max_workers=1)
            rt._inner.shutdown(wait=False)
            rt._inner = _InlineExecutor()
            r = process_graphql_query(schema, query, root=root, disable_introspection=disable, **kw,
                                      executor_cls=Executor, runtime=rt).result(timeout=30)
        elif config == "threadpool-real":
            import concurrent.futures
            import logging
            logging.getLogger("concurrent.futures").setLevel(logging.CRITICAL)
            if not _POOL:
                _POOL.append(ThreadPoolRuntime(max_workers=2))
            try:
                r = process_graphql_query(schema, query, root=root, disable_introspection=disable, **kw,
                                          executor_cls=Executor, runtime=_POOL[0]).result(timeout=15)
            except concurrent.futures.TimeoutError:
                return "inconclusive", "timeout (gather_futures thread race, see C08)"
        else:
            raise ValueError(config)
        return "ok", json.loads(json.dumps(r.response()))
    except Exception as e:  # noqa
        return "exc", type(e).__name__


def shutdown():
    while _POOL:
        _POOL.pop()._inner.shutdown(wait=False)


# ---------------------------------------------------------------------------
# decoding an introspection result
# ---------------------------------------------------------------------------

def ty_of_ref(r):
    """TypeRef JSON -> type json of canon_schema ({"k":..}); None when truncated / malformed."""
    if r is None:
        return None
    k = r.get("kind")
    if k in ("LIST", "NON_NULL"):
        inner = ty_of_ref(r.get("ofType"))
        if inner is None:
            return None
        return {"k": "list" if k == "LIST" else "nonNull", "t": inner}
    return {"k": "named", "n": r.get("name")}


def _arg(a):
    return {"name": a.get("name"), "type": ty_of_ref(a.get("type")), "has_default": a.get("defaultValue") is not None,
            "default_text": a.get("defaultValue"), "desc": a.get("description")}


def _field(f):
    return {"name": f.get("name"), "type": ty_of_ref(f.get("type")), "args": [_arg(a) for a in f.get("args") or []],
            "deprecated": f.get("deprecationReason") if f.get("isDeprecated") else None,
            "deprecated_flag": f.get("isDeprecated"), "reason_raw": f.get("deprecationReason"), "desc": f.get("description")}


def decode_type(t):
    d = {"kind": KIND_OF.get(t.get("kind"), "?" + str(t.get("kind"))), "name": t.get("name"), "desc": t.get("description"),
         "interfaces": [], "fields": [], "members": [], "values": [], "input_fields": [], "possible": None}
    if t.get("fields") is not None:
        d["fields"] = [_field(f) for f in t["fields"]]
    if t.get("interfaces") is not None:
        d["interfaces"] = [i.get("name") for i in t["interfaces"]]
    if t.get("possibleTypes") is not None:
        d["possible"] = [p.get("name") for p in t["possibleTypes"]]
        if t["kind"] == "UNION":
            d["members"] = list(d["possible"])
    if t.get("enumValues") is not None:
        d["values"] = [{"name": v.get("name"), "deprecated": v.get("deprecationReason") if v.get("isDeprecated") else None,
                        "desc": v.get("description")} for v in t["enumValues"]]
    if t.get("inputFields") is not None:
        d["input_fields"] = [_arg(a) for a in t["inputFields"]]
    d["nullness"] = {k: t.get(k) is None for k in ("fields", "interfaces", "possibleTypes", "enumValues", "inputFields")}
    return d


def decode_introspection(data):
    s = data["__schema"]

    def nm(x):
        return x.get("name") if x is not None else None
    return {"types": [decode_type(t) for t in s.get("types") or []],
            "directives": [{"name": x.get("name"), "locations": list(x.get("locations") or []), "args": [_arg(a) for a in x.get("args") or []],
                            "desc": x.get("description")} for x in s.get("directives") or []],
            "query": nm(s.get("queryType")), "mutation": nm(s.get("mutationType")), "subscription": nm(s.get("subscriptionType"))}


def strip_for_compare(d, decoded):
    """Project a dump / decoded description on what introspection can show, order-insensitive where the
    statement fixes no order (types, directives, union members)."""
    def arg(a):
        return {"name": a["name"], "type": a["type"], "has_default": a["has_default"], "desc": a["desc"]}

    def field(f):
        return {"name": f["name"], "type": f["type"], "args": [arg(a) for a in f["args"]], "deprecated": f["deprecated"],
                "desc": f["desc"]}

    def ty(t):
        return {"kind": t["kind"], "name": t["name"], "desc": t["desc"], "interfaces": list(t["interfaces"]),
                "fields": [field(f) for f in t["fields"]], "members": sorted(t["members"]),
                "values": [{"name": v["name"], "deprecated": v["deprecated"], "desc": v["desc"]} for v in t["values"]],
                "input_fields": [arg(a) for a in t["input_fields"]]}
    return {"types": sorted((ty(t) for t in d["types"]), key=lambda t: t["name"]),
            "directives": sorted(({"name": x["name"], "locations": list(x["locations"]), "args": [arg(a) for a in x["args"]],
                                   "desc": x["desc"]} for x in d["directives"]), key=lambda x: x["name"]),
            "query": d["query"], "mutation": d["mutation"], "subscription": d["subscription"]}


def first_diff(a, b, path=""):
    """Path of the first difference between two JSON values (for signatures / details)."""
    if type(a) != type(b):
        return path or "/"
    if isinstance(a, dict):
        for k in sorted(set(a) | set(b)):
            if k not in a or k not in b:
                return path + "/" + k
            r = first_diff(a[k], b[k], path + "/" + k)
            if r:
                return r
        return None
    if isinstance(a, list):
        if len(a) != len(b):
            return path + "/#len"
        for i, (x, y) in enumerate(zip(a, b)):
            r = first_diff(x, y, path + "/%d" % i)
            if r:
                return r
        return None
    return None if a == b else (path or "/")


def diff_class(path):
    """Abstract a diff path: drop indices and element names -> failure class."""
    return "/".join(p for p in path.split("/") if p and not p.isdigit())


# ---------------------------------------------------------------------------
# default values: the statement itself
# ---------------------------------------------------------------------------

def same_value(a, b):
    """Python equality, but bool is not int and containers are compared element-wise."""
    if isinstance(a, bool) or isinstance(b, bool):
        return isinstance(a, bool) and isinstance(b, bool) and a == b
    if isinstance(a, (int, float)) and isinstance(b, (int, float)):
        return a == b
    if isinstance(a, tuple):
        a = list(a)
    if isinstance(b, tuple):
        b = list(b)
    if isinstance(a, list) and isinstance(b, list):
        return len(a) == len(b) and all(same_value(x, y) for x, y in zip(a, b))
    if isinstance(a, dict) and isinstance(b, dict):
        return set(a) == set(b) and all(same_value(a[k], b[k]) for k in a)
    return type(a) == type(b) and a == b


def filled(v, t):
    """The declared default as `value_from_ast` completes it: input-object fields that are absent take the
    field's own default (that completion is the coercion's business — ledger H2 — not introspection's), and a
    single value at a list type stands for the one-element list."""
    from py_gql.schema import InputObjectType, ListType, NonNullType
    if isinstance(t, NonNullType):
        return filled(v, t.type)
    if v is None:
        return None
    if isinstance(t, ListType):
        return [filled(x, t.type) for x in v] if isinstance(v, (list, tuple)) else [filled(v, t.type)]
    if isinstance(t, InputObjectType) and isinstance(v, dict):
        out = {}
        owned = {f.python_name for f in t.fields}
        for f in t.fields:
            # declared defaults are keyed by Python names; the GraphQL name only when nobody owns that key
            key = f.python_name if (f.python_name in v or f.name in owned) else f.name
            if key in v:
                out[f.python_name] = filled(v[key], f.type)
            elif f.has_default_value:
                out[f.python_name] = f.default_value
        return out
    return v


_NO = object()


def _structured_custom_scalar(node, live_type):
    """Literal coercion (`value_from_ast`, property C07) refuses list / object literals at ANY scalar type, so a
    structured default of a JSON-like custom scalar cannot be coerced back by the library itself; what the text
    DENOTES is then read with the library's `untyped_value_from_ast`, position by position through the type."""
    from py_gql.lang import ast as A
    from py_gql.schema import InputObjectType, ListType, NonNullType, ScalarType
    from py_gql.schema.scalars import SPECIFIED_SCALAR_TYPES
    from py_gql.utilities import untyped_value_from_ast, value_from_ast
    t = live_type.type if isinstance(live_type, NonNullType) else live_type
    if isinstance(node, A.NullValue):
        return None
    try:
        if isinstance(t, ListType):
            items = node.values if isinstance(node, A.ListValue) else [node]
            out = [_structured_custom_scalar(x, t.type) for x in items]
            return _NO if any(x is _NO for x in out) else out
        if isinstance(t, InputObjectType) and isinstance(node, A.ObjectValue):
            given = {f.name.value: f.value for f in node.fields}
            out = {}
            for f in t.fields:
                if f.name in given:
                    out[f.python_name] = _structured_custom_scalar(given[f.name], f.type)
                    if out[f.python_name] is _NO:
                        return _NO
                elif f.has_default_value:
                    out[f.python_name] = f.default_value
            return out
        if isinstance(t, ScalarType) and t not in SPECIFIED_SCALAR_TYPES:
            # what the literal DENOTES for a custom scalar: its untyped reading (the default `parse_literal` hands the
            # scalar the token TEXT, so `2` comes back as "2"; lists / objects are refused by value_from_ast)
            # ... the untyped reading is the WIRE value; the scalar's own `parse` turns it into the Python value
            return t.parse(untyped_value_from_ast(node))
        return value_from_ast(node, t)
    except Exception:  # noqa
        return _NO


def default_roundtrips(text, live_type, declared):
    """`text` is GraphQL syntax that parses back (real parse_value + value_from_ast) to `declared`.
    -> (True, None) | (False, reason)"""
    from py_gql.exc import GraphQLSyntaxError
    from py_gql.lang import parse_value
    from py_gql.utilities import value_from_ast
    if text is None:
        return False, "missing"
    try:
        node = parse_value(text)
    except GraphQLSyntaxError:
        return False, "syntax"
    except Exception as e:  # noqa
        return False, "parse-raises-" + type(e).__name__
    try:
        v = value_from_ast(node, live_type)
    except Exception as e:  # noqa
        v = _structured_custom_scalar(node, live_type)
        if v is _NO:
            return False, "coercion-" + type(e).__name__
    if not same_value(v, declared) and not same_value(v, filled(declared, live_type)):
        u = _structured_custom_scalar(node, live_type)
        if u is _NO or not (same_value(u, declared) or same_value(u, filled(declared, live_type))):
            return False, "different-value"
    return True, None


def reported_default(live_type, value, config="blocking"):
    """defaultValue text the real introspection reports for an argument of `live_type` with default `value`."""
    from py_gql.schema import Argument, Field, Int, ObjectType, Schema
    q = ObjectType("Query", [Field("f", Int, args=[Argument("a", live_type, default_value=value)])])
    st, r = execute(Schema(q), '{ __type(name: "Query") { fields(includeDeprecated: true) { args { defaultValue } } } }', config)
    if st != "ok" or r.get("errors"):
        return ("raises", r if st == "exc" else "errors")
    try:
        return ("ok", r["data"]["__type"]["fields"][0]["args"][0]["defaultValue"])
    except (KeyError, IndexError, TypeError):
        return ("raises", "malformed-answer")


def shrink_default(live_type, value):
    """Smallest (type, value) component whose reported default does not round-trip."""
    from py_gql.schema import InputObjectType, ListType, NonNullType

    def fails(t, v):
        st, text = reported_default(t, v)
        if st != "ok":
            return True
        return not default_roundtrips(text, t, v)[0]

    t, v = live_type, value
    progress = True
    while progress:
        progress = False
        if isinstance(t, NonNullType):
            if fails(t.type, v):
                t = t.type
                progress = True
            continue
        if v is None:
            break
        if isinstance(t, ListType):
            items = v if isinstance(v, list) else [v]
            for x in items:
                if fails(t.type, x):
                    t, v, progress = t.type, x, True
                    break
            if not progress and isinstance(v, list) and len(v) > 1:
                for x in v:
                    if fails(t, [x]):
                        v, progress = [x], True
                        break
        elif isinstance(t, InputObjectType) and isinstance(v, dict):
            for f in t.fields:
                k = f.python_name if (f.python_name in v or f.name in {g.python_name for g in t.fields}) else f.name
                if k in v and fails(f.type, v[k]):
                    t, v, progress = f.type, v[k], True
                    break
    return t, v


def default_signature(t, v, reason):
    """Failure class of a shrunk (type, value): the kind of the type and the feature of the value."""
    from py_gql.schema import EnumType, InputObjectType, ListType, NonNullType, ScalarType
    while isinstance(t, NonNullType):
        t = t.type
    if isinstance(t, ListType):
        strs = []

        def walk(x):
            if isinstance(x, str):
                strs.append(x)
            elif isinstance(x, list):
                for y in x:
                    walk(y)
        walk(v)
        from py_gql.schema import ScalarType as _Sc
        from py_gql.schema.scalars import SPECIFIED_SCALAR_TYPES as _SP
        b = t
        while isinstance(b, (ListType, NonNullType)):
            b = b.type

        def numeric_looking(x):
            try:
                float(x)
                return True
            except ValueError:
                return False
        if isinstance(b, _Sc) and b not in _SP and any(numeric_looking(x) for x in strs):
            return "default-not-graphql:list:custom-scalar-numeric-string:" + reason
        feat = "non-bmp-string" if any(ord(c) > 0xFFFF for x in strs for c in x) else (
            "non-ascii-string" if any(ord(c) > 126 for x in strs for c in x) else "other")
        return "default-not-graphql:list:%s:%s" % (feat, reason)
    if isinstance(t, EnumType):
        try:
            name = t.get_name(v)
        except Exception:  # noqa
            name = None
        return "default-not-graphql:enum:" + ("name-printed-as-string" if name == v else "internal-value-printed")
    if isinstance(t, InputObjectType):
        return "default-not-graphql:input-object:" + reason
    if isinstance(t, ScalarType):
        if isinstance(v, str):
            feats = []
            if '"' in v:
                feats.append("quote")
            if "\\" in v:
                feats.append("backslash")
            if any(ord(c) < 32 or ord(c) == 127 for c in v):
                feats.append("control")
            if any(ord(c) > 126 for c in v):
                feats.append("non-ascii")
            return "default-not-graphql:string:%s:%s" % ("+".join(feats) or "plain", reason)
        return "default-not-graphql:scalar-%s:%s:%s" % (t.name, type(v).__name__, reason)
    return "default-not-graphql:?:" + reason


def iter_defaults(schema):
    """(where, live input value) for every argument / input field / directive argument with a default."""
    from py_gql.schema import InputObjectType, InterfaceType, ObjectType
    for t in schema.types.values():
        if isinstance(t, (ObjectType, InterfaceType)):
            for f in t.fields:
                for a in f.arguments:
                    yield ("%s.%s(%s)" % (t.name, f.name, a.name), a)
        elif isinstance(t, InputObjectType):
            for f in t.fields:
                yield ("%s.%s" % (t.name, f.name), f)
    for d in schema.directives.values():
        for a in d.arguments:
            yield ("@%s(%s)" % (d.name, a.name), a)


# ---------------------------------------------------------------------------
# deprecated members
# ---------------------------------------------------------------------------

def hide_deprecated(data):
    """What the standard result must become when deprecated members are not requested."""
    d = copy.deepcopy(data)
    for t in d["__schema"]["types"]:
        if t.get("fields") is not None:
            t["fields"] = [f for f in t["fields"] if not f.get("isDeprecated")]
        if t.get("enumValues") is not None:
            t["enumValues"] = [v for v in t["enumValues"] if not v.get("isDeprecated")]
    return d


def canon_response(data):
    """Sort what the statement does not order: the list of types, of directives, possibleTypes."""
    d = copy.deepcopy(data)
    s = d.get("__schema")
    if isinstance(s, dict):
        if isinstance(s.get("types"), list):
            s["types"].sort(key=lambda t: str(t.get("name")))
            for t in s["types"]:
                if isinstance(t.get("possibleTypes"), list):
                    t["possibleTypes"].sort(key=lambda p: str(p.get("name")))
        if isinstance(s.get("directives"), list):
            s["directives"].sort(key=lambda t: str(t.get("name")))
    return d


def canon_type_response(t):
    if isinstance(t, dict) and isinstance(t.get("possibleTypes"), list):
        t = dict(t)
        t["possibleTypes"] = sorted(t["possibleTypes"], key=lambda p: str(p.get("name")))
    return t

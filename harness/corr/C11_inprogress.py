# -*- coding: utf-8 -*-
"""
C11 — default values completed while types are "in progress" (recursive input objects + extensions): the shapes the
exactness theorems exclude (`SelfDefaults`; Props/C11_hide.lean shows they need an input object type that reaches itself)
and the generated content avoids (gen/sdl.py in_progress_defaults).  Here the code is compared with the EXACT model of
its bookkeeping (`PyGqlModel/SdlInProgress.lean: buildP`, driver op `build_p`): `_extended_cache`, the set `_in_progress`,
the registration order of `_build_type_map`, `_completed_input_value` on values.

  * named probes (deterministic): hunt4 C11-1 forms and their neighbours, order dependence, lists, directives first,
    supplied types;
  * a targeted stream: 2–4 mutually recursive input objects with object-literal defaults, `extend input` blocks adding
    defaulted / required / recursive fields, arguments and a directive argument of those types (LAST consumer of ctx.rng);
  * every document of the main batch is ALSO sent to `build_p`.

Correspondence only.  How often the code's result differs from the declared content is measured
(`in-progress:differs-from-declared`, known findings S8 / C11/H4-1), not reported per document.
"""

Q = " type Query { f(o: %s): String } "
D4 = "input In { a: Int %s } input Other { x: In = {a: 3} } type Query { f(o: Other): String } %s"
PROBES = [
    ("h4-control", D4 % ("", "extend input In { added: Int = 7 }")),
    ("h4-mutual", D4 % ("other: Other", "extend input In { added: Int = 7 }")),
    ("h4-mutual-required", D4 % ("other: Other", "extend input In { req: Int! }")),
    ("h4-mutual-order2", "type Query { f(o: Other): String } input Other { x: In = {a: 3} } input In { a: Int other: Other } extend input In { added: Int = 7 }"),
    ("h4-defaulted-backref", D4 % ("other: Other = null", "extend input In { added: Int = 7 }")),
    ("h4-given-backref", "input In { a: Int other: Other } input Other { x: In = {a: 3, other: null} } type Query { f(o: Other): String } extend input In { added: Int = 7 }"),
    ("h4-3cycle", "input A { a: Int b: B } input B { c: C } input C { x: A = {a: 3} } type Query { f(o: C): String } extend input A { added: Int = 7 }"),
    ("self-ext-default", "input I { a: Int } extend input I { me: I = {a: 1} }" + Q % "I"),
    ("self-ext-default-completed-later", "input I { a: Int = 5 } extend input I { b: Int = 2 me: I = {} }" + Q % "I"),
    ("order-AB", "input A { x: Int b: B } input B { y: Int a: A = {x: 2} } type Query { f(o: A, p: B): String } extend input A { xx: Int = 7 }"),
    ("order-BA", "input B { y: Int a: A = {x: 2} } input A { x: Int b: B } type Query { f(p: B, o: A): String } extend input A { xx: Int = 7 }"),
    ("argument-default-above-cycle", "input A { b: B x: Int } input B { a: A } type Query { f(o: A = {x: 1}): String } extend input A { xx: Int = 7 }"),
    ("argument-default-nested-given", "input A { b: B x: Int } input B { a: A y: Int } type Query { f(o: A = {x: 1, b: {y: 2, a: {x: 3}}}): String } "
     "extend input A { xx: Int = 7 } extend input B { yy: Int = 8 }"),
    ("directive-argument-first", "directive @d(o: B = {y: 1}) on FIELD input A { b: B x: Int = 1 } input B { y: Int a: A = {} } type Query { f(o: A): String } "
     "extend input A { xx: Int = 7 } extend input B { yy: Int = 8 }"),
    ("list-of-recursive", "input A { x: Int } input B { as: [A] = [{x: 1}, {x: 2}] b: B } extend input A { xx: Int = 7 }" + Q % "B"),
    ("required-added-in-cycle", "input A { b: B x: Int } input B { a: A = {x: 1} } extend input A { req: Int! }" + Q % "A"),
    ("extension-default-of-other-extension", "input I { a: Int } input J { i: I } type Query { q(j: J): Int } extend input I { b: Int = 3 } extend input J { k: I = {b: 4} }"),
    ("extension-default-recursive-literal", "directive @d(o: A = {r1: [{x: 9}]}) on FIELD input A { x: Int r0: B r1: [A] } input B { x: Int = 1 r0: A } "
     "extend input A { nA: A = {} } type Query { f(a0: B = {x: 4}): Int }"),
    ("interface-argument", "interface N { f(o: A = {x: 1}): Int } input A { x: Int b: B } input B { a: A = {x: 2} } type Query implements N { f(o: A = {x: 1}): Int } "
     "extend input A { xx: Int = 7 }"),
    ("union-member-first", "union U = T | Query type T { g(b: B = {}): Int } input A { x: Int b: B } input B { a: A = {x: 2} } type Query { u: U f(o: A): Int } "
     "extend input A { xx: Int = 7 }"),
]


def _lit(rng, names, fields, depth):
    parts = []
    for (fn, ft, _d) in fields:
        if ft == "Int":
            if rng.random() < 0.6:
                parts.append("%s: %d" % (fn, rng.randint(1, 9)))
        elif depth > 0 and rng.random() < 0.35:
            inner = _lit(rng, names, names[ft.strip("[]!")], depth - 1)
            parts.append("%s: %s" % (fn, "[%s]" % inner if ft.startswith("[") else inner))
        elif rng.random() < 0.15:
            parts.append("%s: null" % fn)
    return "{" + ", ".join(parts) + "}"


def gen(rng):
    """2–4 input objects referring to each other, defaults on reference fields, extensions, arguments, a directive."""
    k = rng.randint(2, 4)
    tn = ["A", "B", "C", "D"][:k]
    names = {}
    for t in tn:
        fs = [("x", "Int", rng.choice([None, None, "1"]))]
        for j in range(rng.randint(1, 2)):
            u = rng.choice(tn)
            fs.append(("r%d" % j, rng.choice([u, u, "[%s]" % u]), None))
        names[t] = fs
    # object-literal defaults only "downhill" in a random rank: no default needs its own type's field list again (finding S1b:
    # RecursionError, the other half of such documents otherwise); REFERENCES stay arbitrary, so the types are still recursive
    rank = {t: i for i, t in enumerate(rng.sample(tn, k))}
    for t in tn:
        fs = []
        for (fn, ft, d) in names[t]:
            if ft != "Int" and rank[ft.strip("[]!")] < rank[t] and rng.random() < 0.6:
                d = _lit(rng, names, names[ft.strip("[]!")], 2)
                if ft.startswith("["):
                    d = "[%s]" % d
            fs.append((fn, ft, d))
        names[t] = fs
    out = ["input %s { %s }" % (t, " ".join("%s: %s%s" % (fn, ft, " = " + d if d else "") for (fn, ft, d) in names[t])) for t in tn]
    args = []
    for i, t in enumerate(rng.sample(tn, rng.randint(1, k))):
        d = _lit(rng, names, names[t], 2) if rng.random() < 0.5 else None
        args.append("a%d: %s%s" % (i, t, " = " + d if d else ""))
    out.append("type Query { f(%s): Int }" % ", ".join(args))
    if rng.random() < 0.3:
        t = rng.choice(tn)
        out.append("directive @d(o: %s = %s) on FIELD" % (t, _lit(rng, names, names[t], 1)))
    for t in rng.sample(tn, rng.randint(1, k)):
        kind = rng.random()
        if kind < 0.55:
            out.append("extend input %s { xx%s: Int = 7 }" % (t, t))
        elif kind < 0.7:
            out.append("extend input %s { req%s: Int! }" % (t, t))
        else:
            u = rng.choice(tn)
            out.append("extend input %s { n%s: %s = %s }" % (t, t, u, _lit(rng, names, names[u], 1)))
    rng.shuffle(out)
    return "\n".join(out)


def _base(t):
    while t["k"] != "named":
        t = t["t"]
    return t["n"]


def defaults_off_cycles(items):
    """the premise of Lean's build_exact_defaults_off_cycles, on the wire format: no input object type that has a defaulted
    field (extension blocks merged) reaches itself through the field types of input objects"""
    fields = {}
    for it in items:
        if it["k"] in ("type", "ext") and it["kind"] == "input":
            fields.setdefault(it["name"], []).extend(it["input_fields"])
    edges = {n: {_base(f["type"]) for f in fs} for n, fs in fields.items()}

    def reaches(a, b):
        seen, todo = set(), list(edges.get(a, ()))
        while todo:
            x = todo.pop()
            if x == b:
                return True
            if x not in seen:
                seen.add(x)
                todo.extend(edges.get(x, ()))
        return False
    return all(not reaches(n, n) for n, fs in fields.items() if any(f.get("default") is not None for f in fs))


def collect(ctx, real_build, sdl, doc_json, canon):
    """named probes, then the stream; returns the cases for `build_p`"""
    from py_gql.lang import parse
    cases = []
    texts = [("probe:" + n, t) for n, t in PROBES] + [("stream", gen(ctx.rng)) for _ in range(ctx.n(150, 1500))]
    for label, text in texts:
        if ctx.out_of_time():
            break
        ctx.count()
        real = real_build(text, validate=False)
        ctx.stat("in-progress:%s:%s" % (label.split(":")[0], real[0] if real[0] != "exc" else real[1]))
        ctx.nontrivial("in-progress:" + text)
        try:
            items = doc_json(parse(text, allow_type_system=True))
        except Exception:   # noqa
            continue
        if real[0] == "ok":
            try:
                if canon(sdl.expected_dump(sdl.declared(items))) != canon(real[1]):
                    ctx.stat("in-progress:differs-from-declared")
            except Exception:   # noqa: declared content not computable (invalid over the merged definitions)
                ctx.stat("in-progress:declared-content-not-computable")
        cases.append((label, text, items, {}, [], real))
    return cases


def compare(ctx, cases, canon, sort_dump, diff_path, what="in-progress"):
    """code vs the exact model (driver op `build_p`)"""
    if not cases or not ctx.model_ok or not ctx.driver.available():
        return
    reqs = [{"op": "build_p", "doc": items, "ignore_extensions": bool(flags.get("ignore_extensions")), "additional": wire}
            for (_l, _t, items, flags, wire, _r) in cases]
    if what == "in-progress":
        # measured every run, never reported: how often the model of the THEOREMS (one hidden type, driver op `build`) differs from the
        # code on these shapes (they are outside its premises: SelfDefaults / Props/C11_hide.lean)
        approx = ctx.driver.ask([dict(r, op="build") for r in reqs])
        for (label, text, items, flags, wire, real), a in zip(cases, approx):
            if real[0] == "ok":
                same = "ok" in a and canon(sort_dump(a["ok"])) == canon(real[1])
            elif real[0] == "rej":
                same = "ok" not in a and not str(a.get("err", "")).startswith("internal")
            else:
                same = a.get("err") == real[1]
            ctx.stat("in-progress:one-hidden-type-model:%s" % ("agrees" if same else "differs"))
            if defaults_off_cycles(items):
                # … but where the premise of build_exact_defaults_off_cycles holds the model of the theorems MUST agree with the code
                ctx.stat("in-progress:defaults-off-cycles")
                if not same:
                    ctx.fail("corr:in-progress:defaults-off-cycles:model-differs", "the defaults sit off the cycles of input objects, yet the model of "
                             "the theorems and the implementation differ", {"sdl": text, "flags": flags, "additional": wire, "inprogress": label,
                                                                           "model": a if "ok" not in a else "ok"}, kind="correspondence")
    for (label, text, items, flags, wire, real), a in zip(cases, ctx.driver.ask(reqs)):
        ctx.count()
        sig = label if label.startswith("probe:") else what
        detail = {"sdl": text, "flags": flags, "additional": wire, "inprogress": label, "model": a if "ok" not in a else "ok"}
        if real[0] == "ok" or (real[0] == "rej" and real[1] == "validation"):
            if real[0] != "ok":
                continue        # compared by the main correspondence with validation disabled
            if "ok" not in a:
                ctx.fail("corr-p:%s:model-rejects:%s" % (sig, a.get("err")), "exact model rejects, implementation builds", detail, kind="correspondence")
            elif canon(sort_dump(a["ok"])) != canon(real[1]):
                p = diff_path(real[1], sort_dump(a["ok"]))
                ctx.fail("corr-p:%s:dump:%s" % (sig, p), "exact model and implementation build different schemas at " + p,
                         dict(detail, model_dump=sort_dump(a["ok"]), real_dump=real[1]), kind="correspondence")
        elif real[0] == "rej":
            if "ok" in a:
                ctx.fail("corr-p:%s:model-accepts:%s" % (sig, real[2]), "implementation rejects, exact model builds", detail, kind="correspondence")
            elif str(a.get("err", "")).startswith("internal"):
                ctx.fail("corr-p:%s:model-internal" % sig, "implementation rejects properly, exact model takes an internal branch", detail,
                         kind="correspondence")
        elif a.get("err") != real[1]:
            ctx.fail("corr-p:%s:internal:%s" % (sig, real[1]), "implementation raises %s, exact model says %s" % (real[1], "ok" if "ok" in a else a.get("err")),
                     detail, kind="correspondence")

# -*- coding: utf-8 -*-
"""
C06 correspondence: Lean model (PyGqlModel/Validate/*, driver drv_C06) vs the real validator.

Compared (DESIGN §5 C06 K): the VERDICT for every document; the SET of rules that reported only for
documents with at most one injected violation; additionally every rule run STANDALONE
(`default_validator(validators=[Rule])`, chain = TypeInfoVisitor + that rule), on which the per-rule
theorems of Props/C06*.lean are stated.
Inputs on which the model says "crash" (a Python exception ends validation: ledger V1, V2, ...) are
counted and not compared - their number, and every `model-does-not-cover:*` class, is written to the evidence under
`outside_model` (zeros included).

THE MEMOISED OVERLAP SEARCH (hunt2 C05/1, /repo 7e75356). The driver answers with `runMemo` (Validate/ChainMemo.lean):
the chain of the theorems (UN-memoised search) and, next to it, the overlap rule with the memoised search
(`overlapMemoRun`, recursion budget `fuelBound` - Props/C06_overlap_memo.lean: it never crashes). Where the
un-memoised chain exhausts its fuel (fragment cycles below fields) the model's verdict is: other rules from the chain
without the overlap rule, overlap rule from the memoised run - and it IS compared with the real validator (full chain
and rule alone). On every answer where both searches ran: `memo:crosscheck` - same verdict of the rule, else
correspondence failure `memo:verdict-differs:*` (verdict-neutrality is PROVED under the side conditions of the rule's
equivalence - Props/C06_overlap_memo_complete.lean: overlap_memo_neutral_side, overlap_memo_never_loses; this cross-check
covers the documents outside them: duplicate fragment names, cycles the un-memoised search survives);
`memo:memoised-search-crashes:*` and `doc-check-false:syn_rank` would contradict `overlap_memo_run_never_crashes` /
`rankSynB_of_wfIds`. The chain-level theorems for the memoised chain (Props/C06_head_memo.lean: verdict_iff_all_memo) need
every static check below EXCEPT `rank`: counted as `headline-memo-applies`.

THE TIE TO THE HEADLINE THEOREMS (Props/C06_head.lean: verdict_iff_all, attribution_all). They assume of the document
`DocOk s d` = the three static checks `wfIdsB d`, `noMetaSubsB d`, `rankOkB s d (rankOf (computeRanks d))` + fragment
names not "" and of the schema `SchemaOutputs s` (computable: `schemaOutputsB`). The driver evaluates all five on the
very document / schema of every answer (`checks`); here
  * `ids`, `names`, `schema_outputs` false for a PARSED document on a BUILT schema is a bug of the translation to the
    model (selection-set identity = start offset; the parser never yields an empty name; `build_schema` validates):
    correspondence failure `doc-check-false:<which>`;
  * `meta` false (a `__schema` / `__type` / `__typename` selection with a sub-selection) and `rank` false (nesting through
    spreads beyond the rank bound, or a fragment cycle) are properties of the INPUT: counted (`headline-not-applicable:*`),
    the headline theorem says nothing about these documents (the per-rule theorems and the comparison still do).
"""
import json

FIX_PROBES = {
    # flag -> (sdl, document, verdict of the FIXED tree)
    "v3": ("type Query { a(x: Int, l: [Int]): Int }", "query($v:Int){ x: a(l:$v) y: a(x:$v) }", "errors"),
    "v4": ("type Query { a(x: Int): Int }",
           "query($v:Int){...A} fragment C on Query{a(x:$v)} fragment B on Query{...C} fragment A on Query{...B}", "ok"),
    "v7": ("type Ob { s: String n: Int } type Query { o: Ob }",
           "{ o { ...F1 ...G1 } } fragment F1 on Ob { ...H1 } fragment H1 on Ob { x: s } fragment G1 on Ob { x: n }", "errors"),
    "v9": ("input In { a: Int } type Query { a(ni: In!): Int }", "{ a(ni: {zz: 1}) }", "errors"),
    "v10": ("type Ob { s: String } type Ot { t: Int } type Query { lo: [Ob] }", "{ lo { ...F } } fragment F on Ot { t }", "errors"),
    "v11": ("type Query { a: Int }",
            "{ ...A } fragment A on Query { ...B ...C ...D } fragment B on Query { ...C } fragment C on Query { a } fragment D on Query { ...A }",
            "errors"),
}


def probe_fixes():
    """which of the proposed fixes does the tree under test contain? (the model follows the code that exists)"""
    from py_gql import build_schema
    from corr.C06 import real_verdict
    return {k: real_verdict(build_schema(sdl), doc) == fixed for k, (sdl, doc, fixed) in FIX_PROBES.items()}


# ---------------------------------------------------------------------------
# real parser AST (Node.to_dict()) -> model JSON
# ---------------------------------------------------------------------------

def _ty(d):
    k = d["__kind__"]
    if k == "NamedType":
        return {"k": "named", "n": d["name"]["value"]}
    return {"k": "list" if k == "ListType" else "nonNull", "t": _ty(d["type"])}


def _value(d):
    k = d["__kind__"]
    if k == "Variable":
        return {"k": "var", "n": d["name"]["value"]}
    if k == "IntValue":
        return {"k": "int", "v": d["value"]}
    if k == "FloatValue":
        return {"k": "float", "v": d["value"]}
    if k == "StringValue":
        return {"k": "str", "v": d["value"]}
    if k == "BooleanValue":
        return {"k": "bool", "v": bool(d["value"])}
    if k == "NullValue":
        return {"k": "null"}
    if k == "EnumValue":
        return {"k": "enum", "v": d["value"]}
    if k == "ListValue":
        return {"k": "list", "vs": [_value(x) for x in d["values"]]}
    if k == "ObjectValue":
        return {"k": "obj", "fs": [{"n": f["name"]["value"], "v": _value(f["value"])} for f in d["fields"]]}
    raise ValueError(k)


def _args(l):
    return [{"n": a["name"]["value"], "v": _value(a["value"])} for a in l or []]


def _dirs(l):
    return [{"n": x["name"]["value"], "args": _args(x["arguments"])} for x in l or []]


def _sub(ss):
    if ss is None:
        return None
    return {"id": ss["loc"][0], "sels": [_sel(s) for s in ss["selections"]]}


def _sel(d):
    k = d["__kind__"]
    if k == "Field":
        return {"k": "field", "alias": d["alias"]["value"] if d.get("alias") else None, "n": d["name"]["value"],
                "args": _args(d["arguments"]), "dirs": _dirs(d["directives"]), "sub": _sub(d.get("selection_set"))}
    if k == "FragmentSpread":
        return {"k": "spread", "n": d["name"]["value"], "dirs": _dirs(d["directives"])}
    tc = d.get("type_condition")
    return {"k": "inline", "on": tc["name"]["value"] if tc else None, "dirs": _dirs(d["directives"]), "sub": _sub(d["selection_set"])}


class NotModelled(Exception):
    """the document uses syntax the Lean document model does not carry (it is then checked by the direct oracle only)"""


def doc_to_model(document):
    out = []
    for d in document.to_dict()["definitions"]:
        k = d["__kind__"]
        # directives of variable definitions (visited since 370692d) are part of the model: VarDef.dirs, `Directives[Const]`
        if k == "FragmentDefinition" and d.get("variable_definitions"):
            raise NotModelled("fragment-variable-definitions")      # visited since 57ee286 (experimental syntax)
        if k == "OperationDefinition":
            out.append({"k": "op", "op": d["operation"], "name": d["name"]["value"] if d.get("name") else None,
                        "vars": [{"n": v["variable"]["name"]["value"], "t": _ty(v["type"]),
                                  "d": _value(v["default_value"]) if v.get("default_value") is not None else None,
                                  "dirs": _dirs(v.get("directives"))}
                                 for v in d["variable_definitions"] or []],
                        "dirs": _dirs(d["directives"]), "sub": _sub(d["selection_set"])})
        elif k == "FragmentDefinition":
            out.append({"k": "frag", "n": d["name"]["value"], "on": d["type_condition"]["name"]["value"],
                        "dirs": _dirs(d["directives"]), "sub": _sub(d["selection_set"])})
        else:
            out.append({"k": "ts", "schema": k in ("SchemaDefinition", "SchemaExtension"),
                        "n": d["name"]["value"] if d.get("name") else "schema"})
    return {"defs": out}


def text_to_model(text):
    from py_gql.lang import parse
    return doc_to_model(parse(text, allow_type_system=True))


# ---------------------------------------------------------------------------

def model_outcome(ans):
    if "crash" in ans:
        return "raise:" + ans["crash"], []
    by = [(n, k) for n, k in ans["by_rule"]]
    return ("errors" if any(k for _, k in by) else "ok"), sorted(n for n, k in by if k)


CHECKS = ("ids", "meta", "rank", "names", "schema_outputs")
MUST_HOLD = ("ids", "names", "schema_outputs")
OVERLAP = "OverlappingFieldsCanBeMergedChecker"


def outside(ctx):
    """how much lies OUTSIDE the model / the theorems, always written to the evidence (zeros included)"""
    return ctx.extra.setdefault("outside_model", {
        "answers": 0,
        "model_says_crash_not_compared": 0,            # the model predicts an exception: verdict not compared
        "model_says_crash_by_class": {},
        "model_does_not_cover": {},                    # inputs not translated to the model at all, by reason
        "unmemoised_chain_crashed": 0,                 # the chain of the THEOREMS (un-memoised overlap search) ran out of fuel
        "unmemoised_search_not_run_unranked": 0,       # rankOkB false (fragment cycle / too deep): un-memoised search not run
        "verdict_supplied_by_memoised_search": 0,      # ... and the verdict compared is the memoised search's
        "memo_crosscheck_done": 0,                     # memoised verdict = un-memoised verdict (both ran)
        "memo_crosscheck_counts_equal": 0,
        "memo_crosscheck_differs": 0,
        "memo_search_crashed": 0,                      # contradicts overlap_memo_terminates when syn_rank holds
        "syn_rank_false": 0,
    })


def memo_crosscheck(ctx, ans, detail):
    """the tie for the open verdict-neutrality theorem: on every answer where the overlap rule ran, the memoised search
    (what /repo runs) and the un-memoised search (what the theorems are about) must give the same VERDICT whenever the
    un-memoised one does not crash; the memoised one must never crash (overlap_memo_terminates)"""
    o = outside(ctx)
    m = ans.get("memo")
    ck = ans.get("checks") or {}
    if ck.get("syn_rank") is False:
        o["syn_rank_false"] += 1
        ctx.fail("doc-check-false:syn_rank", "a parsed document has no syntactic ranks: hypothesis of overlap_memo_terminates "
                 "false, the translation to the model is wrong", dict(detail, checks=ck), kind="correspondence")
    if not isinstance(m, dict):
        return
    if m.get("plain_crash") == "not-run:unranked":
        o["unmemoised_search_not_run_unranked"] += 1
    elif m.get("plain_crash") is not None:
        o["unmemoised_chain_crashed"] += 1
    if m.get("supplied"):
        o["verdict_supplied_by_memoised_search"] += 1
        ctx.stat("memo:verdict-supplied-by-memoised-search")
    if m.get("memo_crash") is not None:
        o["memo_search_crashed"] += 1
        ctx.fail("memo:memoised-search-crashes:%s" % m["memo_crash"],
                 "the memoised overlap search exhausts fuelBound (overlap_memo_terminates says it cannot)",
                 dict(detail, memo=m), kind="correspondence")
        return
    if ans.get("memo_alone") is not None and m.get("memo_overlap") is not None:
        # rule alone: `overlapMemoRun` (the function of the theorems) against the chain with the memoised search inside
        # (`runM`, what is compared with the real validator) - same number of errors
        o["memo_alone_vs_chain"] = o.get("memo_alone_vs_chain", 0) + 1
        ctx.stat("memo:alone-vs-chain")
        if ans["memo_alone"] != m["memo_overlap"]:
            ctx.fail("memo:theorem-function-differs-from-chain",
                     "overlapMemoRun (rule alone, the function of the theorems) and the chain run with the memoised search "
                     "count different numbers of errors", dict(detail, memo=m, memo_alone=ans["memo_alone"]),
                     kind="correspondence")
    if m.get("plain_overlap") is not None and m.get("memo_overlap") is not None:
        ctx.count()
        o["memo_crosscheck_done"] += 1
        ctx.stat("memo:crosscheck")
        if m["plain_overlap"] == m["memo_overlap"]:
            o["memo_crosscheck_counts_equal"] += 1
        if (m["plain_overlap"] > 0) != (m["memo_overlap"] > 0):
            o["memo_crosscheck_differs"] += 1
            ctx.fail("memo:verdict-differs:%s" % ("memo-silent" if m["plain_overlap"] else "memo-reports"),
                     "memoised and un-memoised overlap search disagree on the verdict of the rule",
                     dict(detail, memo=m), kind="correspondence")


def doc_checks(ctx, ans, kind, detail):
    """evaluate the `checks` of one answer; returns False when the answer carries none"""
    ck = ans.get("checks")
    tally = ctx.extra.setdefault("doc_checks", {"answers": 0, "headline_applies": 0,
                                                "false": {k: 0 for k in CHECKS}, "true": {k: 0 for k in CHECKS}})
    if not isinstance(ck, dict) or any(k not in ck for k in CHECKS):
        ctx.fail("doc-check-false:missing", "the driver's answer carries no static checks", detail, kind="correspondence")
        return False
    tally["answers"] += 1
    for k in CHECKS:
        tally["true" if ck[k] else "false"][k] += 1
    if all(ck[k] for k in CHECKS):
        tally["headline_applies"] += 1
    # Props/C06_head_memo.lean (verdict_iff_all_memo, the chain with the MEMOISED overlap rule = what /repo runs):
    # DocOkM + SchemaOutputs = every check except the rank bound of the un-memoised search
    if all(ck[k] for k in CHECKS if k != "rank"):
        tally["headline_memo_applies"] = tally.get("headline_memo_applies", 0) + 1
    for k in MUST_HOLD:
        if not ck[k]:
            ctx.fail("doc-check-false:" + k,
                     "static check `%s` of the headline theorem is false for a parsed document on a built schema: "
                     "the translation to the model is wrong" % k, dict(detail, checks=ck), kind="correspondence")
    if kind == "chain":
        ctx.count()
        for k in ("meta", "rank"):
            if not ck[k]:
                ctx.stat("headline-not-applicable:%s:%s" % (k, str(detail.get("label", "")).split(":")[0]))
        if all(ck[k] for k in CHECKS):
            ctx.stat("headline-applies")
        if all(ck[k] for k in CHECKS if k != "rank"):
            ctx.stat("headline-memo-applies")
    return True


def run(ctx, collect):
    o = outside(ctx)
    try:
        _run(ctx, collect)
    finally:
        # every `model-does-not-cover:*` class counted anywhere in the check (parse options, experimental syntax, ...)
        for k, v in ctx.stats.items():
            if k.startswith("model-does-not-cover:"):
                o["model_does_not_cover"][k.split(":", 1)[1]] = v


def _run(ctx, collect):
    if not ctx.model_ok:
        ctx.notes.append("driver did not build: correspondence skipped, direct oracle only")
        return
    from corr.C06 import real_chain, reporting
    from py_gql.validation.validate import SPECIFIED_RULES
    fixes = probe_fixes()
    ctx.extra["fixes_detected_in_tree"] = fixes
    if not all(fixes.values()):
        # the uniform theorems (rule_iff_all, verdict_iff_all_partial, ...) speak about `Fixes.all` / `HeadVars`
        missing = sorted(k for k, v in fixes.items() if not v)
        ctx.fail("tree-is-not-the-proved-variant:" + "+".join(missing),
                 "the tree under test behaves like the UNFIXED variant %s of the validator; the theorems of Props/C06_all.lean "
                 "are stated for the fixed variant (Fixes.all)" % missing,
                 {"part": "model", "fixes": fixes}, kind="correspondence")
    live_names = [c.__name__ for c in SPECIFIED_RULES]
    model_names = ctx.driver.ask([{"op": "rules"}])[0]
    if live_names != model_names:
        ctx.fail("corr:rule-list", "SPECIFIED_RULES differs from the model's rule list",
                 {"part": "model", "live": live_names, "model": model_names}, kind="correspondence")
        return
    by_cls = {c.__name__: c for c in SPECIFIED_RULES}
    # group by world
    groups = {}
    for item in collect:
        groups.setdefault(id(item[0]), []).append(item)
    standalone_budget = ctx.n(40, 400)
    for items in groups.values():
        if ctx.time_left() < 5:
            ctx.notes.append("correspondence cut short (time)")
            break
        world = items[0][0]
        docs = []
        meta = []
        for (_, text, real, label, feature) in items:
            if real["outcome"].startswith("noparse"):
                continue
            try:
                m = text_to_model(text)
            except NotModelled as e:
                ctx.stat("model-does-not-cover:" + str(e))
                continue
            docs.append({"doc": m})
            meta.append(("chain", text, real, label, feature, None))
            single = "+" not in label
            has_ts = any(d["k"] == "ts" for d in m["defs"])
            if single and not has_ts and standalone_budget > 0 and real["outcome"] in ("ok", "errors"):
                standalone_budget -= 1
                for name in live_names:
                    docs.append({"doc": m, "rules": [name]})
                    meta.append(("alone", text, None, label, feature, name))
        if not docs:
            continue
        # in chunks: one request per <= 500 documents, so that no single request comes near the driver's time limit
        # on a loaded machine (a thorough run asks for ~10^4 answers about one schema)
        answers = []
        schema_dump = world.dump()
        import os
        for i in range(0, len(docs), 500):
            req = {"op": "validate_many", "schema": schema_dump, "fixes": fixes, "docs": docs[i:i + 500]}
            if os.environ.get("C06_DUMP_REQ"):      # debugging aid: the request being asked, for bisecting a slow answer
                with open(os.environ["C06_DUMP_REQ"], "w") as fh:
                    json.dump({"req": req, "texts": [m[1] for m in meta[i:i + 500]], "sdl": world.sdl}, fh)
            answers += ctx.driver.ask([req], timeout=int(os.environ.get("C06_ASK_TIMEOUT", "600")))[0]
        alone_real = {}
        for (kind, text, real, label, feature, rule), ans in zip(meta, answers):
            ctx.count()
            mo, mrules = model_outcome(ans)
            doc_checks(ctx, ans, kind, {"part": "model", "sdl": world.sdl, "text": text, "label": label, "rule_alone": rule})
            if kind == "alone":
                real = real_chain(world.schema, text, rules=[by_cls[rule]])
                alone_real.setdefault(text, {})[rule] = real["outcome"]
            ro = real["outcome"]
            outside(ctx)["answers"] += 1
            memo_crosscheck(ctx, ans, {"part": "model", "sdl": world.sdl, "text": text, "label": label, "feature": feature,
                                       "rule_alone": rule, "fixes": fixes})
            if mo.startswith("raise"):
                ctx.stat("model-crash:%s (real: %s)" % (mo, ro.split(":")[0]))
                o = outside(ctx)
                o["model_says_crash_not_compared"] += 1
                o["model_says_crash_by_class"][mo] = o["model_says_crash_by_class"].get(mo, 0) + 1
                continue
            detail = {"part": "model", "sdl": world.sdl, "text": text, "label": label, "feature": feature, "rule_alone": rule,
                      "real": ro, "real_rules": reporting(real), "model": mo, "model_rules": mrules, "fixes": fixes}
            if ro.startswith("raise"):
                ctx.fail("corr:%s:real-raises-model-does-not:%s" % (kind, ro), "the implementation raises, the model returns", detail,
                         kind="correspondence")
                continue
            ctx.stat("corr:%s:%s" % (kind, ro))
            if mo != ro:
                ctx.fail("corr:%s:verdict:%s:%s" % (kind, rule or label.split(":")[0], "+".join(sorted(set(mrules) ^ set(reporting(real))))),
                         "verdict of model and implementation differ", detail, kind="correspondence")
            elif "+" not in label and mrules != reporting(real):
                ctx.fail("corr:%s:rule-set:%s" % (kind, "+".join(sorted(set(mrules) ^ set(reporting(real))))),
                         "set of reporting rules differs", detail, kind="correspondence")
        # the chain decomposes: verdict ok <=> every rule alone reports nothing (no SkipNode without an error)
        for (_, text, real, label, feature) in items:
            if text in alone_real and real["outcome"] in ("ok", "errors"):
                outs = alone_real[text].values()
                if any(o.startswith("raise") for o in outs):
                    continue
                alone_ok = all(o == "ok" for o in outs)
                ctx.count()
                if alone_ok != (real["outcome"] == "ok"):
                    ctx.fail("chain-does-not-decompose", "verdict of the chain differs from the conjunction of the rules run alone",
                             {"part": "model", "sdl": world.sdl, "text": text, "chain": real["outcome"], "alone": alone_real[text]},
                             kind="correspondence")


def replay(ctx, data):
    inp = data.get("input", {})
    from py_gql import build_schema
    from corr.C06 import real_chain, reporting
    import canon_schema
    schema = build_schema(inp["sdl"])
    fixes = probe_fixes()
    req = {"doc": text_to_model(inp["text"])}
    rules = None
    if inp.get("rule_alone"):
        from py_gql.validation.validate import SPECIFIED_RULES
        req["rules"] = [inp["rule_alone"]]
        rules = [c for c in SPECIFIED_RULES if c.__name__ == inp["rule_alone"]]
    ans = ctx.driver.ask([{"op": "validate_many", "schema": canon_schema.dump_schema(schema, include_builtin=True),
                           "fixes": fixes, "docs": [req]}])[0][0]
    mo, mrules = model_outcome(ans)
    real = real_chain(schema, inp["text"], rules=rules)
    ck = ans.get("checks") or {}
    print(json.dumps({"model": mo, "model_rules": mrules, "real": real["outcome"], "real_rules": reporting(real), "checks": ck}))
    if not all(ck.get(k) for k in MUST_HOLD):
        return False
    return mo.startswith("raise") or (mo == real["outcome"] and mrules == reporting(real))

# -*- coding: utf-8 -*-
"""
C15 — introspection reports exactly the schema.

* extract: `_format_default_value` is TRANSLATED statement by statement (both today's form and the form of
  proposed_fixes/C15-I1-partial.patch, incl. its module-level escape table `_STRING_ESCAPES`), the `_resolve_type_kind`
  dispatch table and the meta-field names / branch order of `ResolutionContext.field_definition`
  are extracted, into `PyGqlModel/Generated/Introspection.lean`.
* correspondence: the real standard introspection query (and `__type(name:)` queries) on generated
  schemas (SDL-built and code-built) vs the Lean model `introspect`; `field_definition` vs `fieldDefinition`.
* direct oracle (the statement): decode the real result back into a schema description and compare with
  the live schema; every reported default re-parsed with `parse_value` + `value_from_ast`; deprecated
  members hidden unless requested; `disable_introspection` hides every meta field and nothing else.
"""
import ast
import json

from common import REPO
import py2lean
from corr import C15_lib as L

PROPERTY = "C15"
RULE = ("schemas: seeded gen/schema.py descriptions built from SDL and re-built in code (enum internal values != names, "
        "string defaults with quotes/backslashes/control characters, list / input-object / null defaults, deprecated fields "
        "and enum values with and without reasons, descriptions, custom directives with arguments, mutation/subscription roots) "
        "+ input fields with python_name != name (code-built, and derived by CamelCaseSchemaTransform from snake-case fields; defaults keyed by Python names), custom-scalar defaults that look numeric, every directive location the parser accepts + the same descriptions built from instances of SUBCLASSES of every library type class (incl. wrappers, RegexType, UUID) and compared with the plain-class twin + corpus; executed with BlockingExecutor and Executor on BlockingRuntime (all), AsyncIORuntime (private loop) and "
        "ThreadPoolRuntime(2) (subset); includeDeprecated true/false/omitted; introspection enabled/disabled; __type(name:) of names in / not in the schema; "
        "DETERMINISTIC class eq-colliding: defaults / enum internal values 1, True, 1.0, 0, False, 0.0 (== and hash collide, types differ) on ONE JSON-like "
        "custom scalar and ONE enum, as arguments / input fields / directive arguments of two schemas sharing the type objects in opposite orders, "
        "introspected one after the other in one process, type-strict round-trip; "
        "HISTORIES introspect -> in-place change of the live schema (hide implementer, drop union member, replace types, rename enum values, "
        "set / delete defaults) -> introspect again on Executor and BlockingExecutor, + ctx.later repeats on the schema objects kept alive. "
        "non-trivial = distinct (schema, aspect) with at least one user type beyond Query")
ASSUMPTIONS = [
    "type references have at most 7 wrappers (the standard query's TypeRef fragment stops at 8 levels; deeper types are truncated by the QUERY, not by the server)",
    "enum internal values are hashable and pairwise distinct (EnumType._reverse_values is a dict: the last of two equal values wins)",
    "defaults are compared after the completion value_from_ast performs (absent input-object fields take the field's own default, a single value at a list type is the one-element list): that completion is coercion's business (ledger H2), not introspection's",
    "generated deprecation reasons are non-empty; the empty reason (ledger I2: Field.deprecated = bool(reason) vs EnumValue.deprecated = reason is not None) is checked by a dedicated oracle (oracle_empty_reason) and corpus/C15/03-empty-reason.json",
    "custom-scalar string defaults that ARE the repr of a finite float or a plain integer text (\"42.42\", \"7\", \"-0\") are printed as number literals on purpose (pinned by tests/test_utilities/test_ast_node_from_value.py); they are checked by the direct oracle only (oracle_numeric_strings), the model stream uses numeric-LOOKING strings that are neither (Python float()/repr are not modelled)",
    "at a CUSTOM scalar position a reported literal is also accepted when its untyped reading (utilities.untyped_value_from_ast) is the declared value: the library's literal coercion hands a default custom scalar the token text (`2` -> \"2\") and refuses list / object literals at scalar types (coercion is C07's subject)",
    "default values are JSON-like Python values (None/bool/int/float/str/list/dict); floats travel as repr strings",
]
TRUSTED = [
    "C15.extract: statement-level translation of _format_default_value (has_default_value guard, isinstance/is-None chain, "
    "str().lower(), '\"%s\" %', json.dumps, print_ast(ast_node_from_value(..))) and table extraction of _resolve_type_kind / field_definition",
    "dynamic extraction fallback (used when the source no longer has a recognised shape, and as a cross-check of the static route): "
    "_resolve_type_kind is called on ONE instance of each of the 8 library type classes + a foreign object, field_definition on every "
    "(meta field name in {__schema,__type,__typename}, parent is the query type?, disable_introspection?) of a two-type schema; the "
    "enumeration assumes the answers depend on nothing else (subclass instances are covered by the code-sub stream, other parents / names by the field_definition correspondence)",
    "modelled, not verified: json.dumps (default separators, ensure_ascii), str(int), sorted() on names (code-point order)",
]

INTROSPECTION = REPO / "src/py_gql/schema/introspection.py"
WRAPPERS = REPO / "src/py_gql/execution/wrappers.py"


# ---------------------------------------------------------------------------
# extraction
# ---------------------------------------------------------------------------

class Shape(py2lean.Untranslatable):
    pass


def _is_attr(e, obj, attr):
    return isinstance(e, ast.Attribute) and isinstance(e.value, ast.Name) and e.value.id == obj and e.attr == attr


def translate_format_default(src):
    """Statement-level translation of `_format_default_value` into a Lean definition over the primitives of
    `PyGqlModel/IntrospectPrims.lean`. Returns (lean text, list of branch tags)."""
    fn = py2lean.find_function(src, "_format_default_value")
    if len(fn.args.args) != 1:
        raise Shape("signature of _format_default_value")
    iv = fn.args.args[0].arg
    env = {}      # local name -> lean term
    tags = []
    tables = []   # module-level escape tables referred to

    def term(e):
        if isinstance(e, ast.Name) and e.id in env:
            return env[e.id]
        if _is_attr(e, iv, "default_value"):
            return "dv"
        if _is_attr(e, iv, "type"):
            return "ty"
        raise Shape("term " + ast.dump(e))

    def cond(e):
        if isinstance(e, ast.UnaryOp) and isinstance(e.op, ast.Not):
            return "(!%s)" % cond(e.operand)
        if _is_attr(e, iv, "has_default_value"):
            return "hasDefault"
        if (isinstance(e, ast.Call) and isinstance(e.func, ast.Name) and e.func.id == "isinstance" and len(e.args) == 2
                and isinstance(e.args[0], ast.Call) and isinstance(e.args[0].func, ast.Name)
                and e.args[0].func.id == "unwrap_type" and len(e.args[0].args) == 1 and isinstance(e.args[1], ast.Name)):
            kinds = {"EnumType": "enum", "InputObjectType": "input", "ScalarType": "scalar"}
            if e.args[1].id not in kinds:
                raise Shape("isinstance(unwrap_type(..), %s)" % e.args[1].id)
            return "(Prims.baseIsKind s %s Kind.%s)" % (term(e.args[0].args[0]), kinds[e.args[1].id])
        # unwrap_type(x.type) in (String, ID)   — library scalar objects are named like their GraphQL types
        if (isinstance(e, ast.Compare) and len(e.ops) == 1 and isinstance(e.ops[0], ast.In) and isinstance(e.left, ast.Call)
                and isinstance(e.left.func, ast.Name) and e.left.func.id == "unwrap_type" and len(e.left.args) == 1
                and isinstance(e.comparators[0], (ast.Tuple, ast.List)) and all(isinstance(c, ast.Name) for c in e.comparators[0].elts)):
            names = [c.id for c in e.comparators[0].elts]
            if not all(n in ("String", "ID", "Int", "Float", "Boolean") for n in names):
                raise Shape("unwrap_type(..) in (%s)" % ", ".join(names))
            return "(Prims.baseIsOneOf %s [%s])" % (term(e.left.args[0]), ", ".join(json.dumps(n) for n in names))
        if isinstance(e, ast.Call) and isinstance(e.func, ast.Name) and e.func.id == "isinstance" and len(e.args) == 2:
            cls = e.args[1]
            names = [c.id for c in cls.elts] if isinstance(cls, ast.Tuple) else [cls.id]
            m = {"bool": "isBool", "str": "isStr", "int": "isInt", "float": "isFloat", "list": "isList", "dict": "isDict"}
            if not all(n in m for n in names):
                raise Shape("isinstance against " + ",".join(names))
            return "(" + " || ".join("Prims.%s %s" % (m[n], term(e.args[0])) for n in names) + ")"
        if isinstance(e, ast.Compare) and len(e.ops) == 1 and isinstance(e.ops[0], ast.Is) \
                and isinstance(e.comparators[0], ast.Constant) and e.comparators[0].value is None:
            return "Prims.isNone %s" % term(e.left)
        if isinstance(e, ast.BoolOp):
            return "(" + (" && " if isinstance(e.op, ast.And) else " || ").join(cond(v) for v in e.values) + ")"
        raise Shape("condition " + ast.dump(e))

    def value(e):
        """Lean term of type `Option Chars` for a returned expression."""
        if isinstance(e, ast.Constant) and e.value is None:
            tags.append("none")
            return "none"
        if isinstance(e, ast.Constant) and isinstance(e.value, str):
            tags.append("const:" + e.value)
            return "some %s.toList" % json.dumps(e.value)
        # str(x).lower()
        if (isinstance(e, ast.Call) and isinstance(e.func, ast.Attribute) and e.func.attr == "lower" and not e.args
                and isinstance(e.func.value, ast.Call) and isinstance(e.func.value.func, ast.Name)
                and e.func.value.func.id == "str" and len(e.func.value.args) == 1):
            tags.append("strLower")
            return "some (Prims.pyStrLower %s)" % term(e.func.value.args[0])
        # '"%s"' % "".join(TABLE.get(c, c) for c in x)
        if isinstance(e, ast.BinOp) and isinstance(e.op, ast.Mod) and isinstance(e.left, ast.Constant) \
                and isinstance(e.left.value, str) and e.left.value.count("%s") == 1 and e.left.value.count("%") == 1 \
                and isinstance(e.right, ast.Call) and isinstance(e.right.func, ast.Attribute) and e.right.func.attr == "join" \
                and isinstance(e.right.func.value, ast.Constant) and e.right.func.value.value == "" \
                and len(e.right.args) == 1 and isinstance(e.right.args[0], ast.GeneratorExp):
            g = e.right.args[0]
            if not (len(g.generators) == 1 and not g.generators[0].ifs and isinstance(g.generators[0].target, ast.Name)
                    and isinstance(g.elt, ast.Call) and isinstance(g.elt.func, ast.Attribute) and g.elt.func.attr == "get"
                    and isinstance(g.elt.func.value, ast.Name) and len(g.elt.args) == 2
                    and all(isinstance(a, ast.Name) and a.id == g.generators[0].target.id for a in g.elt.args)):
                raise Shape("escaping comprehension " + ast.dump(g))
            tables.append(g.elt.func.value.id)
            pre, post = e.left.value.split("%s")
            tags.append("percent-escaped:" + e.left.value)
            return "some (%s.toList ++ Prims.escapeWith %s (Prims.pyStr %s) ++ %s.toList)" % (
                json.dumps(pre), "table_" + g.elt.func.value.id, term(g.generators[0].iter), json.dumps(post))
        # '"%s"' % x
        if isinstance(e, ast.BinOp) and isinstance(e.op, ast.Mod) and isinstance(e.left, ast.Constant) \
                and isinstance(e.left.value, str) and e.left.value.count("%s") == 1 and e.left.value.count("%") == 1:
            pre, post = e.left.value.split("%s")
            tags.append("percent:" + e.left.value)
            return "some (%s.toList ++ Prims.pyStr %s ++ %s.toList)" % (json.dumps(pre), term(e.right), json.dumps(post))
        # json.dumps(x)
        if isinstance(e, ast.Call) and isinstance(e.func, ast.Attribute) and e.func.attr == "dumps" \
                and isinstance(e.func.value, ast.Name) and e.func.value.id == "json" and len(e.args) == 1 and not e.keywords:
            tags.append("jsonDumps")
            return "some (Prims.jsonDumps %s)" % term(e.args[0])
        # print_ast(ast_node_from_value(x, t[, numeric_strings=<bool>]))
        if isinstance(e, ast.Call) and isinstance(e.func, ast.Name) and e.func.id == "print_ast" and len(e.args) == 1 \
                and not e.keywords and isinstance(e.args[0], ast.Call) and isinstance(e.args[0].func, ast.Name) \
                and e.args[0].func.id == "ast_node_from_value" and len(e.args[0].args) == 2:
            inner = e.args[0]
            strict = False
            for kw in inner.keywords:
                if kw.arg == "numeric_strings" and isinstance(kw.value, ast.Constant) and isinstance(kw.value.value, bool):
                    strict = not kw.value.value
                else:
                    raise Shape("keyword of ast_node_from_value: " + str(kw.arg))
            tags.append("printAstStrict" if strict else "printAst")
            return "(Prims.%s s %s %s)" % ("printAstOfValueStrict" if strict else "printAstOfValue",
                                           term(inner.args[0]), term(inner.args[1]))
        raise Shape("returned expression " + ast.dump(e))

    def block(stmts, after):
        if not stmts:
            if after is None:
                raise Shape("falls off the end")
            return after
        s, rest = stmts[0], stmts[1:]
        if isinstance(s, ast.Expr) and isinstance(s.value, ast.Constant):
            return block(rest, after)
        if isinstance(s, (ast.Import, ast.ImportFrom)):
            return block(rest, after)
        if isinstance(s, ast.Return):
            return value(s.value)
        # try: <block> except (ValueError, TypeError) [as e]: raise <Error>(...)   — the model's `none` stands for the
        # exceptions of ast_node_from_value, and for the field error they are turned into
        if isinstance(s, ast.Try) and not s.orelse and not s.finalbody and s.handlers and all(
                len(h.body) == 1 and isinstance(h.body[0], ast.Raise) for h in s.handlers):
            tags.append("try-raise")
            return block(s.body, block(rest, after) if rest or after is not None else None)
        if isinstance(s, ast.Assign) and len(s.targets) == 1 and isinstance(s.targets[0], ast.Name):
            env[s.targets[0].id] = term(s.value)
            return block(rest, after)
        if isinstance(s, ast.If):
            c = cond(s.test)
            tail = block(rest, after) if rest or after is not None else None
            th = block(s.body, tail)
            el = block(s.orelse, tail)
            return "(if %s then %s else %s)" % (c, th, el)
        raise Shape("statement " + type(s).__name__)

    body = block(fn.body, None)
    pre = ""
    tree = ast.parse(src)
    for tname in dict.fromkeys(tables):
        val = None
        for n in tree.body:
            if isinstance(n, ast.Assign) and len(n.targets) == 1 and isinstance(n.targets[0], ast.Name) and n.targets[0].id == tname:
                val = ast.literal_eval(n.value)
        if not (isinstance(val, dict) and all(isinstance(k, str) and len(k) == 1 and isinstance(v, str) for k, v in val.items())):
            raise Shape("escape table %s is not a {char: str} literal" % tname)
        pre += ("/-- module-level table `%s` (code points) -/\ndef table_%s : List (Char × Chars) := [%s]\n\n" % (
            tname, tname, ", ".join("(Char.ofNat %d, [%s])" % (ord(k), ", ".join("Char.ofNat %d" % ord(c) for c in v))
                                    for k, v in val.items())))
    lean = (pre + "/-- `_format_default_value`, translated statement by statement. `s` is the schema (only the\n"
            "    `print_ast(ast_node_from_value(..))` form looks at it), `hasDefault`/`dv`/`ty` are the attributes of the input value. -/\n"
            "def formatDefaultValue (s : SchemaD) (hasDefault : Bool) (dv : J) (ty : Ty) : Option Chars :=\n  %s\n" % body)
    return lean, tags


TYPE_CLASSES = ["ScalarType", "ObjectType", "InterfaceType", "UnionType", "EnumType", "InputObjectType", "ListType", "NonNullType"]
CLS_KIND = {"ScalarType": "scalar", "ObjectType": "object", "InterfaceType": "interface", "UnionType": "union",
            "EnumType": "enum", "InputObjectType": "input", "ListType": "list", "NonNullType": "nonNull"}
TARGETS = {"schema": "SCHEMA_INTROSPECTION_FIELD", "type": "TYPE_INTROSPECTION_FIELD", "typename": "TYPE_NAME_INTROSPECTION_FIELD"}


def module_constant(tree, name):
    """literal value of a module-level `NAME = <literal>` (class names inside stay ast.Name nodes)"""
    for n in tree.body:
        if isinstance(n, ast.Assign) and len(n.targets) == 1 and isinstance(n.targets[0], ast.Name) and n.targets[0].id == name:
            return n.value
    return None


def type_kind_table(src):
    """STATIC route: [(python class, kind string)] in source order, from either
       * the if/elif isinstance chain of `_resolve_type_kind`, or
       * a first-match loop `for cls, kind in TABLE: if isinstance(x, cls): return kind` over a module-level
         table of (class, kind) pairs."""
    tree = ast.parse(src)
    fn = py2lean.find_function(src, "_resolve_type_kind")
    arg = fn.args.args[0].arg
    body = [st for st in fn.body if not (isinstance(st, ast.Expr) and isinstance(st.value, ast.Constant))]
    rows = []
    node = body[0] if body else None
    if isinstance(node, ast.For):
        tbl = module_constant(tree, node.iter.id) if isinstance(node.iter, ast.Name) else node.iter
        tgt = node.target
        ok = (isinstance(tbl, (ast.Tuple, ast.List)) and isinstance(tgt, ast.Tuple) and len(tgt.elts) == 2
              and all(isinstance(e, ast.Name) for e in tgt.elts) and len(node.body) == 1 and isinstance(node.body[0], ast.If)
              and not node.orelse)
        if ok:
            c, k = tgt.elts[0].id, tgt.elts[1].id
            t = node.body[0]
            ok = (isinstance(t.test, ast.Call) and isinstance(t.test.func, ast.Name) and t.test.func.id == "isinstance"
                  and len(t.test.args) == 2 and isinstance(t.test.args[0], ast.Name) and t.test.args[0].id == arg
                  and isinstance(t.test.args[1], ast.Name) and t.test.args[1].id == c and len(t.body) == 1
                  and isinstance(t.body[0], ast.Return) and isinstance(t.body[0].value, ast.Name) and t.body[0].value.id == k
                  and not t.orelse)
        if not ok:
            raise Shape("_resolve_type_kind: loop is not a first-match isinstance loop over a literal table")
        for e in tbl.elts:
            if not (isinstance(e, ast.Tuple) and len(e.elts) == 2 and isinstance(e.elts[0], ast.Name)
                    and isinstance(e.elts[1], ast.Constant) and isinstance(e.elts[1].value, str)):
                raise Shape("_resolve_type_kind: table row " + ast.dump(e))
            rows.append((e.elts[0].id, e.elts[1].value))
    else:
        while isinstance(node, ast.If):
            t = node.test
            if not (isinstance(t, ast.Call) and isinstance(t.func, ast.Name) and t.func.id == "isinstance"
                    and isinstance(t.args[0], ast.Name) and t.args[0].id == arg and isinstance(t.args[1], ast.Name)):
                raise Shape("_resolve_type_kind test " + ast.dump(t))
            if not (len(node.body) == 1 and isinstance(node.body[0], ast.Return) and isinstance(node.body[0].value, ast.Constant)):
                raise Shape("_resolve_type_kind branch body")
            rows.append((t.args[1].id, node.body[0].value.value))
            node = node.orelse[0] if len(node.orelse) == 1 else None
    if len(rows) < 2:
        raise Shape("_resolve_type_kind is neither an isinstance chain nor a table loop")
    for c, _ in rows:
        if c not in CLS_KIND:
            raise Shape("unknown class %s in _resolve_type_kind" % c)
    return rows


def type_kind_observed():
    """DYNAMIC route: the real `_resolve_type_kind` on one instance of every library type class (+ a foreign
    object, which must raise TypeError). {class name: kind | "raises:<Class>"}"""
    import py_gql.schema as S
    from py_gql.schema import introspection as I
    inst = {
        "ScalarType": S.ScalarType("Sc", serialize=lambda x: x, parse=lambda x: x),
        "ObjectType": S.ObjectType("Ob", [S.Field("a", S.Int)]),
        "InterfaceType": S.InterfaceType("If", [S.Field("a", S.Int)]),
        "UnionType": S.UnionType("Un", []),
        "EnumType": S.EnumType("En", ["A"]),
        "InputObjectType": S.InputObjectType("In", [S.InputField("a", S.Int)]),
        "ListType": S.ListType(S.Int),
        "NonNullType": S.NonNullType(S.Int),
        "<foreign>": object(),
    }
    out = {}
    for k, v in inst.items():
        try:
            out[k] = I._resolve_type_kind(v)
        except Exception as e:  # noqa
            out[k] = "raises:" + type(e).__name__
    return out


def type_kind_rows():
    """-> (rows, "static" | "dynamic"). The static table is cross-checked against the observed one."""
    obs = type_kind_observed()
    if obs.get("<foreign>") != "raises:TypeError":
        raise Shape("_resolve_type_kind(<foreign object>) = %r (TypeError expected)" % (obs.get("<foreign>"),))
    try:
        rows = type_kind_table(INTROSPECTION.read_text())
        how = "static"
    except py2lean.Untranslatable:
        rows, how = None, "dynamic"
    if rows is not None:
        # first match in source order must be what the live function answers (the class hierarchy is flat)
        first = {}
        for c, k in rows:
            first.setdefault(c, k)
        if any(first.get(c) != obs[c] for c in TYPE_CLASSES if not str(obs[c]).startswith("raises:")) or \
                any(c in first for c in TYPE_CLASSES if str(obs[c]).startswith("raises:")):
            rows, how = None, "dynamic"     # the source text is not what runs (decorated / rebound): trust the run
    if rows is None:
        rows = [(c, obs[c]) for c in TYPE_CLASSES if not str(obs[c]).startswith("raises:")]
    return rows, how


# ---- field_definition -------------------------------------------------------------------------

def field_definition_shape(src):
    """STATIC route. Branch structure of ResolutionContext.field_definition: meta names (a literal tuple or a
    module-level constant), and the chain of tests of the meta branch — one if/elif chain, or several consecutive
    `if` statements when every earlier one leaves through `return` (early return == elif)."""
    tree = ast.parse(src)
    fn = py2lean.find_function(src, "field_definition", cls="ResolutionContext")
    tr = [n for n in ast.walk(fn) if isinstance(n, ast.Try)]
    if len(tr) != 1 or len(tr[0].handlers) != 1:
        raise Shape("field_definition: try/except KeyError")
    h = tr[0].handlers[0].body
    tops = [st for st in h if isinstance(st, ast.If)]
    if len(tops) != 1 or not all(isinstance(st, (ast.Assign, ast.AnnAssign, ast.Expr)) for st in h[:h.index(tops[0])]):
        raise Shape("field_definition: handler is not [simple assignments] + one if")
    top = tops[0]
    t = top.test
    if not (isinstance(t, ast.Compare) and len(t.ops) == 1 and isinstance(t.ops[0], ast.In)):
        raise Shape("field_definition: `name in ...` test")
    names = t.comparators[0]
    if isinstance(names, ast.Name):
        names = module_constant(tree, names.id)
    if isinstance(names, ast.Call) and isinstance(names.func, ast.Name) and names.func.id in ("frozenset", "set", "tuple") and len(names.args) == 1:
        names = names.args[0]
    if not (isinstance(names, (ast.Tuple, ast.List, ast.Set)) and all(isinstance(c, ast.Constant) and isinstance(c.value, str) for c in names.elts)):
        raise Shape("field_definition: meta field names are not a literal collection of strings")
    meta = [c.value for c in names.elts]
    qnames = set()      # local names bound to the `query_type is parent_type` test
    for st in ast.walk(top):
        if isinstance(st, ast.Assign) and len(st.targets) == 1 and isinstance(st.targets[0], ast.Name) \
                and isinstance(st.value, ast.Compare) and isinstance(st.value.ops[0], ast.Is):
            qnames.add(st.targets[0].id)
    chain = []
    ifs = [st for st in top.body if isinstance(st, ast.If)]
    if not ifs:
        raise Shape("field_definition: no test in the meta branch")
    for n_if, node in enumerate(ifs):
        all_return = True
        while isinstance(node, ast.If):
            c = node.test
            if isinstance(c, ast.Attribute) and c.attr == "_disable_introspection":
                if not (len(node.body) == 1 and isinstance(node.body[0], ast.Return)
                        and isinstance(node.body[0].value, ast.Constant) and node.body[0].value.value is None):
                    raise Shape("field_definition: disabled branch must `return None`")
                chain.append(("disabled", None, False))
            else:
                name, needs_q = None, False
                parts = c.values if isinstance(c, ast.BoolOp) and isinstance(c.op, ast.And) else [c]
                for p in parts:
                    if isinstance(p, ast.Compare) and isinstance(p.ops[0], ast.Eq) and isinstance(p.comparators[0], ast.Constant):
                        name = p.comparators[0].value
                    elif isinstance(p, ast.Name) and p.id in qnames:
                        needs_q = True
                    elif isinstance(p, ast.Compare) and isinstance(p.ops[0], ast.Is):
                        needs_q = True
                    else:
                        raise Shape("field_definition: test " + ast.dump(p))
                tgt = node.body[0]
                if len(node.body) == 1 and isinstance(tgt, ast.Assign) and isinstance(tgt.value, ast.Name):
                    chain.append((tgt.value.id, name, needs_q))
                    all_return = False
                elif len(node.body) == 1 and isinstance(tgt, ast.Return) and isinstance(tgt.value, ast.Name):
                    chain.append((tgt.value.id, name, needs_q))
                else:
                    raise Shape("field_definition: branch body")
            node = node.orelse[0] if len(node.orelse) == 1 and isinstance(node.orelse[0], ast.If) else (
                None if not node.orelse else "else")
            if node == "else":
                chain.append(("else", None, False))
                node = None
                all_return = False
        if n_if + 1 < len(ifs) and not all_return:
            raise Shape("field_definition: consecutive ifs whose earlier branches do not return")
    if not (len(top.orelse) == 1 and isinstance(top.orelse[0], ast.Assign)):
        raise Shape("field_definition: ordinary branch")
    # `field_def = None` before the test (c907521): a meta name that falls through the chain is "not a field" (None)
    # instead of an UnboundLocalError — expressed as catch-all entries at the end of the chain.
    assigned = top.orelse[0].targets[0].id if isinstance(top.orelse[0].targets[0], ast.Name) else None
    pre = h[:h.index(top)] if top in h else []
    if any(isinstance(st, (ast.Assign, ast.AnnAssign)) and isinstance(getattr(st, "value", None), ast.Constant)
           and st.value.value is None and any(isinstance(tg, ast.Name) and tg.id == assigned
                                              for tg in (st.targets if isinstance(st, ast.Assign) else [st.target]))
           for st in pre):
        chain += [("NONE", m, False) for m in meta]
    return meta, chain


META_CANDIDATES = ["__schema", "__type", "__typename"]


def field_definition_observed():
    """DYNAMIC route: the real method on a small schema for every (name, parent is the query type?, disabled?).
    {(name, is_query, disabled): "schema"|"type"|"typename"|"none"|"unbound"|"ordinary:<n>"|"exc:<Class>"}"""
    import py_gql.schema as S
    from py_gql.execution.wrappers import ResolutionContext
    from py_gql.lang import parse
    from py_gql.schema import introspection as I
    ob = S.ObjectType("Ob", [S.Field("b", S.Int)])
    q = S.ObjectType("Query", [S.Field("a", S.Int), S.Field("o", ob)])
    schema = S.Schema(q)
    doc = parse("{ a }")
    ident = {id(I.SCHEMA_INTROSPECTION_FIELD): "schema", id(I.TYPE_INTROSPECTION_FIELD): "type",
             id(I.TYPE_NAME_INTROSPECTION_FIELD): "typename"}
    out = {}
    for name in META_CANDIDATES + ["__other", "a", "b"]:
        for is_q, parent in ((True, q), (False, ob)):
            for dis in (False, True):
                rc = ResolutionContext(schema, doc, {}, None, disable_introspection=dis)
                try:
                    d = rc.field_definition(parent, name)
                except UnboundLocalError:
                    r = "unbound"
                except Exception as e:  # noqa
                    r = "exc:" + type(e).__name__
                else:
                    r = "none" if d is None else ident.get(id(d), "ordinary:" + d.name)
                out[(name, is_q, dis)] = r
    return out


def simulate_chain(meta, chain, name, is_q, dis, ordinary):
    """What the Lean model (`fieldDefinition` / `walkChain`) answers for this extracted table."""
    if name not in meta:
        return ordinary
    for tgt, tested, needs_q in chain:
        if tgt == "disabled":
            if dis:
                return "none"
        elif tested == name and (not needs_q or is_q):
            inv = {v: k for k, v in TARGETS.items()}
            return inv.get(tgt, "none")
    return "unbound"


def chain_from_observed(obs):
    """Synthesise (meta names, chain) that makes the model reproduce the observed table."""
    ordinary = {("a", True): "ordinary:a", ("b", False): "ordinary:b"}
    meta, before, after = [], [], []
    for name in META_CANDIDATES:
        rows = {(q, d): obs[(name, q, d)] for q in (True, False) for d in (False, True)}
        if all(v == "none" for v in rows.values()):
            continue                      # not treated as a meta field at all (plain lookup misses)
        meta.append(name)
        ent = []
        eq, en = rows[(True, False)], rows[(False, False)]
        if eq in TARGETS and en == eq:
            ent.append((TARGETS[eq], name, False))
        else:
            if eq in TARGETS:
                ent.append((TARGETS[eq], name, True))
            elif eq == "none":
                ent.append(("NONE", name, True))
            if en in TARGETS:
                ent.append((TARGETS[en], name, False))
            elif en == "none":
                ent.append(("NONE", name, False))
        hidden = (rows[(True, True)], rows[(False, True)]) != (eq, en)
        (after if hidden else before).extend(ent)
    chain = before + ([("disabled", None, False)] if after else []) + after
    return meta, chain, ordinary


def check_chain(meta, chain, obs):
    for (name, is_q, dis), real in obs.items():
        if name in ("a", "b"):
            ordinary = real
        else:
            ordinary = "none"
        if simulate_chain(meta, chain, name, is_q, dis, ordinary) != real:
            return (name, is_q, dis, real)
    return None


def field_definition_table():
    """-> (meta, chain, "static" | "dynamic")"""
    obs = field_definition_observed()
    try:
        meta, chain = field_definition_shape(WRAPPERS.read_text())
        bad = check_chain(meta, chain, obs)
        if bad is None:
            return meta, chain, "static"
    except py2lean.Untranslatable:
        pass
    meta, chain, _ = chain_from_observed(obs)
    bad = check_chain(meta, chain, obs)
    if bad is not None:
        raise Shape("field_definition: observed behaviour %r is outside what the model's chain can express" % (bad,))
    return meta, chain, "dynamic"


def extract(ctx):
    src = INTROSPECTION.read_text()
    fdv, tags = translate_format_default(src)
    rows, how_kind = type_kind_rows()
    meta, chain, how_fd = field_definition_table()
    cls_kind = CLS_KIND
    ctx.extra["extraction"] = {"_format_default_value": "static (statement-level translation)",
                               "_resolve_type_kind": how_kind, "field_definition": how_fd}
    lines = [py2lean.header("src/py_gql/schema/introspection.py and execution/wrappers.py"),
             "import PyGqlModel.IntrospectPrims", "set_option linter.unusedVariables false",
             "namespace PyGql.Generated.Introspection", "open PyGql PyGql.Introspect", "", fdv,
             "/-- branch tags of `_format_default_value` in source order -/",
             "def formatBranches : List String := [%s]" % ", ".join(json.dumps(t) for t in tags), "",
             "/-- `_resolve_type_kind`: (model class tag, reported kind) in the order of the isinstance chain -/",
             "def typeKindTable : List (String × String) := [%s]" % ", ".join(
                 "(%s, %s)" % (json.dumps(cls_kind[c]), json.dumps(k)) for c, k in rows), "",
             "/-- `field_definition`: names treated as meta fields -/",
             "def metaFieldNames : List String := [%s]" % ", ".join(json.dumps(m) for m in meta), "",
             "/-- `field_definition`: the if/elif chain inside the meta branch: (target, tested name, requires query type) -/",
             "def metaChain : List (String × String × Bool) := [%s]" % ", ".join(
                 "(%s, %s, %s)" % (json.dumps(t), json.dumps(n or ""), "true" if q else "false") for t, n, q in chain),
             "", "end PyGql.Generated.Introspection"]
    return {"PyGqlModel/Generated/Introspection.lean": "\n".join(lines) + "\n"}


# ---------------------------------------------------------------------------
# cases
# ---------------------------------------------------------------------------

def cases(ctx):
    """yield (label, live schema, reproducible description)"""
    import os
    cdir = REPO  # noqa
    from common import CORPUS
    d = CORPUS / "C15"
    if d.exists():
        for p in sorted(d.glob("*.json")):
            c = json.loads(p.read_text())
            yield ("corpus:" + p.stem,) + load_case(c)
    for name in sorted(SPECIAL):
        c = {"mode": "special", "name": name}
        yield ("special:" + name,) + load_case(c)
    n = ctx.n(8, 60)
    for i in range(n):
        if ctx.time_left() < (20 if ctx.tier == "quick" else 90):
            ctx.notes.append("stopped generating after %d schemas (time budget)" % i)
            break
        seed = ctx.rng.randrange(1 << 30)
        size = 1 + i % 3
        for mode in ("sdl", "code", "code-sub", "code-py"):
            c = {"mode": mode, "seed": seed, "size": size}
            yield ("gen:%s" % mode,) + load_case(c)


def special_json_defaults():
    """Ledger I7: dict / list / tuple defaults of a custom JSON-like scalar (top level, in a list type, inside an
    input-object default and as an input field's own default)."""
    from py_gql.schema import (Argument, Field, InputField, InputObjectType, Int, ListType, NonNullType, ObjectType,
                               ScalarType, Schema)
    js = ScalarType("Json", serialize=lambda v: v, parse=lambda v: v, parse_literal=L.typed_parse_literal)
    inp = InputObjectType("JsonIn", [InputField("j", js, default_value={"deep": [{"k": None}, []]}), InputField("n", Int)])
    return Schema(ObjectType("Query", [Field("search", Int, [
        Argument("filter", js, default_value={"tags": ["a", "007", "7", "1.5"], "limit": 10, "on": True, "none": None, "sub": {"x": [], "n": "42"}}),
        Argument("empty", js, default_value={}),
        Argument("emptyList", NonNullType(js), default_value=[]),
        Argument("tup", js, default_value=(1, "two")),
        Argument("many", ListType(js), default_value=[{"a": 1}, ["x"], "s", 2, None]),
        Argument("obj", inp, default_value={"j": {"a": [1, 2]}, "n": 3}),
        Argument("objDefault", inp, default_value={"n": 4}),
    ])]))


def special_name_collision():
    """Ledger I9: Python / GraphQL names of two input fields cross (`type`~kind, `kind`~kind_)."""
    from py_gql.schema import Argument, Field, InputField, InputObjectType, Int, ObjectType, Schema, String
    inp = InputObjectType("In", [InputField("type", String, python_name="kind"), InputField("kind", String, python_name="kind_"),
                                 InputField("plain", Int, default_value=1)])
    return Schema(ObjectType("Query", [Field("f", Int, [
        Argument("a", inp, default_value={"kind": "T"}),
        Argument("b", inp, default_value={"kind_": "K", "plain": 2}),
        Argument("c", inp, default_value={"kind": "T", "kind_": "K"}),
    ])]))


SPECIAL = {"json-defaults": special_json_defaults, "name-collision": special_name_collision}


def load_case(c):
    """case description -> (live schema, case description)"""
    import random
    if c["mode"] == "special":
        return SPECIAL[c["name"]](), c
    if c["mode"] == "sdl-text":
        from py_gql import build_schema
        return build_schema(c["sdl"]), c
    if c["mode"] == "dump":
        return L.build_code(c["dump"], c.get("enum_map")), c
    rng = random.Random(c["seed"])
    desc = L.gen_desc(rng, c["size"])
    schema = L.build_sdl(desc)
    if c["mode"] == "sdl":
        return schema, c
    from canon_schema import dump_schema
    d = dump_schema(schema)
    d = json.loads(json.dumps({**d, "types": d["types"], "directives": d["directives"]}))
    full = L.dump_full(schema)
    user = {t["name"] for t in d["types"]}
    d["types"] = [t for t in full["types"] if t["name"] in user]
    d["directives"] = [x for x in full["directives"] if x["name"] not in ("include", "skip", "deprecated")]
    L.sprinkle_string_defaults(rng, d)
    em = L.make_enum_map(rng, d)
    d = L.add_numeric_scalar_defaults(d, rng)
    if c["mode"] == "code-py":
        # input fields whose python_name differs from their GraphQL name; declared defaults keyed by Python names
        if c["seed"] % 2 == 0:
            return L.build_code(d, em, pynames=True), c
        from py_gql.schema.transforms import CamelCaseSchemaTransform, transform_schema
        return transform_schema(L.build_code(L.snake_input_fields(d), em), CamelCaseSchemaTransform()), c
    if c["mode"] == "code-sub":
        # every type object is an instance of a SUBCLASS of the library class (+ RegexType / UUID of the library)
        d = L.add_library_scalars(d)
        if c.get("twin"):
            return L.build_code(d, em), c       # the plain-class twin of the same description
        return L.build_code(d, em, subclass=True), c
    return L.build_code(d, em), c


def configs_for(ctx, i):
    cfgs = ["blocking", "generic"]
    if i % (4 if ctx.tier == "quick" else 3) == 0:
        cfgs += ["asyncio", "threadpool"]
    if i == 0:
        cfgs += ["threadpool-real"]
    return cfgs


# ---------------------------------------------------------------------------
# the direct oracle
# ---------------------------------------------------------------------------

def std_query(include_deprecated="true"):
    from py_gql.utilities import introspection_query
    q = introspection_query()
    if include_deprecated == "true":
        return q
    if include_deprecated == "false":
        return q.replace("(includeDeprecated: true)", "(includeDeprecated: false)")
    return q.replace("(includeDeprecated: true)", "")


def oracle_schema(ctx, label, schema, case, cfgs, model_reqs):
    """Everything the statement says about one schema. Returns the standard result (or None)."""
    from py_gql.schema import InterfaceType, ObjectType
    detail0 = {"case": case}
    results = {}
    for cfg in cfgs:
        st, r = L.execute(schema, std_query(), cfg)
        ctx.count()
        ctx.stat("config=" + cfg)
        if st == "inconclusive":
            ctx.stat("inconclusive:" + cfg)
            continue
        if st != "ok":
            ctx.fail("introspection-raises:%s" % r, "the standard introspection query raises %s" % r,
                     dict(detail0, config=cfg, check="standard"))
            return None
        if r.get("errors") or "data" not in r or r["data"] is None:
            ctx.fail("introspection-errors", "the standard introspection query answers with errors",
                     dict(detail0, config=cfg, check="standard", errors=r.get("errors")))
            return None
        results[cfg] = r["data"]
    base = results[cfgs[0]]
    cfgs = [c for c in cfgs if c in results and c != "threadpool-real"]
    for cfg in [c for c in results if c != "blocking"]:
        if results[cfg] != base:
            ctx.fail("config-differs:%s:%s" % (cfg, L.diff_class(L.first_diff(base, results[cfg]) or "")),
                     "executor/runtime configuration %s reports something else than %s" % (cfg, cfgs[0]),
                     dict(detail0, config=cfg, check="standard"))
    dump = L.dump_full(schema)
    user_types = [t for t in dump["types"] if not t["name"].startswith("__") and t["name"] not in
                  ("Int", "Float", "String", "Boolean", "ID")]
    if len(user_types) > 1:
        ctx.nontrivial(("schema", json.dumps(dump, sort_keys=True)))

    check_reports_schema(ctx, schema, base, detail0)

    # -- (c) deprecated members hidden unless requested ------------------------------------
    want = L.hide_deprecated(base)
    for variant in ("false", "omitted"):
        st, r = L.execute(schema, std_query(variant), cfgs[-1] if variant == "omitted" else cfgs[0])
        ctx.count()
        if st != "ok" or r.get("errors"):
            ctx.fail("deprecated-hidden:raises", "introspection without deprecated members fails", dict(detail0, check="deprecated", variant=variant))
            continue
        if r["data"] != want:
            p = L.first_diff(want, r["data"])
            ctx.fail("deprecated-hidden:%s:%s" % (variant, L.diff_class(p or "")),
                     "with includeDeprecated %s the result is not the standard result minus the deprecated members (at %s)" % (variant, p),
                     dict(detail0, check="deprecated", variant=variant, path=p))
    n_dep = sum(1 for t in base["__schema"]["types"] for f in (t.get("fields") or []) + (t.get("enumValues") or []) if f.get("isDeprecated"))
    ctx.stat("deprecated-members", n_dep)

    # -- (d) disabled: hides every meta field, keeps the ordinary ones -----------------------
    oracle_disabled(ctx, schema, detail0, cfgs)
    # -- (e) __type(name:) of names in / not in the schema ---------------------------------------
    oracle_type_by_name(ctx, schema, detail0, cfgs)
    # -- (f) the application's default resolvers do not resolve the introspection types' fields -----
    oracle_default_resolvers(ctx, schema, base, detail0, cfgs)
    return base


def _by_graphql_name(root, ctx__, info, **args):
    name = info.field_definition.name
    return root.get(name) if isinstance(root, dict) else getattr(root, name, None)


def _dict_only(root, ctx__, info, **args):
    return root.get(info.field_definition.python_name) if isinstance(root, dict) else None


def _constant(root, ctx__, info, **args):
    return None


def oracle_default_resolvers(ctx, schema, base, detail0, cfgs):
    """Ledger I8. Introspection describes library objects: whatever GLOBAL default resolver (`schema.default_resolver`)
    or per-type default resolvers the application configured, the standard result is the same."""
    from py_gql.schema import ObjectType
    user_objs = [t for t in schema.types.values() if isinstance(t, ObjectType) and not t.name.startswith("__")]
    saved = schema.default_resolver, [(t, t.default_resolver) for t in user_objs]
    try:
        for which, fn in (("by-graphql-name", _by_graphql_name), ("dict-only", _dict_only), ("per-type", _constant)):
            if which == "per-type":
                schema.default_resolver = saved[0]
                for t in user_objs:
                    t.default_resolver = fn
            else:
                schema.default_resolver = fn
            for cfg in (cfgs[:2] if which == "by-graphql-name" else cfgs[:1]):
                ctx.count()
                st, r = L.execute(schema, std_query(), cfg)
                if st != "ok":
                    ctx.fail("default-resolver-affects-introspection:%s:raises-%s" % (which, r),
                             "with a custom %s default resolver the standard introspection query raises %s" % (which, r),
                             dict(detail0, check="default-resolvers", which=which, config=cfg))
                elif r.get("errors") or r.get("data") != base:
                    p = L.first_diff(base, r.get("data")) if r.get("data") else "/"
                    ctx.fail("default-resolver-affects-introspection:%s:%s" % (which, "errors" if r.get("errors") else L.diff_class(p or "")),
                             "with a custom %s default resolver the standard introspection result changes (at %s; %d errors)"
                             % (which, p, len(r.get("errors") or [])),
                             dict(detail0, check="default-resolvers", which=which, config=cfg, path=p))
    finally:
        schema.default_resolver = saved[0]
        for t, d in saved[1]:
            t.default_resolver = d
        try:
            schema._is_valid = None
        except Exception:  # noqa
            pass


def oracle_type_by_name(ctx, schema, detail0, cfgs, gone=()):
    """`__type(name:)`: a name that is not in the schema (unknown, empty, a type that was removed / hidden: `gone`)
    answers `{"__type": null}` without errors — it never raises (fixed: f2efa6b; the check keeps asking) —,
    and the names of built-in scalars and introspection types resolve to themselves."""
    for cfg in cfgs[:2]:
        for name in ["Nope", ""] + (["query", "__nope"] if cfg == cfgs[0] else []) + list(gone):
            if name in schema.types:
                continue
            ctx.count()
            st, r = L.execute(schema, "{ __type(name: %s) { name kind } }" % json.dumps(name), cfg)
            if st != "ok" or r.get("errors") or r.get("data") != {"__type": None}:
                ctx.fail("type-query-unknown-name-not-null:" + ("raises" if st != "ok" else ("errors" if r.get("errors") else "data")),
                         "__type(name: %r) of a name that is not in the schema does not answer null (%s)" % (name, r if st != "ok" else str(r)[:200]),
                         dict(detail0, check="type-by-name", name=name, config=cfg, gone=list(gone)))
        for name in (("__Type", "__InputValue", "ID", schema.query_type.name) if cfg == cfgs[0] else ()):
            ctx.count()
            st, r = L.execute(schema, "{ __type(name: %s) { name } }" % json.dumps(name), cfg)
            if st != "ok" or r.get("errors") or r.get("data") != {"__type": {"name": name}}:
                ctx.fail("type-query-known-name-not-resolved", "__type(name: %r) does not resolve to that type" % name,
                         dict(detail0, check="type-by-name", name=name, config=cfg))


def oracle_subclass_twin(ctx, case, base):
    """Type objects that are instances of subclasses of the library classes (ScalarType subclasses are the
    documented way to write custom scalars; RegexType is one) are reported exactly like their plain-class twins."""
    twin, _ = load_case(dict(case, twin=True))
    st, r = L.execute(twin, std_query(), "blocking")
    ctx.count()
    ctx.nontrivial(("subclass-twin", case.get("seed")))
    if st != "ok" or r.get("errors"):
        ctx.notes.append("plain twin of %r could not be introspected" % (case,))
        return
    if r["data"] != base:
        p = L.first_diff(r["data"], base)
        ctx.fail("subclass-instance-differs:" + L.diff_class(p or ""),
                 "a schema built from instances of SUBCLASSES of the library type classes is reported differently from its plain-class twin (at %s)" % p,
                 {"case": case, "check": "subclass-twin", "path": p})


def check_reports_schema(ctx, schema, base, detail0):
    """(a) + (b) of the statement for ONE introspection result `base` of the live `schema` as it is NOW:
    decoded result == the schema's current content; every reported default parses back to the current default."""
    from py_gql.schema import InterfaceType, ObjectType
    dump = L.dump_full(schema)
    # -- (a) nothing missing, nothing invented --------------------------------------------
    dec = L.decode_introspection(base)
    exp = L.strip_for_compare(dump, False)
    got = L.strip_for_compare(dec, True)
    p = L.first_diff(exp, got)
    ctx.count()
    if p:
        ctx.fail("lossless:" + L.diff_class(p), "decoded introspection result differs from the schema at %s" % p,
                 dict(detail0, check="lossless", path=p))
    for t in dec["types"]:
        live = schema.types.get(t["name"])
        want_null = {"fields": not isinstance(live, (ObjectType, InterfaceType)), "interfaces": t["kind"] != "object",
                     "possibleTypes": t["kind"] not in ("interface", "union"), "enumValues": t["kind"] != "enum",
                     "inputFields": t["kind"] != "input"}
        if t["nullness"] != want_null:
            ctx.fail("lossless:kind-specific-lists:" + t["kind"], "a list that does not apply to this kind is not null (or vice versa)",
                     dict(detail0, check="lossless", type=t["name"]))
        if t["kind"] == "interface":
            impl = sorted(o["name"] for o in dump["types"] if t["name"] in o["interfaces"])
            if sorted(t["possible"] or []) != impl:
                ctx.fail("lossless:possibleTypes:interface", "possibleTypes of an interface are not its implementers",
                         dict(detail0, check="lossless", type=t["name"]))
        for f in t["fields"]:
            if (f["reason_raw"] is not None) != f["deprecated_flag"]:
                ctx.stat("observation:reason-without-flag")

    # -- (b) defaults: GraphQL syntax that parses back to the declared default -------------
    texts = {}
    for t in dec["types"]:
        for f in t["fields"]:
            for a in f["args"]:
                texts["%s.%s(%s)" % (t["name"], f["name"], a["name"])] = a["default_text"]
        for a in t["input_fields"]:
            texts["%s.%s" % (t["name"], a["name"])] = a["default_text"]
    for x in dec["directives"]:
        for a in x["args"]:
            texts["@%s(%s)" % (x["name"], a["name"])] = a["default_text"]
    shrunk = 0
    for where, iv in L.iter_defaults(schema):
        if where.startswith("__"):
            continue
        ctx.count()
        if not iv.has_default_value:
            continue
        ok, reason = L.default_roundtrips(texts.get(where), iv.type, iv.default_value)
        ctx.stat("default:" + ("ok" if ok else "bad"))
        ctx.nontrivial(("default", str(iv.type), repr(iv.default_value)))
        if ok:
            continue
        if shrunk < 6:
            shrunk += 1
            t2, v2 = L.shrink_default(iv.type, iv.default_value)
            st, text2 = L.reported_default(t2, v2)
            _, reason2 = L.default_roundtrips(text2 if st == "ok" else None, t2, v2)
            if st != "ok":
                reason2 = "raises"
            sig = L.default_signature(t2, v2, reason2 or reason)
            ctx.fail(sig, "reported defaultValue %r of an input value of type %s with declared default %r does not parse back (%s)"
                     % (text2, t2, v2, reason2), dict(detail0, check="default", where=where, reported=texts.get(where),
                                                     shrunk={"type": str(t2), "value": L.canon_value_ordered(v2), "reported": text2}))



def world_value(t, depth=0):
    from py_gql.schema import EnumType, ListType, NonNullType, ObjectType, ScalarType
    if isinstance(t, NonNullType):
        return world_value(t.type, depth)
    if isinstance(t, ListType):
        return [world_value(t.type, depth + 1)] * (2 if depth == 0 else 1)
    if isinstance(t, EnumType):
        return t.values[0].value
    if isinstance(t, ScalarType):
        return {"Int": 7, "Float": 1.5, "String": "s", "Boolean": True, "ID": "id", "Rx": "aa",
                "UUID": "12345678-1234-5678-1234-567812345678"}.get(t.name, "sc")
    if isinstance(t, ObjectType):
        return {}
    return None


def ordinary_selection(schema, with_meta):
    """A query over the ordinary fields of the query type (+ meta fields when `with_meta`)."""
    from py_gql.schema import ListType, NonNullType, ObjectType, GraphQLCompositeType

    def base(t):
        while isinstance(t, (ListType, NonNullType)):
            t = t.type
        return t

    def selectable(f):
        return all(not a.required for a in f.arguments)
    parts = []
    for f in schema.query_type.fields:
        if not selectable(f):
            continue
        b = base(f.type)
        if isinstance(b, ObjectType):
            inner = [g.name for g in b.fields if selectable(g) and not isinstance(base(g.type), GraphQLCompositeType)][:2]
            if not inner:
                continue
            if with_meta:
                inner = ["__typename"] + inner + ["tn: __typename"]
            parts.append("%s { %s }" % (f.name, " ".join(inner)))
        elif isinstance(b, GraphQLCompositeType):
            continue   # abstract: needs resolve_type; not what this check is about
        else:
            parts.append(f.name)
    if with_meta:
        parts = (["__typename", "__schema { queryType { name } types { name kind } }"] + parts
                 + ['__type(name: "Query") { name fields { name } }', "again: __schema { directives { name } }"])
    return "{ " + " ".join(parts) + " }" if parts else None


def oracle_disabled(ctx, schema, detail0, cfgs):
    from py_gql.execution.default_resolver import default_resolver

    def resolver(root__, ctx__, info, **args):
        # (before fix I8 a schema-wide default resolver was also consulted for the introspection types' plain
        #  attributes; this oracle is about something else, so those stay on the library's default resolver)
        if info.parent_type.name.startswith("__"):
            return default_resolver(root__, ctx__, info, **args)
        return world_value(info.field_definition.type)
    saved = schema.default_resolver
    schema.default_resolver = resolver
    try:
        full = ordinary_selection(schema, True)
        plain = ordinary_selection(schema, False)
        for cfg in cfgs:
            ctx.count()
            st, r = L.execute(schema, std_query(), cfg, disable=True)
            if st != "ok" or r.get("data") != {} or r.get("errors"):
                ctx.fail("disabled:standard-query-not-hidden", "with disable_introspection the standard query still answers / fails",
                         dict(detail0, check="disabled", config=cfg, got=str(r)[:300]))
            st1, r1 = L.execute(schema, full, cfg, disable=True)
            if plain is None:
                ok = st1 == "ok" and r1.get("data") == {} and not r1.get("errors")
                if not ok:
                    ctx.fail("disabled:meta-only-query", "a query of meta fields only is not answered with empty data when introspection is disabled",
                             dict(detail0, check="disabled", config=cfg, query=full))
                continue
            st2, r2 = L.execute(schema, plain, cfg, disable=False)
            st3, r3 = L.execute(schema, plain, cfg, disable=True)
            st4, r4 = L.execute(schema, full, cfg, disable=False)
            ctx.count(3)
            if st1 != "ok" or st2 != "ok" or st3 != "ok" or st4 != "ok":
                ctx.fail("disabled:raises", "execution raises", dict(detail0, check="disabled", config=cfg, query=full,
                                                                   outcomes=[st1, r1 if st1 != "ok" else "", st2, st3, st4]))
                continue
            if has_meta_key(r1.get("data")):
                ctx.fail("disabled:meta-field-answered", "a meta field is answered although introspection is disabled",
                         dict(detail0, check="disabled", config=cfg, query=full))
            if strip_err(r1) != strip_err(r2):
                ctx.fail("disabled:ordinary-fields-affected:mixed", "disabled(meta + ordinary fields) differs from enabled(ordinary fields)",
                         dict(detail0, check="disabled", config=cfg, query=full, path=L.first_diff(strip_err(r1), strip_err(r2))))
            if strip_err(r3) != strip_err(r2):
                ctx.fail("disabled:ordinary-fields-affected:plain", "the same ordinary query answers differently when introspection is disabled",
                         dict(detail0, check="disabled", config=cfg, query=plain))
            # enabled sanity: meta fields are answered, ordinary part unchanged
            d4 = r4.get("data") or {}
            if d4.get("__typename") != schema.query_type.name or not isinstance(d4.get("__schema"), dict) \
                    or (d4.get("__type") or {}).get("name") != "Query" and schema.query_type.name == "Query":
                ctx.fail("enabled:meta-field-missing", "meta fields are not answered with introspection enabled",
                         dict(detail0, check="disabled", config=cfg, query=full))
            if strip_meta(d4) != r2.get("data"):
                ctx.fail("enabled:ordinary-fields-affected", "ordinary fields answer differently next to meta fields",
                         dict(detail0, check="disabled", config=cfg, query=full))
    finally:
        schema.default_resolver = saved


META_KEYS = ("__typename", "__schema", "__type", "tn", "again")


def has_meta_key(d):
    if isinstance(d, dict):
        return any(k in META_KEYS or has_meta_key(v) for k, v in d.items())
    if isinstance(d, list):
        return any(has_meta_key(x) for x in d)
    return False


def strip_meta(d):
    if isinstance(d, dict):
        return {k: strip_meta(v) for k, v in d.items() if k not in META_KEYS}
    if isinstance(d, list):
        return [strip_meta(x) for x in d]
    return d


def strip_err(r):
    """response with errors reduced to (path) — messages and locations are not compared"""
    return {"data": r.get("data"), "errors": sorted(json.dumps(e.get("path")) for e in r.get("errors", []))}


# ---------------------------------------------------------------------------
# run / replay
# ---------------------------------------------------------------------------

EMPTY_REASON_SDL = ('enum E { A @deprecated(reason: "") B }\n'
                    'type Query { a: Int @deprecated(reason: "") b: Int e: E }')


def oracle_empty_reason(ctx):
    """Ledger I2. A member whose deprecation reason is SET to the empty string is deprecated (types.py documents
    `deprecated: True if deprecation_reason is set` for fields and enum values alike; the SDL says `@deprecated`):
    it must be reported with isDeprecated = true, its reason "", and hidden unless requested."""
    from py_gql import build_schema
    from py_gql.schema import EnumType, EnumValue, Field, Int, ObjectType, Schema
    q = ('{ q: __type(name: "Query") { fields { name } all: fields(includeDeprecated: true) { name isDeprecated deprecationReason } } '
         'e: __type(name: "E") { enumValues { name } all: enumValues(includeDeprecated: true) { name isDeprecated deprecationReason } } }')
    e = EnumType("E", [EnumValue("A", deprecation_reason=""), EnumValue("B")])
    code = Schema(ObjectType("Query", [Field("a", Int, deprecation_reason=""), Field("b", Int), Field("e", e)]))
    for how, schema in (("sdl", build_schema(EMPTY_REASON_SDL)), ("code", code)):
        ctx.count()
        st, r = L.execute(schema, q, "blocking")
        if st != "ok" or r.get("errors"):
            ctx.fail("deprecated-flag:empty-reason:raises", "introspection of a member deprecated with an empty reason fails",
                     {"check": "empty-reason", "how": how})
            continue
        d = r["data"]
        if not (isinstance(d.get("q"), dict) and isinstance(d.get("e"), dict)):
            ctx.fail("type-query-known-name-not-resolved", "__type(name: \"Query\") / __type(name: \"E\") is not answered: %s" % str(d)[:200],
                     {"check": "empty-reason", "how": how})
            continue
        for what, key, vis, allm in (("field", "a", d["q"]["fields"], d["q"]["all"]), ("enum-value", "A", d["e"]["enumValues"], d["e"]["all"])):
            m = [x for x in allm if x["name"] == key]
            ok = (len(m) == 1 and m[0]["isDeprecated"] is True and m[0]["deprecationReason"] == ""
                  and key not in [x["name"] for x in vis])
            ctx.nontrivial(("empty-reason", how, what))
            if not ok:
                ctx.fail("deprecated-flag:empty-reason:" + what,
                         "a %s deprecated with the empty reason is reported as %r and is %s without includeDeprecated"
                         % (what, m[0] if m else None, "listed" if key in [x["name"] for x in vis] else "hidden"),
                         {"check": "empty-reason", "how": how, "member": what})


def oracle_null_reason(ctx):
    """Ledger I10. `@deprecated(reason: null)` is a legal application (reason is a nullable String): the member is
    deprecated, without a reason — isDeprecated true, deprecationReason null, hidden unless requested."""
    from py_gql import build_schema
    q = ('{ q: __type(name: "Query") { fields { name } all: fields(includeDeprecated: true) { name isDeprecated deprecationReason } } '
         'e: __type(name: "E") { enumValues { name } all: enumValues(includeDeprecated: true) { name isDeprecated deprecationReason } } }')
    try:
        schema = build_schema('enum E { A @deprecated(reason: null) B }\ntype Query { a: Int @deprecated(reason: null) b: Int e: E }')
    except Exception as e:  # noqa
        ctx.stat("null-reason:not-buildable-" + type(e).__name__)
        return
    st, r = L.execute(schema, q, "blocking")
    ctx.count()
    d = r.get("data") if st == "ok" else None
    if not (isinstance(d, dict) and isinstance(d.get("q"), dict) and isinstance(d.get("e"), dict)):
        return
    for what, key, vis, allm in (("field", "a", d["q"]["fields"], d["q"]["all"]), ("enum-value", "A", d["e"]["enumValues"], d["e"]["all"])):
        m = [x for x in allm if x["name"] == key]
        ok = len(m) == 1 and m[0]["isDeprecated"] is True and m[0]["deprecationReason"] is None and key not in [x["name"] for x in vis]
        ctx.nontrivial(("null-reason", what))
        if not ok:
            ctx.fail("deprecated-flag:null-reason:" + what,
                     "a %s carrying @deprecated(reason: null) is reported as %r and is %s without includeDeprecated"
                     % (what, m[0] if m else None, "listed" if key in [x["name"] for x in vis] else "hidden"),
                     {"check": "null-reason", "member": what})


INEXPRESSIBLE = [{"content-type": "text/plain"}, {"": 1}, {1: 2}, {"a": {"b c": 1}}, [{"x-y": 1}], {"__ok": 1, "9lives": 2}]


def oracle_inexpressible_defaults(ctx):
    """Ledger I12. A dict default of a JSON-like scalar whose keys are not Names (header-like keys, non-str keys, nested)
    has no object-literal spelling. Introspection must still ANSWER: `defaultValue` of that input value is null with a
    field error at its path, and everything else is reported as for the same schema without those defaults."""
    from py_gql.schema import Argument, Field, Int, ListType, ObjectType, ScalarType, Schema

    def build(with_bad):
        js = ScalarType("Json", serialize=lambda v: v, parse=lambda v: v)
        args = [Argument("good", js, default_value={"ok_key": [1, "x"]}), Argument("plain", Int, default_value=3)]
        for i, v in enumerate(INEXPRESSIBLE):
            t = ListType(js) if isinstance(v, list) else js
            args.append(Argument("bad%d" % i, t, default_value=v) if with_bad else Argument("bad%d" % i, t))
        return Schema(ObjectType("Query", [Field("f", Int, args)]))
    schema, twin = build(True), build(False)
    st0, r0 = L.execute(twin, std_query(), "blocking")
    for cfg in ("blocking", "generic"):
        ctx.count()
        st, r = L.execute(schema, std_query(), cfg)
        ctx.nontrivial(("inexpressible-default", cfg))
        if st != "ok":
            ctx.fail("inexpressible-default:no-response:raises-%s" % r,
                     "a default without a literal spelling makes the standard introspection query raise %s: no response at all" % r,
                     {"check": "inexpressible-defaults", "config": cfg})
            continue
        paths = sorted(json.dumps(e.get("path")) for e in r.get("errors", []))
        data = r.get("data")
        if not data or st0 != "ok" or data != r0.get("data"):
            ctx.fail("inexpressible-default:rest-of-schema-differs", "apart from the inexpressible defaults the result should be that of the schema without them",
                     {"check": "inexpressible-defaults", "config": cfg, "path": L.first_diff(r0.get("data"), data) if data else "/"})
        want = len(INEXPRESSIBLE)
        if len(paths) != want or not all(p.endswith('"defaultValue"]') for p in paths):
            ctx.fail("inexpressible-default:field-errors", "expected one field error per inexpressible default, at its defaultValue path; got %s" % paths[:4],
                     {"check": "inexpressible-defaults", "config": cfg, "errors": paths})


def oracle_meta_below_non_query(ctx):
    """`execute()` may be called without validation: `__schema` / `__type` selected below a type that is NOT the query
    type are not fields of that type — the ordinary unknown-field handling (selection skipped), never an exception
    out of the executor (before c907521: UnboundLocalError from `field_definition`)."""
    from py_gql.execution import Executor, execute
    from py_gql.execution.blocking_executor import BlockingExecutor
    from py_gql.execution.runtime import BlockingRuntime
    from py_gql.lang import parse
    from py_gql.schema import Field, Int, ObjectType, Schema
    ob = ObjectType("Ob", [Field("b", Int)])
    schema = Schema(ObjectType("Query", [Field("o", ob)]))
    doc = parse('{ o { __schema { queryType { name } } b __type(name: "Ob") { name } tn: __typename } }')
    for name, cls in (("blocking", BlockingExecutor), ("generic", Executor)):
        for dis in (False, True):
            ctx.count()
            ctx.nontrivial(("meta-below-non-query", name, dis))
            try:
                r = execute(schema, doc, initial_value={"o": {"b": 1}}, executor_cls=cls, runtime=BlockingRuntime(),
                            disable_introspection=dis)
                data = json.loads(json.dumps(r.response())).get("data")
            except Exception as e:  # noqa
                ctx.fail("meta-field-below-non-query-type:raises-" + type(e).__name__,
                         "`{ o { __schema {..} b } }` executed without validation raises %s out of the executor" % type(e).__name__,
                         {"check": "meta-below-non-query", "executor": name, "disable": dis})
                continue
            want = {"o": {"b": 1}} if dis else {"o": {"b": 1, "tn": "Ob"}}
            if data != want:
                ctx.fail("meta-field-below-non-query-type:answered", "expected %r, got %r" % (want, data),
                         {"check": "meta-below-non-query", "executor": name, "disable": dis})


def _defaults_report(ctx, sig, schema, detail, expect_errors=0):
    """standard query on `schema`; every declared default must be reported as text denoting it (no raise, no errors
    unless `expect_errors` field errors at defaultValue paths are the required outcome)"""
    for cfg in ("blocking", "generic"):
        ctx.count()
        ctx.nontrivial((sig, cfg))
        st, r = L.execute(schema, std_query(), cfg)
        if st != "ok":
            ctx.fail(sig + ":no-response:raises-%s" % r, "the standard introspection query raises %s" % r, dict(detail, config=cfg))
            continue
        errs = r.get("errors") or []
        if len(errs) != expect_errors or not all(json.dumps(e.get("path")).endswith('"defaultValue"]') for e in errs):
            ctx.fail(sig + ":field-errors", "%d field errors (expected %d at defaultValue paths): %s" % (len(errs), expect_errors, [e.get("message") for e in errs][:2]),
                     dict(detail, config=cfg))
            continue
        if expect_errors or not r.get("data"):
            continue
        sub = Ctx2(ctx)
        check_reports_schema(sub, schema, r["data"], detail)
        for f in sub.found:
            if f["kind"] == "property" and not f["signature"].startswith("default-not-graphql:string:control"):
                ctx.fail(sig + ":" + f["signature"], f["what"], dict(detail, config=cfg))


def oracle_hunt3(ctx):
    """Ledger I13-I17 (third hunt): default values whose wire form is not their Python form."""
    import base64
    import datetime
    from py_gql import build_schema
    from py_gql.schema import (Argument, EnumValue, Field, InputField, InputObjectType, Int, ListType, ObjectType, ScalarType,
                               Schema)
    from py_gql.sdl import SchemaDirective
    d0 = {"check": "hunt3"}
    # I13: a scalar whose serialized form differs from its (str) Python value, at top level / in lists / in objects
    b64 = ScalarType("Base64", serialize=lambda v: base64.b64encode(v.encode()).decode(), parse=lambda v: base64.b64decode(v).decode())
    inp = InputObjectType("B", [InputField("b", b64, default_value="in field")])
    _defaults_report(ctx, "default-serializing-scalar", Schema(ObjectType("Query", [Field("f", Int, [
        Argument("top", b64, default_value="hello"), Argument("list", ListType(b64), default_value=["hello", "x y"]),
        Argument("nested", ListType(ListType(b64)), default_value=[["hello"], []]), Argument("obj", inp, default_value={"b": "hello"})])])), d0)
    # I15: a dict at a list position is ONE item
    js = ScalarType("Json", serialize=lambda v: v, parse=lambda v: v, parse_literal=L.typed_parse_literal)
    pt = InputObjectType("Point", [InputField("x", Int), InputField("y", Int)])
    # (a Python default is the COERCED value: since 7cadcb0 `Schema.validate()` refuses a bare item under a list type, so
    #  the conforming spelling is a LIST holding the dict; the bare spelling is only followed when the schema validates)
    _defaults_report(ctx, "default-dict-at-list-position", Schema(ObjectType("Query", [Field("f", Int, [
        Argument("tags", ListType(js), default_value=[{"a": 1}]), Argument("path", ListType(pt), default_value=[{"x": 1, "y": 2}]),
        Argument("nested", ListType(ListType(pt)), default_value=[[{"x": 1}], []])])])), d0)
    from py_gql.exc import SchemaError
    bare = Schema(ObjectType("Query", [Field("f", Int, [
        Argument("tags", ListType(js), default_value={"a": 1}), Argument("path", ListType(pt), default_value={"x": 1, "y": 2}),
        Argument("single", ListType(b64), default_value="hello")])]))
    try:
        bare.validate()
    except SchemaError:
        ctx.stat("hunt3:bare-item-at-list-position:rejected-at-validation")
    except Exception as e:  # noqa
        ctx.stat("hunt3:bare-item-at-list-position:validate-raises-" + type(e).__name__)
    else:
        _defaults_report(ctx, "default-bare-item-at-list-position", bare, d0)
    # I15 through the utility itself: a mapping at a list position is one item, never the list of its keys
    from py_gql.lang import print_ast
    from py_gql.utilities import ast_node_from_value
    for t, v, want in ((ListType(js), {"a": 1}, "{a: 1}"), (ListType(pt), {"x": 1, "y": 2}, "{x: 1, y: 2}")):
        ctx.count()
        try:
            got = print_ast(ast_node_from_value(v, t))
        except Exception as e:  # noqa
            got = "raises " + type(e).__name__
        if got != want:
            ctx.fail("default-dict-at-list-position:utility:" + ("raises" if got.startswith("raises") else "iterates-keys"),
                     "ast_node_from_value(%r, %s) prints %r, expected %r (a mapping is one item)" % (v, t, got, want), d0)
    # I16: non-finite floats have no literal spelling: a field error, never `inf` / `nan` as text
    _defaults_report(ctx, "default-non-finite-float", Schema(ObjectType("Query", [Field("f", Int, [
        Argument("a", js, default_value=float("-inf")), Argument("b", js, default_value={"ratio": float("inf")}),
        Argument("c", js, default_value=[1, float("nan")])])])), d0, expect_errors=3)
    # I14: schema directives giving an enum its Python values / implementing a scalar (the library's @cssColor pattern)
    colors = {"RED": "#FF4136", "BLUE": "#0074D9", "GREEN": "#2ECC40"}

    class CSSColor(SchemaDirective):
        definition = "cssColor"

        def on_enum_value(self, ev):
            return EnumValue(ev.name, colors[ev.name], description=ev.description, deprecation_reason=ev.deprecation_reason)

    class SwapColor(SchemaDirective):
        definition = "cssColor"

        def on_enum_value(self, ev):
            return EnumValue(ev.name, {"RED": "BLUE", "BLUE": "RED", "GREEN": "GREEN"}[ev.name])

    class DateScalar(SchemaDirective):
        definition = "date"

        def on_scalar(self, sc):
            return ScalarType(sc.name, serialize=lambda v: v.isoformat(), parse=datetime.date.fromisoformat)
    sdl = ("directive @cssColor on ENUM_VALUE\ndirective @date on SCALAR\nscalar Date @date\n"
           "enum Color { RED @cssColor BLUE @cssColor GREEN @cssColor }\ninput In { c: Color = BLUE, d: Date = \"2020-01-02\" }\n"
           "type Query { color(c: Color = RED, l: [Color] = [BLUE], i: In = {c: GREEN}, days: [Date] = [\"2020-01-02\"]): String }")
    for name, dirs in (("enum-values", (CSSColor, DateScalar)), ("enum-values-swapped", (SwapColor, DateScalar))):
        try:
            schema = build_schema(sdl, schema_directives=dirs)
        except Exception as e:  # noqa
            ctx.stat("hunt3:schema-directive-%s:not-buildable-%s" % (name, type(e).__name__))
            continue
        _defaults_report(ctx, "default-after-schema-directive:" + name, schema, d0)


def oracle_hunt3_findings(ctx):
    """Ledger I18-I21 (third hunt, recorded as known findings; the check keeps asking)."""
    from py_gql import build_schema
    from py_gql.schema import ObjectType, SchemaVisitor
    from py_gql.schema.transforms import transform_schema
    d0 = {"check": "hunt3-findings"}

    def ask(schema, q):
        st, r = L.execute(schema, q, "blocking")
        ctx.count()
        return (r.get("data") if st == "ok" and not r.get("errors") else None)

    # I18: deprecation_reason assigned after construction (documented public attribute)
    class Sunset(SchemaVisitor):
        def on_field(self, f):
            if f.name == "old":
                f.deprecation_reason = "use new"
            return f

        def on_enum_value(self, v):
            if v.name == "OLD":
                v.deprecation_reason = "use NEW"
            return v
    try:
        s = transform_schema(build_schema("enum E { OLD NEW } type Query { old: Int new: Int e: E }"), Sunset())
        d = ask(s, '{ q: __type(name: "Query") { fields { name } all: fields(includeDeprecated: true) { name isDeprecated } } '
                   'e: __type(name: "E") { enumValues { name } all: enumValues(includeDeprecated: true) { name isDeprecated } } }')
        if d:
            for what, key, vis, allm in (("field", "old", d["q"]["fields"], d["q"]["all"]), ("enum-value", "OLD", d["e"]["enumValues"], d["e"]["all"])):
                ctx.nontrivial(("reason-assigned-later", what))
                flag = [x["isDeprecated"] for x in allm if x["name"] == key]
                if flag != [True] or key in [x["name"] for x in vis]:
                    ctx.fail("deprecated-flag:reason-assigned-later:" + what, "a %s whose deprecation_reason was assigned after construction is reported with isDeprecated %s and is %s by default"
                             % (what, flag, "listed" if key in [x["name"] for x in vis] else "hidden"), dict(d0, member=what))
    except Exception as e:  # noqa
        ctx.stat("hunt3-findings:I18:" + type(e).__name__)

    # I19: possibleTypes vs interfaces after an in-place `interfaces` assignment
    class Detach(SchemaVisitor):
        def on_object(self, t):
            t = super().on_object(t)
            if t is not None and t.name == "A":
                t.interfaces = []
            return t
    try:
        s = transform_schema(build_schema("interface I { x: Int } type A implements I { x: Int } type B implements I { x: Int } type Query { i: I a: A }"), Detach())
        d = ask(s, '{ a: __type(name: "A") { interfaces { name } } i: __type(name: "I") { possibleTypes { name } } }')
        if d:
            ctx.nontrivial("possible-types-vs-interfaces")
            if d["a"]["interfaces"] == [] and "A" in [x["name"] for x in d["i"]["possibleTypes"]]:
                ctx.fail("possible-types-stale:interfaces-assigned-in-place", "A.interfaces is [] but I.possibleTypes still lists A", d0)
    except Exception as e:  # noqa
        ctx.stat("hunt3-findings:I19:" + type(e).__name__)

    # I20: a type renamed by a visitor answers __type(name:) under the OLD name only
    class Prefix(SchemaVisitor):
        def on_object(self, t):
            t = super().on_object(t)
            if t is not None and t.name == "A":
                return ObjectType("Shop_A", list(t.fields), description=t.description)
            return t
    try:
        s = transform_schema(build_schema("type Query { a: A } type A { x: Int }"), Prefix())
        d = ask(s, '{ new: __type(name: "Shop_A") { name } old: __type(name: "A") { name } __schema { types { name } } }')
        if d:
            ctx.nontrivial("renamed-type")
            listed = [t["name"] for t in d["__schema"]["types"]]
            if "Shop_A" in listed and (d["new"] is None or d["old"] is not None):
                ctx.fail("type-query-renamed-type:answers-under-old-name", "Shop_A is listed, but __type(name: \"Shop_A\") = %r and __type(name: \"A\") = %r" % (d["new"], d["old"]), d0)
    except Exception as e:  # noqa
        ctx.stat("hunt3-findings:I20:" + type(e).__name__)

    # I21: the standard query's TypeRef fragment has 8 levels (theorem typeRef_truncates_beyond_query_depth)
    try:
        s = build_schema("type Query { t: [[[[Int!]!]!]!] }")
        d = ask(s, std_query())
        if d:
            ctx.nontrivial("depth-8")
            t = [f for ty in d["__schema"]["types"] if ty["name"] == "Query" for f in ty["fields"]][0]["type"]
            if L.ty_of_ref(t) is None:
                ctx.fail("type-ref-truncated-by-standard-query:8-wrappers", "a field type with 8 wrappers is reported without its named type (the query stops after 7 ofType links)", d0)
    except Exception as e:  # noqa
        ctx.stat("hunt3-findings:I21:" + type(e).__name__)


def oracle_directive_locations(ctx):
    """Ledger I5. Every directive location the PARSER accepts in a directive definition (and `Directive(...)`
    accepts in code) must be introspectable: `__schema { directives { locations } }` reports it, nothing raises."""
    from py_gql import build_schema
    from py_gql.lang.parser import DIRECTIVE_LOCATIONS
    from py_gql.schema import Directive, Field, Int, ObjectType, Schema
    ok_locs = []
    for loc in DIRECTIVE_LOCATIONS:
        for how in ("sdl", "code"):
            ctx.count()
            try:
                schema = (build_schema("type Query { a: Int } directive @v on %s" % loc) if how == "sdl"
                          else Schema(ObjectType("Query", [Field("a", Int)]), directives=[Directive("v", [loc])]))
            except Exception as e:  # noqa
                ctx.stat("directive-location:%s:not-buildable-%s" % (how, type(e).__name__))
                continue
            bad = None
            for cfg in ("blocking", "generic"):
                st, r = L.execute(schema, "{ __schema { directives { name locations } } }", cfg)
                if st != "ok":
                    bad = "raises %s" % r
                elif r.get("errors") or [x["locations"] for x in (r.get("data") or {}).get("__schema", {}).get("directives", []) if x["name"] == "v"] != [[loc]]:
                    bad = "answers %s" % str(r)[:200]
            ctx.nontrivial(("directive-location", loc, how))
            if bad:
                ctx.fail("directive-location-not-introspectable:" + loc,
                         "a directive defined `on %s` (accepted by the parser / Directive()) makes introspection of the directives fail: %s" % (loc, bad),
                         {"check": "directive-locations", "location": loc, "how": how})
            elif how == "sdl":
                ok_locs.append(loc)
    # all introspectable locations at once, through the standard query and the full oracle
    if ok_locs:
        case = {"mode": "sdl-text", "sdl": "type Query { a: Int }\ndirective @everywhere(x: Int = 1) on %s" % " | ".join(ok_locs)}
        schema, case = load_case(case)
        oracle_schema(ctx, "all-locations", schema, case, ["blocking", "generic"], None)


NUMERIC_STRINGS_DIRECT = L.NUMERIC_LOOKING + ["42.42", "-0", "1e+20", "2147483648", "7", "0", "1.5", "-2.25e-07", "1e400"]


def oracle_numeric_strings(ctx):
    """Ledger I4 (= C12's H3). STRING defaults of a custom scalar that look numeric — at top level, in a list, nested,
    inside an input object — must be reported as text denoting the declared string (whether as a string or, where
    the library prints numbers on purpose, as a number literal whose text IS the string)."""
    from py_gql import build_schema
    for x in NUMERIC_STRINGS_DIRECT:
        lit = json.dumps(x)
        sdl = ("scalar Code\ninput I { c: Code = %s, l: [Code!] = [%s] }\n"
               "type Query { f(top: Code = %s, list: [Code] = [%s, \"plain\"], nested: [[Code]] = [[%s]], obj: I = {c: %s, l: [%s]}): Int }"
               % (lit, lit, lit, lit, lit, lit, lit))
        try:
            schema = build_schema(sdl)
        except Exception as e:  # noqa
            ctx.stat("numeric-string:not-buildable-" + type(e).__name__)
            continue
        st, r = L.execute(schema, std_query(), "blocking")
        ctx.count()
        if st != "ok" or r.get("errors"):
            ctx.fail("introspection-raises:%s" % (r if st != "ok" else "errors"), "the standard introspection query fails",
                     {"check": "numeric-strings", "value": x})
            continue
        dec = L.decode_introspection(r["data"])
        texts = {}
        for t in dec["types"]:
            for f in t["fields"]:
                for a in f["args"]:
                    texts["%s.%s(%s)" % (t["name"], f["name"], a["name"])] = a["default_text"]
            for a in t["input_fields"]:
                texts["%s.%s" % (t["name"], a["name"])] = a["default_text"]
        for where, iv in L.iter_defaults(schema):
            if where.startswith("__") or where.startswith("@") or not iv.has_default_value:
                continue
            ctx.count()
            ctx.nontrivial(("numeric-string", x, where))
            ok, reason = L.default_roundtrips(texts.get(where), iv.type, iv.default_value)
            if not ok:
                pos = "top" if where.endswith("(top)") or where == "I.c" else ("object" if where.endswith("(obj)") else "list")
                ctx.fail("default-not-graphql:custom-scalar-numeric-string:%s:%s" % (pos, reason),
                         "custom scalar default %r (declared %r) is reported as %r, which does not denote it (%s)"
                         % (x, iv.default_value, texts.get(where), reason),
                         {"check": "numeric-strings", "value": x, "where": where, "reported": texts.get(where)})


def oracle_grammar_witnesses(ctx):
    """The instances behind Props/C15_grammar.lean on the REAL code (audit 2, finding 3): the code-first twin of the Lean
    `witnessSchema` (enum E {A = "A", B = 1}, input I {a: Int, e: [E]}) and of `witnessSchemaJ` (`default_scalar("J")`).
    For each (type, declared default): the reported text is EXACTLY the text of the Lean theorem, the real `parse_value` accepts
    it, and the real `value_from_ast` gives back the declared default (`default_value_roundtrip_instances_partial`,
    `default_value_roundtrip_stand_in_non_number`) - except a NUMBER default at the stand-in scalar, which reads back as its
    source text (`default_value_roundtrip_refuted_custom_scalar`; C07's finding A10 seen from introspection: known finding I22).
    Also: the two texts `readLit` accepts and the grammar refuses ARE refused by the real parser (`readLit_laxer_than_grammar`)."""
    from py_gql.exc import GraphQLSyntaxError
    from py_gql.lang import parse_value
    from py_gql.schema import EnumType, EnumValue, ID, InputField, InputObjectType, Int, ListType, String
    from py_gql.schema.scalars import default_scalar
    from py_gql.utilities import value_from_ast
    E = EnumType("E", [EnumValue("A", "A"), EnumValue("B", 1)])
    I = InputObjectType("I", [InputField("a", Int), InputField("e", ListType(E))])
    Jt = default_scalar("J")
    rows = [("Int", Int, 3, "3"), ("E", E, 1, "B"), ("[E]", ListType(E), [1, "A"], "[B, A]"),
            ("I", I, {"a": 3, "e": [1]}, "{a: 3, e: [B]}"), ("String", String, "x\ny", '"x\\ny"'), ("ID", ID, "7", '"7"'),
            ("I:null", I, None, "null"),
            ("J:str", Jt, "s", '"s"'), ("J:bool", Jt, True, "true"), ("J:list", Jt, [True, "k"], '[true, "k"]'), ("J:null", Jt, None, "null"),
            ("J:number", Jt, 5, "5")]
    for name, t, dv, lean_text in rows:
        ctx.count()
        ctx.nontrivial(("grammar-witness", name))
        st, text = L.reported_default(t, dv)
        if st != "ok" or text != lean_text:
            ctx.fail("corr:grammar-witness:reported-text:" + name, "the reported default text differs from the text of the Lean instance",
                     {"check": "grammar-witnesses", "instance": name, "impl": [st, text], "model": lean_text}, kind="correspondence")
            continue
        try:
            back = value_from_ast(parse_value(text), t)
        except GraphQLSyntaxError:
            ctx.fail("default-not-graphql:grammar-witness:" + name, "the reported default is refused by parse_value",
                     {"check": "grammar-witnesses", "instance": name, "reported": text})
            continue
        same = L.same_value(back, dv) and type(back) is type(dv)
        ctx.stat("grammar-witness:%s:%s" % (name, "reads-back" if same else "differs"))
        if not same:
            ctx.fail("default-not-declared:stand-in-scalar:number-reads-back-as-text" if name == "J:number" else "default-not-declared:grammar-witness:" + name,
                     "declared default %r is reported as %r, which reads back (parse_value + value_from_ast) as %r" % (dv, text, back),
                     {"check": "grammar-witnesses", "instance": name, "reported": text, "declared": repr(dv), "read_back": repr(back)})
    for text in ("1.e+-", "{a:1.}"):
        ctx.count()
        try:
            parse_value(text)
            ctx.fail("corr:grammar-witness:lax-text-accepted", "a text the lexer model refuses is accepted by parse_value",
                     {"check": "grammar-witnesses", "text": text}, kind="correspondence")
        except GraphQLSyntaxError:
            ctx.stat("grammar-witness:lax-text-refused")


EQ_COLLIDING = [("i1", 1), ("t", True), ("f1", 1.0), ("i0", 0), ("fa", False), ("f0", 0.0)]


def _typed_json_scalar(name):
    """a JSON-like custom scalar that keeps the Python type of numbers and booleans in both directions"""
    from py_gql.lang import ast as _ast
    from py_gql.schema import ScalarType

    def parse_literal(node, variables=None):
        if isinstance(node, _ast.BooleanValue):
            return bool(node.value)
        if isinstance(node, _ast.IntValue):
            return int(node.value)
        if isinstance(node, _ast.FloatValue):
            return float(node.value)
        if isinstance(node, _ast.StringValue):
            return str(node.value)
        if isinstance(node, _ast.NullValue):
            return None
        raise TypeError("unsupported literal")
    return ScalarType(name, serialize=lambda v: v, parse=lambda v: v, parse_literal=parse_literal)


def _strict_same(a, b):
    """TYPE-strict equality: 1, True and 1.0 are three different declared defaults"""
    return type(a) is type(b) and a == b


def oracle_eq_colliding_defaults(ctx):
    """DETERMINISTIC class `eq-colliding`: declared defaults / enum internal values that collide under Python `==` and `hash`
    but differ in type (1, True, 1.0 / 0, False, 0.0), SEVERAL of them on ONE type object (a JSON-like custom scalar; an enum
    whose members are backed by them), as field arguments, input fields and directive arguments; two schemas sharing the type
    objects declare them in opposite orders and are introspected one after the other in this process, then the first again.
    Oracle: every reported defaultValue parses back (parse_value + value_from_ast) to the declared default, TYPE-strictly."""
    from py_gql.lang import parse_value
    from py_gql.schema import Argument, Directive, EnumType, Field, InputField, InputObjectType, Int, ObjectType, Schema
    from py_gql.utilities import value_from_ast
    J = _typed_json_scalar("JSONish")
    E = EnumType("Backed", [("ONE", 1), ("YES", True), ("FONE", 1.0), ("ZERO", 0), ("NO", False), ("FZERO", 0.0)])

    def mk(order, tag):
        vals = list(EQ_COLLIDING) if order == "fwd" else list(reversed(EQ_COLLIDING))
        args = [Argument("j_" + n, J, default_value=v) for n, v in vals] + [Argument("e_" + n, E, default_value=v) for n, v in vals]
        inp = InputObjectType("In" + tag, [InputField("j_" + n, J, default_value=v) for n, v in vals]
                              + [InputField("e_" + n, E, default_value=v) for n, v in vals])
        d = Directive("d" + tag, ["FIELD"], args=[Argument("j_" + n, J, default_value=v) for n, v in vals[:3]]
                      + [Argument("e_" + n, E, default_value=v) for n, v in vals[3:]])
        q = ObjectType("Query", [Field("f", Int, args=args), Field("g", Int, args=[Argument("i", inp)])])
        sch = Schema(q, directives=[d])
        sch.validate()
        return sch
    try:
        schemas = [("fwd", mk("fwd", "F")), ("rev", mk("rev", "R"))]
    except Exception as e:  # noqa
        ctx.stat("eq-colliding:not-buildable-" + type(e).__name__)
        return
    for round_, (order, schema) in enumerate(schemas + schemas[:1]):
        for cfg in ("blocking", "generic"):
            ctx.count()
            st, r = L.execute(schema, std_query(), cfg)
            if st != "ok" or r.get("errors"):
                ctx.fail("introspection-raises:%s" % (r if st != "ok" else "errors"), "the standard introspection query fails",
                         {"check": "eq-colliding", "order": order, "config": cfg})
                continue
            dec = L.decode_introspection(r["data"])
            texts = {}
            for t in dec["types"]:
                for f in t["fields"]:
                    for a in f["args"]:
                        texts["%s.%s(%s)" % (t["name"], f["name"], a["name"])] = a["default_text"]
                for a in t["input_fields"]:
                    texts["%s.%s" % (t["name"], a["name"])] = a["default_text"]
            for d in dec["directives"]:
                for a in d["args"]:
                    texts["@%s(%s)" % (d["name"], a["name"])] = a["default_text"]
            for where, iv in L.iter_defaults(schema):
                if where.startswith("__") or not iv.has_default_value or iv.type not in (J, E):
                    continue
                ctx.count()
                ctx.nontrivial(("eq-colliding", order, round_, cfg, where))
                text = texts.get(where)
                try:
                    back = value_from_ast(parse_value(text), iv.type)
                    ok = _strict_same(back, iv.default_value)
                except Exception as e:  # noqa
                    back, ok = "raises %s" % type(e).__name__, False
                if not ok:
                    kind = "enum" if iv.type is E else "custom-scalar"
                    ctx.fail("default-denotes-other-value:eq-colliding:%s:%s-reported-as-%s" % (kind, type(iv.default_value).__name__, type(back).__name__),
                             "declared default %r of %s is reported as %r, which parses back to %r (a different value: == but not the same type)"
                             % (iv.default_value, where, text, back),
                             {"check": "eq-colliding", "order": order, "round": round_, "config": cfg, "where": where, "reported": text})


def oracle_derived_defaults(ctx):
    """Named probes (no randomness): defaults of schemas DERIVED by transform_schema - "each reported default value is GraphQL syntax that
    parses back to the declared default" and "the standard introspection query returns ..." (a response).
      T14  VisibilitySchemaTransform hid the input field `secret`: the reported default `{a: 7}` must read back to the default the argument
           declares (= what `{ f }` hands to the resolver): today {'a': 7, 'secret': 9} (C14's finding, seen through introspection);
      A12  `scalar Date` implemented by a plain SchemaVisitor: the standard query must answer, and every reported default must read back
           (through the scalar's own parser) to the declared default."""
    import datetime
    from py_gql import build_schema, graphql_blocking
    from py_gql.lang import parse_value
    from py_gql.schema import ScalarType, SchemaVisitor
    from py_gql.schema.transforms import VisibilitySchemaTransform, transform_schema
    from py_gql.utilities import value_from_ast
    d0 = {"check": "derived-defaults"}

    class HideSecret(VisibilitySchemaTransform):
        def is_input_field_visible(self, typename, fieldname):
            return fieldname != "secret"

    class ImplementDate(SchemaVisitor):
        def on_scalar(self, scalar):
            if scalar.name == "Date":
                return ScalarType("Date", serialize=lambda d: d.isoformat(), parse=lambda x: datetime.date.fromisoformat(x))
            return scalar

    probes = [
        ("hidden-input-field", "default-not-declared:hidden-input-field", HideSecret(),
         "input In { a: Int = 1 secret: Int = 2 } input Outer { inner: In = {a: 3} } "
         "type Query { f(i: In = {a: 7, secret: 9}, o: Outer = {}, l: [In!] = [{secret: 1}]): String }"),
        ("visitor-implemented-scalar", "default-not-declared:scalar-implemented-by-visitor", ImplementDate(),
         'scalar Date input Range { start: Date = "2020-01-01" } type Query { f(day: Date = "2020-01-02", days: [Date] = ["2020-01-03"], r: Range = {}): Int }'),
    ]
    for name, sig, visitor, sdl in probes:
        try:
            schema = transform_schema(build_schema(sdl), visitor)
        except Exception as e:  # noqa
            ctx.stat("derived-defaults:%s:refused:%s" % (name, type(e).__name__))
            continue
        ctx.count()
        ctx.nontrivial(("derived-defaults", name))
        try:
            res = graphql_blocking(schema, std_query())
            data = res.response().get("data") if not res.errors else None
            err = None if data else "errors: %s" % [str(e)[:80] for e in (res.errors or [])]
        except Exception as e:  # noqa
            data, err = None, "%s: %s" % (type(e).__name__, str(e)[:120])
        if data is None:
            ctx.fail("introspection-raises:" + name, "the standard introspection query on a schema derived by transform_schema gives no answer (%s)" % err,
                     dict(d0, probe=name, sdl=sdl))
            continue
        types = {t["name"]: t for t in data["__schema"]["types"]}
        field = schema.types["Query"].field_map["f"]
        bad = []
        for arg in types["Query"]["fields"][0]["args"]:
            a = field.argument_map[arg["name"]]
            try:
                back = value_from_ast(parse_value(arg["defaultValue"]), a.type)
            except Exception as e:  # noqa
                back = "<%s>" % type(e).__name__
            if back != a.default_value:
                bad.append((arg["name"], arg["defaultValue"], repr(back), repr(a.default_value)))
        ctx.stat("derived-defaults:%s:%s" % (name, "differs" if bad else "reads-back"))
        if bad:
            ctx.fail(sig + ":" + "+".join(b[0] for b in bad),
                     "after transform_schema the reported defaults do not read back to the declared ones (argument, reported, read back, declared): %s" % bad,
                     dict(d0, probe=name, sdl=sdl))


def run(ctx):
    try:
        oracle_eq_colliding_defaults(ctx)
        oracle_empty_reason(ctx)
        oracle_null_reason(ctx)
        oracle_hunt3(ctx)
        oracle_hunt3_findings(ctx)
        oracle_meta_below_non_query(ctx)
        oracle_inexpressible_defaults(ctx)
        oracle_directive_locations(ctx)
        oracle_numeric_strings(ctx)
        oracle_derived_defaults(ctx)
        oracle_grammar_witnesses(ctx)
        _run(ctx)
    finally:
        L.shutdown()


def _run(ctx):
    from corr import C15_model
    i = 0
    for label, schema, case in cases(ctx):
        cfgs = configs_for(ctx, i)
        i += 1
        ctx.stat("schemas:" + label.split(":")[0] + ":" + case["mode"])
        try:
            schema.validate()
        except Exception as e:  # noqa
            ctx.notes.append("generated schema invalid (%s): skipped %r" % (type(e).__name__, case))
            continue
        base = oracle_schema(ctx, label, schema, case, cfgs, None)
        if case["mode"] == "code-sub" and base is not None:
            oracle_subclass_twin(ctx, case, base)
        if base is not None:
            # history independence: the same schema OBJECT answers the same at the end of the run
            ctx.later("introspect", lambda s=schema: L.execute(s, std_query(), "blocking")[1].get("data"), base, {"case": case})
        if case["mode"] in ("sdl", "code") and "seed" in case and base is not None:
            from corr import C15_history
            import sys
            ctx.extra["histories"] = ctx.extra.get("histories", 0) + 1
            C15_history.run(ctx, sys.modules[__name__], case, ctx.extra["histories"])
        if i <= 3:
            ctx.sample({"case": case, "types": sorted(schema.types)[:12]})
        if ctx.model_ok and base is not None:
            C15_model.correspond(ctx, schema, case, base, cfgs)
    ctx.extra["schemas"] = i


def replay(ctx, data):
    inp = data.get("input", {})
    if inp.get("check") == "history":
        from corr import C15_history
        import sys
        sub = Ctx2(ctx)
        C15_history.one_history(sub, sys.modules[__name__], inp["case"], inp["kind"], inp["hseed"])
        return not any(f["signature"] == data.get("signature") for f in sub.found)
    if inp.get("check") == "eq-colliding":
        sub = Ctx2(ctx)
        oracle_eq_colliding_defaults(sub)
        return not any(f["signature"] == data.get("signature") for f in sub.found)
    if inp.get("check") in ("directive-locations", "numeric-strings", "null-reason", "inexpressible-defaults", "meta-below-non-query", "hunt3", "hunt3-findings",
                            "derived-defaults", "grammar-witnesses"):
        sub = Ctx2(ctx)
        {"directive-locations": oracle_directive_locations, "grammar-witnesses": oracle_grammar_witnesses, "numeric-strings": oracle_numeric_strings, "derived-defaults": oracle_derived_defaults,
         "null-reason": oracle_null_reason, "inexpressible-defaults": oracle_inexpressible_defaults,
         "meta-below-non-query": oracle_meta_below_non_query, "hunt3": oracle_hunt3, "hunt3-findings": oracle_hunt3_findings}[inp["check"]](sub)
        return not any(f["signature"] == data.get("signature") for f in sub.found)
    if inp.get("check") == "empty-reason":
        sub = Ctx2(ctx)
        oracle_empty_reason(sub)
        return not any(f["signature"] == data.get("signature") for f in sub.found)
    case = inp.get("case")
    if not case:
        return True
    schema, case = load_case(case)
    sub = Ctx2(ctx)
    oracle_schema(sub, "replay", schema, case, [inp.get("config") or "blocking", "generic"], None)
    sig = data.get("signature")
    fails = [f for f in sub.found if f["kind"] == "property"]
    if sig:
        return not any(f["signature"] == sig for f in fails)
    return not fails


class Ctx2:
    """A recording context for replays (same interface as Ctx for what the oracle uses)."""

    def __init__(self, ctx):
        self.found = []
        self.tier = ctx.tier
        self.model_ok = False
        self.notes = []
        self.extra = {}

    def count(self, k=1):
        pass

    def stat(self, *a, **k):
        pass

    def nontrivial(self, *a):
        pass

    def sample(self, *a, **k):
        pass

    def fail(self, signature, what, detail, kind="property"):
        self.found.append({"signature": signature, "what": what, "detail": detail, "kind": kind})

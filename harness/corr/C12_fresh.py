# -*- coding: utf-8 -*-
"""
Fresh-process reference for C12 histories.

Run as a script it is a ZYGOTE: a process that has imported py_gql but never serialised anything. For every
request line `{"schemas": [source...], "history": [[index, opts]...]}` it FORKS a child; the child rebuilds the
schemas from their sources, performs the `to_string` calls of the history in order and returns the outputs.
A one-call history is therefore exactly "what this call returns as the first call of a fresh process",
whatever process-wide state the printer keeps (module globals, caches on helper functions, …).
"""
import json
import os
import subprocess
import sys

HERE = os.path.dirname(os.path.abspath(__file__))


def _serve():
    sys.path.insert(0, os.path.dirname(HERE))
    import common
    common.ensure_repo_on_path()
    from corr import C12
    import py_gql  # noqa
    import py_gql.sdl  # noqa
    import py_gql.utilities  # noqa
    out = sys.stdout
    for line in sys.stdin:
        req = json.loads(line)
        r, w = os.pipe()
        pid = os.fork()
        if pid == 0:
            try:
                os.close(r)
                try:
                    schemas = C12.rebuild_cases(req["schemas"])
                    res = [list(C12.call(schemas[i], o)) for i, o in req["history"]]
                except BaseException as e:  # noqa
                    res = {"error": "%s: %s" % (type(e).__name__, e)}
                data = json.dumps(res).encode("utf-8", "surrogatepass")
                while data:
                    n = os.write(w, data)
                    data = data[n:]
            finally:
                os._exit(0)
        os.close(w)
        chunks = []
        while True:
            b = os.read(r, 1 << 16)
            if not b:
                break
            chunks.append(b)
        os.close(r)
        os.waitpid(pid, 0)
        out.write(b"".join(chunks).decode("utf-8", "surrogatepass") + "\n")
        out.flush()


class Zygote:
    _inst = None

    @classmethod
    def get(cls):
        if cls._inst is None:
            cls._inst = cls()
        return cls._inst if cls._inst.ok else None

    def __init__(self):
        self.ok = hasattr(os, "fork")
        self.p = None
        if self.ok:
            try:
                self.p = subprocess.Popen([sys.executable, os.path.abspath(__file__)], stdin=subprocess.PIPE, stdout=subprocess.PIPE,
                                          env=dict(os.environ, PYTHONIOENCODING="utf-8:surrogatepass"))
            except Exception:  # noqa
                self.ok = False

    def history(self, sources, hist):
        """Outputs ([('ok', text) | ('exc', cls)]) of the calls `hist` made in order in ONE fresh process."""
        req = json.dumps({"schemas": sources, "history": [[i, o] for i, o in hist]})
        self.p.stdin.write((req + "\n").encode("utf-8"))
        self.p.stdin.flush()
        line = self.p.stdout.readline()
        if not line:
            self.ok = False
            raise RuntimeError("fresh-process helper died")
        res = json.loads(line.decode("utf-8", "surrogatepass"))
        if isinstance(res, dict):
            raise RuntimeError("fresh-process helper: " + res["error"])
        return [tuple(x) for x in res]

    def close(self):
        if self.p is not None:
            try:
                self.p.stdin.close()
                self.p.wait(timeout=5)
            except Exception:  # noqa
                self.p.kill()
        type(self)._inst = None


if __name__ == "__main__":
    _serve()

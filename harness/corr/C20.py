# -*- coding: utf-8 -*-
"""
C20 — schema diffing: safe type-change predicates (translated from source),
severity table (extracted), and the direct oracle on real schema pairs.
"""
import ast
import itertools
import json

from common import REPO
import py2lean
from corr import C20_schemas

PROPERTY = "C20"
RULE = ("type pairs: ALL pairs of type expressions over two names with <=3 wrappers (exhaustive); "
        "schema pairs: generated SDL schema + one elementary edit; non-trivial = distinct (old,new) pair whose "
        "types differ / distinct (edit kind, element kind) with a reported change")
ASSUMPTIONS = [
    "Ty.inner/Ty.name totalise Python attribute errors; exceptions of the real predicates are compared by the correspondence on all small pairs",
    "the Lean model diffs BY-NAME DESCRIPTIONS of the two schemas: memos / snapshots that live schema objects keep (field_map, argument_map, ...) do not "
    "exist in it, so nothing changes on the Lean side for edits made on live objects; that `diff_schema` reads the CURRENT attributes is checked by the "
    "direct oracle only: class `live-object` (C20_schemas.live_object_stage: directive.arguments, field.arguments, type.fields, union.types, "
    "object.interfaces, input_type.fields edited through the public attributes after construction, fresh and after a first diff + validate, against a "
    "schema built in the edited form) and the history cases",
]
GENERATED_FILES = ["PyGqlModel/Generated/Differ.lean"]
TRUSTED = ["py2lean.py mini-translator (Python ast -> Lean step functionals) for _is_safe_input_type_change/_is_safe_output_type_change"]

DIFFER = REPO / "src/py_gql/schema/differ/__init__.py"
CHANGES = REPO / "src/py_gql/schema/differ/changes.py"


def severity_table():
    """[(class name, severity or None if computed in __init__ from `required`)] from the source text."""
    tree = ast.parse(CHANGES.read_text())
    sev_values = {}
    rows = []
    for n in tree.body:
        if isinstance(n, ast.ClassDef) and n.name == "SchemaChangeSeverity":
            for s in n.body:
                if isinstance(s, ast.Assign) and isinstance(s.value, ast.Constant):
                    sev_values[s.targets[0].id] = s.value.value
    # module-level severity helpers of the shape
    #   def h(old, new): if new.required and not old.required: return S.X \n return S.Y
    # (the element BECOMES required: its default value was removed) -> (X when it becomes required, Y otherwise)
    helpers = {}
    for n in tree.body:
        if isinstance(n, ast.FunctionDef) and n.name.endswith("_severity"):
            b = [x for x in n.body if not (isinstance(x, ast.Expr) and isinstance(x.value, ast.Constant))]
            ok = (len(n.args.args) == 2 and len(b) == 2 and isinstance(b[0], ast.If) and isinstance(b[1], ast.Return)
                  and isinstance(b[0].test, ast.BoolOp) and isinstance(b[0].test.op, ast.And) and len(b[0].test.values) == 2
                  and len(b[0].body) == 1 and isinstance(b[0].body[0], ast.Return) and not b[0].orelse)
            if ok:
                o_name, n_name = n.args.args[0].arg, n.args.args[1].arg
                t1, t2 = b[0].test.values
                ok = (isinstance(t1, ast.Attribute) and t1.attr == "required" and getattr(t1.value, "id", None) == n_name
                      and isinstance(t2, ast.UnaryOp) and isinstance(t2.op, ast.Not) and isinstance(t2.operand, ast.Attribute)
                      and t2.operand.attr == "required" and getattr(t2.operand.value, "id", None) == o_name)
            if not ok:
                raise py2lean.Untranslatable("severity helper %s is not `if new.required and not old.required: return X; return Y`" % n.name)
            helpers[n.name] = (sev_values[b[0].body[0].value.attr], sev_values[b[1].value.attr])
    for n in tree.body:
        if isinstance(n, ast.ClassDef) and any(isinstance(b, ast.Name) and b.id == "SchemaChange" for b in n.bases):
            static = None
            dynamic = None
            for s in n.body:
                if isinstance(s, ast.Assign) and getattr(s.targets[0], "id", None) == "severity":
                    static = sev_values[s.value.attr]
                if isinstance(s, ast.FunctionDef) and s.name == "__init__":
                    for a in ast.walk(s):
                        if (isinstance(a, ast.Assign) and isinstance(a.targets[0], ast.Attribute)
                                and a.targets[0].attr == "severity"):
                            v = a.value
                            if isinstance(v, ast.Call) and isinstance(v.func, ast.Name) and v.func.id in helpers:
                                # `self.severity = _default_change_severity(old, new)`: BREAKING when the element BECOMES required
                                dynamic = helpers[v.func.id]
                                continue
                            if not (isinstance(v, ast.IfExp) and isinstance(v.test, ast.Attribute) and v.test.attr == "required"):
                                raise py2lean.Untranslatable("dynamic severity of %s is not `X if <arg>.required else Y`" % n.name)
                            dynamic = (sev_values[v.body.attr], sev_values[v.orelse.attr])
            rows.append((n.name, static, dynamic))
    return sev_values, rows


def compatible_severity(src, sev_values):
    """`def _compatible(change): change.severity = SchemaChangeSeverity.X; return change`, applied to the
    `*ChangedType` instances of safe retypings (where it is applied is modelled by hand in Diff.lean and tied
    by the correspondence). None when the module has no such helper or never calls it."""
    tree = ast.parse(src)
    fn = [n for n in tree.body if isinstance(n, ast.FunctionDef) and n.name == "_compatible"]
    calls = [n for n in ast.walk(tree) if isinstance(n, ast.Call) and getattr(n.func, "id", None) == "_compatible"]
    if not fn or not calls:
        return None
    b = [x for x in fn[0].body if not (isinstance(x, ast.Expr) and isinstance(x.value, ast.Constant))]
    ok = (len(fn[0].args.args) == 1 and len(b) == 2 and isinstance(b[0], ast.Assign) and isinstance(b[1], ast.Return)
          and isinstance(b[0].targets[0], ast.Attribute) and b[0].targets[0].attr == "severity"
          and getattr(b[0].targets[0].value, "id", None) == fn[0].args.args[0].arg
          and isinstance(b[0].value, ast.Attribute) and b[0].value.attr in sev_values
          and isinstance(b[1].value, ast.Name) and b[1].value.id == fn[0].args.args[0].arg)
    if not ok:
        raise py2lean.Untranslatable("_compatible is not `change.severity = SchemaChangeSeverity.X; return change`")
    return sev_values[b[0].value.attr]


def extract(ctx):
    src = DIFFER.read_text()
    rec = {"_is_safe_input_type_change": "recIn", "_is_safe_output_type_change": "recOut"}
    sin, _ = py2lean.translate_step(src, "_is_safe_input_type_change", "safeInStep", rec)
    sout, _ = py2lean.translate_step(src, "_is_safe_output_type_change", "safeOutStep", rec)
    sev, rows = severity_table()
    lines = [py2lean.header("src/py_gql/schema/differ/__init__.py and changes.py"),
             "import PyGqlModel.Ty", "set_option linter.unusedVariables false", "namespace PyGql.Generated.Differ", "open PyGql", "", sin, sout]
    lines.append("/-- severity levels as in `SchemaChangeSeverity` -/")
    for k, v in sorted(sev.items(), key=lambda kv: kv[1]):
        lines.append("def sev%s : Nat := %d" % (k.capitalize(), v))
    lines.append("")
    lines.append("/-- (change class, severity when the added element is optional / static, severity when it is required) -/")
    lines.append("def severityTable : List (String × Nat × Nat) := [")
    body = []
    for name, static, dynamic in rows:
        if dynamic:
            body.append('  ("%s", %d, %d)' % (name, dynamic[1], dynamic[0]))
        else:
            body.append('  ("%s", %d, %d)' % (name, static, static))
    lines.append(",\n".join(body))
    lines.append("]")
    lines.append("")
    lines.append("/-- `_compatible(change)`: the severity given to the type changes the differ considers safe for clients")
    lines.append("    (`none`: the source has no such helper: those retypings are not reported at all) -/")
    cs = compatible_severity(src, sev)
    lines.append("def compatibleRetypeSeverity : Option Nat := %s" % ("none" if cs is None else "some %d" % cs))
    lines.append("end PyGql.Generated.Differ")
    return {"PyGqlModel/Generated/Differ.lean": "\n".join(lines) + "\n"}


# ---------------------------------------------------------------------------

def all_types(depth, names=("A", "B")):
    cur = [("named", n) for n in names]
    out = list(cur)
    for _ in range(depth):
        nxt = []
        for t in cur:
            nxt.append(("list", t))
            if t[0] != "nonNull":
                nxt.append(("nonNull", t))
        out += nxt
        cur = nxt
    return out


def ty_json(t):
    return {"k": t[0], "n": t[1]} if t[0] == "named" else {"k": t[0], "t": ty_json(t[1])}


def ty_str(t):
    return t[1] if t[0] == "named" else ("[%s]" % ty_str(t[1]) if t[0] == "list" else ty_str(t[1]) + "!")


def ty_py(t, reg):
    from py_gql.schema import ListType, NonNullType
    if t[0] == "named":
        return reg[t[1]]
    return (ListType if t[0] == "list" else NonNullType)(ty_py(t[1], reg))


def accepts(t, v):
    """Reference semantics of a type expression on abstract values (spec side of the direct oracle)."""
    if t[0] == "nonNull":
        return v is not None and accepts(t[1], v)
    if v is None:
        return True
    if t[0] == "named":
        return v == ("leaf", t[1])
    return isinstance(v, tuple) and v[0] == "list" and all(accepts(t[1], x) for x in v[1])


def small_values(names, depth):
    vals = [None] + [("leaf", n) for n in names]
    for _ in range(depth):
        base = list(vals)
        vals = list(base)
        for k in range(0, 3):
            for combo in itertools.product(base[:4] if k > 1 else base, repeat=k):
                v = ("list", tuple(combo))
                if v not in vals:
                    vals.append(v)
    return vals


def run(ctx):
    from py_gql.schema import ObjectType, Field, String
    import py_gql.schema.differ as differ

    A = ObjectType("A", [Field("x", String)])
    B = ObjectType("B", [Field("x", String)])
    reg = {"A": A, "B": B}
    depth = 3 if ctx.tier == "quick" else 4
    types = all_types(depth)
    pairs = [(o, n) for o in types for n in types]
    ctx.extra["type_pairs"] = len(pairs)
    ctx.extra["exhaustive_type_pairs_depth"] = depth

    # --- correspondence: real predicates vs translated+fuel-closed model --------------
    def call(fn, o, n):
        try:
            return bool(fn(ty_py(o, reg), ty_py(n, reg)))
        except Exception as e:  # noqa
            return "exc:" + type(e).__name__

    impl = [(call(differ._is_safe_input_type_change, o, n), call(differ._is_safe_output_type_change, o, n)) for o, n in pairs]
    model = None
    if ctx.model_ok:
        model = ctx.driver.ask([{"op": "safe", "old": ty_json(o), "new": ty_json(n)} for o, n in pairs])
    vals = small_values(("A", "B"), 2)
    for i, (o, n) in enumerate(pairs):
        ctx.count()
        if o != n:
            ctx.nontrivial(("ty", o, n))
        si, so = impl[i]
        ctx.stat("safeIn=%s" % si)
        ctx.stat("safeOut=%s" % so)
        if model is not None:
            m = model[i]
            if m.get("in") != si or m.get("out") != so:
                ctx.fail("corr:safe-predicates:%s->%s" % (ty_str(o), ty_str(n)),
                         "translated predicate and implementation differ",
                         {"old": ty_str(o), "new": ty_str(n), "impl": [si, so], "model": m}, kind="correspondence")
        # direct oracle (the statement itself): a change NOT reported as breaking must keep
        #   input positions at least as permissive, output positions at least as strict.
        if si is True:
            bad = [v for v in vals if accepts(o, v) and not accepts(n, v)]
            if bad:
                ctx.fail("input-position-narrowed:%s" % C20_schemas.divergence(o, n, "in"),
                         "input type change %s -> %s is classified safe but rejects a value accepted before" % (ty_str(o), ty_str(n)),
                         {"position": "input", "old": ty_str(o), "new": ty_str(n), "value": repr(bad[0])})
        if so is True:
            bad = [v for v in vals if accepts(n, v) and not accepts(o, v)]
            if bad:
                ctx.fail("output-position-loosened:%s" % C20_schemas.divergence(o, n, "out"),
                         "output type change %s -> %s is classified safe but can produce a value the old type excludes" % (ty_str(o), ty_str(n)),
                         {"position": "output", "old": ty_str(o), "new": ty_str(n), "value": repr(bad[0])})
        if isinstance(si, str) or isinstance(so, str):
            ctx.fail("predicate-raises:%s" % shape_sig(o, n), "safe-change predicate raises",
                     {"old": ty_str(o), "new": ty_str(n), "impl": [si, so]})
    ctx.sample({"old": ty_str(pairs[37][0]), "new": ty_str(pairs[37][1]), "impl_safe_in_out": impl[37]})

    # --- severity table: extracted table vs live classes -------------------------------
    import py_gql.schema.differ.changes as changes
    try:
        sev, rows = severity_table()
    except Exception as e:  # noqa  (already reported as a broken obligation by `extract`; the direct oracle must still run)
        ctx.notes.append("severity table not extractable in run(): %s" % e)
        rows = []
    for name, static, dynamic in rows:
        ctx.count()
        cls = getattr(changes, name)
        if dynamic is None and int(cls.severity) != static:
            ctx.fail("corr:severity-table:" + name, "extracted severity differs from live class", {"class": name}, kind="correspondence")
    if ctx.model_ok:
        r = ctx.driver.ask([{"op": "severity_ok"}])[0]
        ctx.extra["severity_table_breaking_ok(model)"] = r

    # --- schema-level oracle --------------------------------------------------------------
    C20_schemas.run(ctx)


def shape_sig(o, n):
    """Failure class of a type pair: the wrapper shapes with names abstracted (same / different)."""
    def sh(t):
        return "N" if t[0] == "named" else ("L(%s)" % sh(t[1]) if t[0] == "list" else "%s!" % sh(t[1]))

    def base(t):
        return t[1] if t[0] == "named" else base(t[1])
    return "%s->%s:%s" % (sh(o), sh(n), "same" if base(o) == base(n) else "diff")


def replay(ctx, data):
    inp = data.get("input", {})
    if "position" in inp:
        # re-evaluate the pair on the real predicate
        from py_gql.schema import ObjectType, Field, String
        import py_gql.schema.differ as differ
        from py_gql.lang import parse_type
        from py_gql.schema import ListType, NonNullType
        from py_gql.lang import ast as _ast
        reg = {"A": ObjectType("A", [Field("x", String)]), "B": ObjectType("B", [Field("x", String)])}

        def conv(node):
            if isinstance(node, _ast.NamedType):
                return ("named", node.name.value)
            if isinstance(node, _ast.ListType):
                return ("list", conv(node.type))
            return ("nonNull", conv(node.type))
        o, n = conv(parse_type(inp["old"])), conv(parse_type(inp["new"]))
        fn = differ._is_safe_input_type_change if inp["position"] == "input" else differ._is_safe_output_type_change
        safe = bool(fn(ty_py(o, reg), ty_py(n, reg)))
        vals = small_values(("A", "B"), 2)
        if inp["position"] == "input":
            bad = [v for v in vals if accepts(o, v) and not accepts(n, v)]
        else:
            bad = [v for v in vals if accepts(n, v) and not accepts(o, v)]
        return not (safe and bad)
    from corr import C20_schemas
    return C20_schemas.replay(ctx, data)

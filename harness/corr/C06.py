# -*- coding: utf-8 -*-
"""
C06 — validation verdicts match the June-2018 specification, a single-rule violation is reported
with an error attributable to that rule, and the verdict ignores irrelevant order / renaming /
re-spelling.

Direct oracle (= the statement, on the REAL validator):
  * documents valid by construction (gen/valid_ops.py over gen/schema.py)      => no error
  * one labelled violation of specification rule R (gen/violations.py)         => >= 1 error, one of
    them held by the visitor INSTANCE of R (chain rebuilt exactly as `default_validator` does;
    no message text is read)
  * the verdict does not depend on documents validated earlier in the process (history pass), and a schema DERIVED
    (clone / visibility transform / camel case) from a schema already used for validation validates like the same
    derived schema built from its SDL (schema history pass)
  * verdict unchanged under: reorder definitions / selections / arguments, injective renaming of
    aliases / fragments / variables, re-spelling of whitespace, commas, comments.
Correspondence (Lean model `PyGqlModel/Validate/*`, driver `drv_C06`): see `C06_model.py`.
"""
import ast as pyast
import json
import random
import time

from common import REPO, CORPUS

PROPERTY = "C06"
RULE = ("schemas: gen/schema.py (sizes 1-3, + subscription root); documents valid by construction (operations, nested "
        "fragments, inline fragments, variables shared between operations through fragments, directives, input objects, "
        "mergeable duplicate fields); each then gets every applicable one of 46 labelled single-rule violations (incl. fragment cycles through the sub-selection of a field, variables INSIDE list literals, depth 1-2, below object fields) "
        "(26 rule visitors / 26 specification rules) and 8 metamorphic transformations; + a NAMED re-spelling probe independent of the seed (3 fixed documents x every separator of valid_ops.SEPS - comments ended by LF / CRLF / lone CR, BOM, commas - after every token, between the definitions, at the end; a re-spelling that no longer parses counts as a changed verdict); non-trivial = distinct "
        "(document text) that is either valid with >= 2 definitions or a fragment, or carries a violation")
ASSUMPTIONS = [
    "reading of 5.8.5 at a list literal written at a NON-list position (e.g. `[ $v ]` at a custom scalar): the items are typed "
    "with the position's nullable type, as graphql-js does (TypeInfoVisitor.enter_list_value), and VariablesInAllowedPosition "
    "compares the variable's type against it; below an object field of a literal at a custom scalar the position has no type",
    "documents are produced by the real parser from generated text (validate_ast assumes parser output)",
    "validation is expected to RETURN (C05; ledger V1, V2 and the custom-scalar object literal are fixed in /repo): an input "
    "on which the real validator raises is reported (`validation-raises:*`), not skipped",
    "Float literals that overflow to infinity (`1e999`, rejected since commit 761760b) are not generated; the model "
    "accepts every Float/Int literal at a Float position",
    "type-system definitions inside executable documents are opaque to the model (only their presence matters: "
    "ExecutableDefinitionsChecker skips the whole document)",
]
TRUSTED = [
    "gen/valid_ops.py: validity BY CONSTRUCTION of the generated documents (the specification side of the oracle); "
    "gen/violations.py: each injector breaks exactly the labelled rule",
    "the overlap theorems for the code /repo runs (Props/C06_overlap_memo*.lean, C06_head_memo.lean) are stated about "
    "`overlapMemoRun` (memoised search folded over the typed enumeration); for the rule run ALONE it is proved equal to the "
    "chain with the memoised search inside (`runM`, the model compared with the real validator): Props/C06_overlap_memo_chain.lean "
    "`runM_alone_eq` (and still cross-checked on every rule-alone answer: `memo:alone-vs-chain`); inside the full 26-rule "
    "chain the overlap rule additionally loses the selection sets below a node another rule skipped - modelled by `runM`, "
    "not covered by a theorem",
]

VALIDATE = REPO / "src/py_gql/validation/validate.py"


# ---------------------------------------------------------------------------
# extraction: SPECIFIED_RULES (names, order) from the source text
# ---------------------------------------------------------------------------

def specified_rules_from_source():
    tree = pyast.parse(VALIDATE.read_text())
    for n in tree.body:
        if isinstance(n, pyast.Assign) and getattr(n.targets[0], "id", None) == "SPECIFIED_RULES":
            if not isinstance(n.value, pyast.Tuple):
                raise ValueError("SPECIFIED_RULES is not a tuple literal")
            names = []
            for e in n.value.elts:
                if not (isinstance(e, pyast.Attribute) and isinstance(e.value, pyast.Name) and e.value.id == "_rules"):
                    raise ValueError("SPECIFIED_RULES element is not `_rules.<Class>`: " + pyast.dump(e))
                names.append(e.attr)
            return names
    raise ValueError("SPECIFIED_RULES not found in validate.py")


def extract(ctx):
    names = specified_rules_from_source()
    # the default of `default_validator(validators=...)` must be SPECIFIED_RULES and validate_ast must default to it
    src = VALIDATE.read_text()
    tree = pyast.parse(src)
    ok_default = False
    for n in pyast.walk(tree):
        if isinstance(n, pyast.FunctionDef) and n.name == "default_validator":
            for kw, d in zip(n.args.kwonlyargs, n.args.kw_defaults):
                if kw.arg == "validators" and isinstance(d, pyast.Name) and d.id == "SPECIFIED_RULES":
                    ok_default = True
    if not ok_default:
        raise ValueError("default_validator no longer defaults to SPECIFIED_RULES")
    body = ",\n".join('  "%s"' % n for n in names)
    lean = ("/- GENERATED on every run by harness/corr/C06.py from src/py_gql/validation/validate.py. Do not edit. -/\n"
            "namespace PyGql.Generated.ValidationRules\n\n"
            "/-- `SPECIFIED_RULES` of validate.py: class names in chain order -/\n"
            "def specifiedRules : List String := [\n%s\n]\n\nend PyGql.Generated.ValidationRules\n" % body)
    return {"PyGqlModel/Generated/ValidationRules.lean": lean}


# ---------------------------------------------------------------------------
# the real validator, with attribution to visitor instances
# ---------------------------------------------------------------------------

class WatchdogExpired(BaseException):
    """validation of one generated document ran longer than WATCHDOG_S seconds (a loop that does not even recurse)"""


WATCHDOG_S = 20


class watchdog:
    """wall-clock watchdog around ONE validation (unbounded recursion is caught by the interpreter's own limit and
    reported as raise:RecursionError; this catches the non-recursive loop). Main thread only; no-op elsewhere."""

    def __enter__(self):
        import signal
        import threading
        self.on = threading.current_thread() is threading.main_thread() and hasattr(signal, "setitimer")
        if self.on:
            def expired(signum, frame):
                raise WatchdogExpired()
            self.old = signal.signal(signal.SIGALRM, expired)
            signal.setitimer(signal.ITIMER_REAL, WATCHDOG_S)
        return self

    def __exit__(self, *exc):
        if self.on:
            import signal
            signal.setitimer(signal.ITIMER_REAL, 0)
            signal.signal(signal.SIGALRM, self.old)
        return False


def real_chain(schema, text, rules=None, parse_opts=None):
    """Rebuild the chain exactly as `default_validator` does and record which rule object holds each error.
    Returns {"outcome": "ok"|"errors"|"raise:<Class>", "by_rule": [(class name, #errors)] }."""
    from py_gql.lang import parse
    from py_gql.lang.visitor import ChainedVisitor
    from py_gql.validation.validate import SPECIFIED_RULES
    from py_gql.validation.visitors import TypeInfoVisitor
    rules = SPECIFIED_RULES if rules is None else rules
    try:
        document = parse(text, allow_type_system=True, **(parse_opts or {}))
    except Exception as e:  # generated text must parse
        return {"outcome": "noparse:" + type(e).__name__, "by_rule": []}
    try:
        with watchdog():
            type_info = TypeInfoVisitor(schema)
            visitors = [cls(schema, type_info) for cls in rules]
            ChainedVisitor(type_info, *visitors).visit(document)
    except RecursionError:
        return {"outcome": "raise:RecursionError", "by_rule": []}
    except WatchdogExpired:
        return {"outcome": "raise:WatchdogExpired", "by_rule": []}
    except Exception as e:
        return {"outcome": "raise:" + type(e).__name__, "by_rule": []}
    by = [(type(v).__name__, len(v.errors)) for v in visitors]
    return {"outcome": "errors" if any(n for _, n in by) else "ok", "by_rule": by}


def real_verdict(schema, text):
    """the public entry point named in the property (observe_at)"""
    from py_gql.lang import parse
    from py_gql.validation import validate_ast
    try:
        return "ok" if not validate_ast(schema, parse(text, allow_type_system=True)).errors else "errors"
    except RecursionError:
        return "raise:RecursionError"
    except Exception as e:
        return "raise:" + type(e).__name__


def reporting(res):
    return sorted(n for n, k in res["by_rule"] if k)


# ---------------------------------------------------------------------------
# cases
# ---------------------------------------------------------------------------

class World:
    """one generated schema: description, SDL, built schema, canonical dump for the model"""

    def __init__(self, rng, size):
        from gen import schema as gs, valid_ops as vo
        from py_gql import build_schema
        self.desc = gs.gen_schema(rng, size=size, with_descriptions=False)
        if rng.random() < 0.6:
            vo.add_subscription(rng, self.desc)
        self.sdl = gs.to_sdl(self.desc)
        self.schema = build_schema(self.sdl)
        self.sv = vo.SchemaView(self.desc)
        self._dump = None

    def dump(self):
        if self._dump is None:
            import canon_schema
            self._dump = canon_schema.dump_schema(self.schema, include_builtin=True)
        return self._dump


def order_dependent(world, doc, base):
    """does SOME reordering of definitions / selections change the verdict? (used in signatures)"""
    from gen import valid_ops as vo
    r = random.Random(12345)
    for _ in range(12):
        for fn in (vo.t_reorder_definitions, vo.t_reorder_selections):
            res = real_chain(world.schema, vo.to_text(fn(r, doc)))
            if res["outcome"] in ("ok", "errors") and res["outcome"] != base:
                return fn.__name__[2:]
    return None


def raises(ctx, world, text, res, label, feature):
    """validation must deliver a verdict: a raise is reported (RecursionError on cyclic fragments included)"""
    ctx.stat("raises:%s@%s" % (res["outcome"], label))
    ctx.fail("validation-%s:%s:%s" % (res["outcome"].replace("raise:", "raises:"), label, feature),
             "validate_ast raises instead of returning a verdict",
             {"kind": "raises", "sdl": world.sdl, "text": text, "label": label, "feature": feature})


def check_transforms(ctx, world, doc, base, label, which=None, feature=""):
    """verdict of `doc` (already computed: `base`) must not change under the metamorphic transformations"""
    from gen import valid_ops as vo
    names = [n for n, _ in vo.TRANSFORMS] + ["respell"]
    if which is not None:
        names = which
    fns = dict(vo.TRANSFORMS)
    out = []
    for name in names:
        respelled = None
        if name == "respell":
            # same draws, in the same order, as vo.to_text(doc, respell_rng=ctx.rng); the parts are kept for shrinking
            toks = [t for d in doc["defs"] for t in vo.def_tokens(d)]
            lead = ctx.rng.choice(["", " ", "\n", "# lead\n", ","])
            respelled = (lead, toks, [ctx.rng.choice(vo.SEPS) for _ in toks])
            text2 = respell_join(*respelled)
            doc2 = None
        else:
            doc2 = fns[name](ctx.rng, doc)
            text2 = vo.to_text(doc2)
        res = real_chain(world.schema, text2)
        ctx.count()
        ctx.stat("transform:" + name)
        out.append((name, doc2, text2, res))
        if res["outcome"].startswith("raise") or res["outcome"].startswith("noparse"):
            if res["outcome"].startswith("noparse") and name == "respell":
                # the same tokens separated by other ignored tokens must get the same verdict: a syntax error IS a change
                respell_shrunk(ctx, world, vo.to_text(doc), respelled, base["outcome"], res["outcome"], label)
            elif res["outcome"].startswith("noparse"):
                ctx.fail("harness:noparse:" + name, "generated text does not parse", {"text": text2}, kind="correspondence")
            else:
                raises(ctx, world, text2, res, label, feature)
            continue
        if res["outcome"] != base["outcome"] and name == "respell":
            respell_shrunk(ctx, world, vo.to_text(doc), respelled, base["outcome"], res["outcome"], label)
        elif res["outcome"] != base["outcome"]:
            bad = res if res["outcome"] == "errors" else base
            ctx.fail("verdict-changed:%s:%s" % (name, "+".join(reporting(bad))),
                     "verdict %s -> %s under %s (%s)" % (base["outcome"], res["outcome"], name, label),
                     {"kind": "transform", "sdl": world.sdl, "text": vo.to_text(doc), "text2": text2, "transform": name,
                      "label": label, "feature": feature, "verdict": base["outcome"], "verdict2": res["outcome"],
                      "rules": reporting(base), "rules2": reporting(res)})
    return out


def sep_class(sep):
    """stable name of a separator of `valid_ops.SEPS` (used in signatures)"""
    if "#" in sep:
        end = "CRLF" if sep.endswith("\r\n") else "CR" if sep.endswith("\r") else "LF" if sep.endswith("\n") else "EOF"
        return "comment-ended-by-" + end
    names = {" ": "space", "\t": "tab", "\n": "LF", "\r": "CR", ",": "comma", "\ufeff": "BOM"}
    return "+".join(sorted({names.get(c, "U+%04X" % ord(c)) for c in sep})) or "empty"


def respell_join(lead, toks, seps):
    return lead + "".join(t + s for t, s in zip(toks, seps))


def respell_shrunk(ctx, world, text, respelled, v1, v2, label):
    """shrink a failing random re-spelling: every separator that is not needed for the verdict to differ from the
    plain spelling's becomes one space; the signature names the classes of the separators that remain"""
    lead, toks, seps = respelled
    seps = list(seps)

    def differs(lead, seps):
        return real_chain(world.schema, respell_join(lead, toks, seps))["outcome"] != v1

    if lead and differs("", seps):
        lead = ""
    for i in range(len(seps)):
        if seps[i] != " ":
            trial = seps[:i] + [" "] + seps[i + 1:]
            if differs(lead, trial):
                seps = trial
    text2 = respell_join(lead, toks, seps)
    v2 = real_chain(world.schema, text2)["outcome"]
    rest = [x for x in seps if x != " "] + ([lead] if lead else [])
    respell_failure(ctx, world.sdl, text, text2, v1, v2, label, seps=rest)


def respell_failure(ctx, sdl, text, text2, v1, v2, label, sep=None, seps=None):
    seps = [sep] if sep is not None else (seps or [])
    cls = "+".join(sorted({sep_class(x) for x in seps})) or "plain"
    ctx.fail("verdict-changed:respell:%s:%s->%s" % (cls, v1.split(":")[0], v2.split(":")[0]),
             "verdict %s -> %s when the same tokens are separated by other ignored tokens (%s)" % (v1, v2, label),
             {"kind": "respell", "sdl": sdl, "text": text, "text2": text2, "label": label, "verdict": v1, "verdict2": v2})


RESPELL_SDL = "type Query { dog(id: Int): Dog }\ntype Dog { name: String barkVolume: Int }\n"
RESPELL_DOCS = [
    ("valid", "query Q ( $v : Int = 1 ) { dog ( id : $v ) { name ... F ... on Dog { barkVolume } } } "
              "fragment F on Dog { barkVolume @include ( if : true ) }"),
    ("invalid-last-definition", "query A { dog { name } } query B { dog { volume } }"),
    ("invalid-first-definition", "query A { dog { volume } } query B { dog { name } }"),
]


def respell_probe(ctx):
    """NAMED PROBE, independent of ctx.rng (deterministic in every run, seeded class C06-9): three fixed documents,
    every separator of `valid_ops.SEPS` in turn (a) after every token, (b) only between the two definitions, (c) only
    at the very end. The verdict (ok / errors; a syntax error counts as a third verdict) must be the one of the
    single-space spelling."""
    from py_gql import build_schema
    from gen import valid_ops as vo
    schema = build_schema(RESPELL_SDL)
    for label, text in RESPELL_DOCS:
        toks = text.split(" ")
        base = real_chain(schema, text)
        ctx.count()
        if base["outcome"] not in ("ok", "errors") or (base["outcome"] == "ok") != (label == "valid"):
            ctx.fail("harness:respell-probe-base:" + label, "probe document has an unexpected verdict",
                     {"text": text, "verdict": base["outcome"]}, kind="correspondence")
            continue
        cut = max(i for i, t in enumerate(toks) if t in ("query", "fragment"))
        for sep in dict.fromkeys(vo.SEPS):
            variants = [("every-token", "".join(t + sep for t in toks)),
                        ("between-definitions", " ".join(toks[:cut]) + sep + " ".join(toks[cut:])),
                        ("at-end", text + sep)]
            for where, text2 in variants:
                res = real_chain(schema, text2)
                ctx.count()
                ctx.stat("respell-probe:" + sep_class(sep))
                ctx.nontrivial(("respell-probe", label, where, sep))
                if res["outcome"] != base["outcome"]:
                    respell_failure(ctx, RESPELL_SDL, text, text2, base["outcome"], res["outcome"],
                                    "probe:%s:%s" % (label, where), sep=sep)


def one_document(ctx, world, size, collect):
    """valid document + transformations + every applicable single violation (+ transformations of those)"""
    from gen import valid_ops as vo, violations as vi
    rng = ctx.rng
    doc = vo.gen_document(rng, world.desc, size=size)
    for ft in doc.pop("_features", []):
        ctx.stat("valid-feature:" + ft.rsplit("-levels", 1)[0])
        if "-levels-" in ft:
            ctx.stat("valid-feature-levels:" + ft.rsplit("-levels-", 1)[1])
    text = vo.to_text(doc)
    base = real_chain(world.schema, text)
    ctx.count()
    ctx.stat("valid-doc:" + base["outcome"])
    ctx.stat("defs=%d" % min(len(doc["defs"]), 8))
    if len(doc["defs"]) >= 2:
        ctx.nontrivial(("valid", text))
    collect.append((world, text, base, "valid", ""))
    if base["outcome"].startswith("raise") or base["outcome"].startswith("noparse"):
        if base["outcome"].startswith("noparse"):
            ctx.fail("harness:noparse:valid", "generated text does not parse", {"text": text}, kind="correspondence")
        else:
            raises(ctx, world, text, base, "valid", "")
        return
    pub = real_verdict(world.schema, text)
    if pub != base["outcome"]:
        ctx.fail("validate_ast-differs-from-rebuilt-chain", "validate_ast and the rebuilt chain disagree",
                 {"kind": "valid", "sdl": world.sdl, "text": text, "validate_ast": pub, "chain": base["outcome"]})
    if base["outcome"] != "ok":
        dep = order_dependent(world, doc, base["outcome"])
        ctx.fail("valid-rejected:%s:%s" % ("+".join(reporting(base)), "order-dependent(%s)" % dep if dep else "stable"),
                 "a document valid by construction is rejected",
                 {"kind": "valid", "sdl": world.sdl, "text": text, "rules": reporting(base)})
    else:
        ctx.sample({"valid_document": text[:300]}, cap=2)
    check_transforms(ctx, world, doc, base, "valid")
    if base["outcome"] != "ok":
        return
    # ---- single labelled violations ----
    injected = []
    for label, section, expected, fn in rng.sample(vi.INJECTORS, len(vi.INJECTORS)):
        if time.time() > getattr(ctx, "direct_deadline", ctx.deadline):
            ctx.stat("injectors-cut-short(time)")
            break
        r = fn(rng, world.sv, doc)
        if r is None:
            ctx.stat("inject-n/a:" + label)
            continue
        doc2, feature = r
        text2 = vo.to_text(doc2)
        res = real_chain(world.schema, text2)
        ctx.count()
        ctx.stat("inject:" + label)
        ctx.nontrivial(("viol", label, text2))
        collect.append((world, text2, res, label, feature))
        if res["outcome"].startswith("noparse"):
            ctx.fail("harness:noparse:" + label, "generated text does not parse", {"text": text2}, kind="correspondence")
            continue
        if res["outcome"].startswith("raise"):
            raises(ctx, world, text2, res, label, feature)
            continue
        injected.append((label, feature, doc2, fn))
        detail = {"kind": "violation", "sdl": world.sdl, "text": text2, "label": label, "section": section,
                  "feature": feature, "expected_rules": expected, "rules": reporting(res), "valid_text": text}
        if res["outcome"] == "ok":
            ctx.fail("violation-missed:%s:%s" % (label, feature),
                     "a document violating spec rule %s (%s) is accepted" % (section, label), detail)
        elif not set(expected) & set(reporting(res)):
            ctx.fail("violation-misattributed:%s:%s:%s" % (label, feature, "+".join(reporting(res))),
                     "violation of %s reported, but by none of %s" % (label, expected), detail)
        ctx.stat("reported-by-%d-rules" % min(len(reporting(res)), 4))
        # invariance of the (invalid) verdict: two random transformations + the ones that matter for the rule
        names = [n for n, _ in vo.TRANSFORMS] + ["respell"]
        which = rng.sample(names, 2 if ctx.tier == "quick" else 4)
        if label == "all_variable_usages_allowed" or "fragment" in label:
            which = sorted(set(which) | {"reverse_definitions", "reorder_definitions"})
        check_transforms(ctx, world, doc2, res, label, which=which, feature=feature)
    # ---- two violations: verdict only ----
    if len(injected) >= 2:
        (l1, f1, d1, _), (l2, f2, _, fn2) = rng.sample(injected, 2)
        r = fn2(rng, world.sv, d1)
        if r is not None:
            doc3 = r[0]
            text3 = vo.to_text(doc3)
            res = real_chain(world.schema, text3)
            ctx.count()
            ctx.stat("two-violations")
            collect.append((world, text3, res, l1 + "+" + l2, "multi"))
            if res["outcome"] == "ok":
                ctx.fail("violation-missed:two:%s+%s" % tuple(sorted([l1, l2])), "a document with two violations is accepted",
                         {"kind": "violation", "sdl": world.sdl, "text": text3, "label": l1 + "+" + l2, "expected_rules": [],
                          "feature": "multi", "rules": []})
            elif res["outcome"] == "errors":
                check_transforms(ctx, world, doc3, res, l1 + "+" + l2, which=rng.sample([n for n, _ in vo.TRANSFORMS], 2))


# ---------------------------------------------------------------------------
# corpus (hand-written edge cases; the ledger witnesses)
# ---------------------------------------------------------------------------

def run_corpus(ctx, collect):
    from py_gql import build_schema
    d = CORPUS / PROPERTY
    if not d.exists():
        return
    for f in sorted(d.glob("*.json")):
        data = json.loads(f.read_text())
        run_cases(ctx, collect, data, "corpus")
    pairs = type_pair_table()
    # every pair is checked against the oracle; for the model correspondence all of them (thorough) or a sample (quick)
    keep = None if ctx.tier != "quick" else set(ctx.rng.sample(range(len(pairs["cases"])), min(160, len(pairs["cases"]))))
    run_cases(ctx, collect, pairs, "type-pairs", keep)
    mm = memo_mode_table()
    # direct oracle: every case; model correspondence: every invalid case, the valid twins in two of the six orders (quick)
    keepm = None if ctx.tier != "quick" else {i for i, c in enumerate(mm["cases"])
                                              if not c["spec_valid"] or c["sig"].endswith(("order012", "order210"))}
    run_cases(ctx, collect, mm, "memo-modes", keepm)


def run_cases(ctx, collect, data, tag, keep=None):
    from py_gql import build_schema
    if True:
        schema = build_schema(data["sdl"])
        w = CorpusWorld(data["sdl"], schema)
        for idx, case in enumerate(data["cases"]):
            ctx.count()
            ctx.stat(tag)
            res = real_chain(schema, case["text"], parse_opts=case.get("parse"))
            if res["outcome"].startswith("noparse"):
                ctx.fail("harness:noparse:corpus:" + case.get("id", ""), "corpus text does not parse", {"text": case["text"]},
                         kind="correspondence")
                continue
            if case.get("parse"):
                ctx.stat("model-does-not-cover:parse-options")
            elif keep is None or idx in keep:
                # `multi`: several rules report by design - the model correspondence compares the verdict only
                collect.append((w, case["text"], res, "corpus:" + case.get("id", "") + ("+multi" if case.get("rules_all") else ""), ""))
            if case.get("rules_all") and res["outcome"] in ("ok", "errors"):
                missing = sorted(set(case["rules_all"]) - set(reporting(res)))
                if missing:
                    ctx.fail("violation-hidden:%s:%s" % (case["sig"], "+".join(missing)),
                             "corpus: a violation that does not sit inside a skipped node is not reported",
                             {"kind": "violation", "sdl": data["sdl"], "text": case["text"], "label": case["sig"], "feature": "",
                              "expected_rules": case["rules_all"], "all_rules": True, "rules": reporting(res)})
            exp = case.get("spec_valid")
            if res["outcome"].startswith("raise"):
                raises(ctx, w, case["text"], res, "corpus:" + case.get("id", ""), "")
                continue
            if exp is None:
                continue
            ctx.nontrivial((tag, case["text"]))
            if exp and res["outcome"] != "ok":
                ctx.fail("valid-rejected:%s:%s" % ("+".join(reporting(res)), case.get("sig", "corpus")),
                         "corpus: a valid document is rejected", {"kind": "valid", "sdl": data["sdl"], "text": case["text"],
                                                                   "rules": reporting(res)})
            if not exp and res["outcome"] == "ok":
                ctx.fail("violation-missed:%s" % case["sig"], "corpus: an invalid document is accepted (%s)" % case.get("why", ""),
                         {"kind": "violation", "sdl": data["sdl"], "text": case["text"], "label": case["sig"], "feature": "",
                          "expected_rules": case.get("rules", []), "rules": []})
            if not exp and res["outcome"] == "errors" and case.get("rules") and not set(case["rules"]) & set(reporting(res)):
                ctx.fail("violation-misattributed:%s:%s" % (case["sig"], "+".join(reporting(res))), "corpus: misattributed",
                         {"kind": "violation", "sdl": data["sdl"], "text": case["text"], "label": case["sig"], "feature": "",
                          "expected_rules": case["rules"], "rules": reporting(res)})
            for other in case.get("same_verdict_as", []):
                r2 = real_chain(schema, other["text"])
                ctx.count()
                collect.append((w, other["text"], r2, "corpus:" + case.get("id", ""), ""))
                if r2["outcome"] in ("ok", "errors") and r2["outcome"] != res["outcome"]:
                    bad = r2 if r2["outcome"] == "errors" else res
                    ctx.fail("verdict-changed:%s:%s" % (other["transform"], "+".join(reporting(bad))),
                             "corpus: verdict changes under " + other["transform"],
                             {"kind": "transform", "sdl": data["sdl"], "text": case["text"], "text2": other["text"],
                              "transform": other["transform"], "verdict": res["outcome"], "verdict2": r2["outcome"],
                              "rules": reporting(res), "rules2": reporting(r2), "label": "corpus", "feature": ""})


# ---------------------------------------------------------------------------
# variable type x position type, all wrapper shapes up to depth 3 (oracle: IsVariableUsageAllowed / AreTypesCompatible
# of the June-2018 specification = valid_ops.var_allowed). `Schema.is_subtype` is hand-modelled in the Lean model, so
# these pairs are what ties it (and the real one) to the specification.
# ---------------------------------------------------------------------------

def _shapes(depth):
    """wrapper shapes over Int: no `nonNull` directly inside `nonNull`"""
    out = [("named", "Int")]
    frontier = [("named", "Int")]
    for _ in range(depth):
        nxt = []
        for t in frontier:
            nxt.append(("list", t))
            if t[0] != "nonNull":
                nxt.append(("nonNull", t))
        out += nxt
        frontier = nxt
    return out


def _ty_text(t):
    return t[1] if t[0] == "named" else ("[%s]" % _ty_text(t[1]) if t[0] == "list" else _ty_text(t[1]) + "!")


def _lit_text(t):
    return "1" if t[0] == "named" else ("[%s]" % _lit_text(t[1]) if t[0] == "list" else _lit_text(t[1]))


_TYPE_PAIRS = None


def type_pair_table():
    global _TYPE_PAIRS
    from gen import valid_ops as vo
    if _TYPE_PAIRS is not None:
        return _TYPE_PAIRS
    shapes = _shapes(3)
    fields, locs = [], []
    for i, lt in enumerate(shapes):
        for ld in (False, True):
            name = "f%d%s" % (i, "d" if ld else "")
            fields.append("%s(a: %s%s): Int" % (name, _ty_text(lt), " = " + _lit_text(lt) if ld else ""))
            locs.append((name, lt, ld))
    sdl = "type Query { %s }\n" % ", ".join(fields)
    cases = []
    for vt in shapes:
        vdefs = [None] if vt[0] == "nonNull" else [None, _lit_text(vt), "null"]
        for vd in vdefs:
            for name, lt, ld in locs:
                ok = vo.var_allowed(vt, vd not in (None, "null"), lt, ld)
                sig = "%s@%s%s%s" % (vo._shape(vt), vo._shape(lt), "" if vd is None else (":vnull" if vd == "null" else ":vdef"),
                                     ":ldef" if ld else "")
                text = "query($v: %s%s) { r: %s(a: $v) }" % (_ty_text(vt), "" if vd is None else " = " + vd, name)
                case = {"id": "pair:" + sig, "text": text, "spec_valid": ok,
                        "sig": ("variable-type-pair:" if ok else "all_variable_usages_allowed:variable-type-pair:") + sig}
                if not ok:
                    case["rules"] = ["VariablesInAllowedPositionChecker"]
                cases.append(case)
    _TYPE_PAIRS = {"sdl": sdl, "cases": cases}
    return _TYPE_PAIRS


# ---------------------------------------------------------------------------
# the (field map, fragment) memo of OverlappingFieldsCanBeMerged under BOTH exclusivity modes (seeded C06-11):
# the same sub-selection is compared with the same fragment once under mutually exclusive parents (only response
# shapes matter) and once under overlapping parents (names / arguments matter too), in either order. Exhaustive over
# the order of the three same-key fields, the path to the fragment ((I) direct spread, (E) through another fragment,
# (B) the set's own spread), the kind of conflict (different field / different arguments) and the wrapper (inline
# fragments / named fragments); valid twins (all parents exclusive; strict comparison without conflict first).
# Run on EVERY run (deterministic block, stable signatures); each case also carries a reordered twin so that the
# perm_selections oracle sees an order-dependent verdict.
# ---------------------------------------------------------------------------

MEMO_MODES_SDL = ("type Query { pet: Pet }\n"
                  "interface Pet { owner: Human }\n"
                  "type Human { label: String nickname: String tag(n: Int): String }\n"
                  "type Dog implements Pet { owner: Human }\n"
                  "type Cat implements Pet { owner: Human }\n"
                  "type Bird implements Pet { owner: Human }\n")

_MEMO_MODES = None


def memo_mode_table():
    global _MEMO_MODES
    import itertools
    if _MEMO_MODES is not None:
        return _MEMO_MODES
    kinds = {"field": ("label", "label: nickname", "label"), "args": ("t: tag(n: 1)", "t: tag(n: 2)", "t: tag(n: 1)")}
    cases = []

    def doc(sels, frags, wrapper):
        """sels: [(type, sub-selection text)] in order"""
        extra = []
        parts = []
        for i, (ty, sub) in enumerate(sels):
            if wrapper == "inline":
                parts.append("... on %s { owner { %s } }" % (ty, sub))
            else:
                parts.append("...W%d" % i)
                extra.append("fragment W%d on %s { owner { %s } }" % (i, ty, sub))
        return "{ pet { %s } } %s" % (" ".join(parts), " ".join(frags + extra))

    for kind, (plain, clash, same) in sorted(kinds.items()):
        for path in ("I", "E"):
            spread = "...Y" if path == "I" else "...X"
            frags = ["fragment Y on Human { %s }" % clash] + (["fragment X on Human { ...Y }"] if path == "E" else [])
            zfrags = frags + ["fragment Z on Human { %s }" % same]
            for wrapper in ("inline", "named"):
                fam = {
                    # f1 (Dog, plain K), f2 (Cat, ...Y), f3 (Dog, ...Y): f1/f3 conflict whatever the order
                    "excl-then-strict": ([("Dog", plain), ("Cat", spread), ("Dog", spread)], frags, False),
                    # all three parents mutually exclusive: valid
                    "all-exclusive": ([("Dog", plain), ("Cat", spread), ("Bird", spread)], frags, True),
                    # strict comparison WITHOUT conflict (Z repeats K), exclusive one with a different field: valid
                    "strict-ok-then-excl": ([("Dog", plain), ("Dog", "...Z"), ("Cat", spread)], zfrags, True),
                }
                for name, (sels, fr, ok) in sorted(fam.items()):
                    for order in itertools.permutations(range(3)):
                        text = doc([sels[i] for i in order], fr, wrapper)
                        other = doc([sels[i] for i in reversed(order)], fr, wrapper)
                        sig = "overlapping:memo-modes:%s:%s:%s:%s:order%s" % (name, kind, path, wrapper, "".join(map(str, order)))
                        case = {"id": "memo:" + sig, "text": text, "spec_valid": ok, "sig": sig,
                                "why": "same (field map, fragment) compared under mutually exclusive AND overlapping parents"}
                        if not ok:
                            # (the valid twins are enumerated in all six orders anyway)
                            case["same_verdict_as"] = [{"text": other, "transform": "reorder_selections"}]
                            case["rules"] = ["OverlappingFieldsCanBeMergedChecker"]
                        cases.append(case)
        # (B): the set's own spread, after an exclusive comparison of the same set with the same fragment
        for wrapper in ("inline", "named"):
            frags = ["fragment Y on Human { %s }" % clash]
            sels = [("Dog", plain + " ...Y"), ("Cat", "...Y")]
            for order in ((0, 1), (1, 0)):
                text = doc([sels[i] for i in order], frags, wrapper)
                other = doc([sels[i] for i in reversed(order)], frags, wrapper)
                sig = "overlapping:memo-modes:own-spread:%s:B:%s:order%s" % (kind, wrapper, "".join(map(str, order)))
                cases.append({"id": "memo:" + sig, "text": text, "spec_valid": False, "sig": sig,
                              "rules": ["OverlappingFieldsCanBeMergedChecker"],
                              "why": "a set compared with a fragment under exclusive parents, then with its own spread of it",
                              "same_verdict_as": [{"text": other, "transform": "reorder_selections"}]})
    _MEMO_MODES = {"sdl": MEMO_MODES_SDL, "cases": cases}
    return _MEMO_MODES


class CorpusWorld:
    def __init__(self, sdl, schema):
        self.sdl = sdl
        self.schema = schema
        self._dump = None

    def dump(self):
        if self._dump is None:
            import canon_schema
            self._dump = canon_schema.dump_schema(self.schema, include_builtin=True)
        return self._dump


# ---------------------------------------------------------------------------

def run(ctx):
    collect = []   # (world, text, real result, label, feature) for the correspondence
    run_corpus(ctx, collect)
    respell_probe(ctx)
    from corr import C06_hunt1
    C06_hunt1.run(ctx)           # named probe (no randomness): literals at custom scalars of a code-built schema
    n_worlds = ctx.n(8, 40)
    docs_per_world = ctx.n(3, 6)
    budget = 17 if ctx.tier == "quick" else 175
    ctx.direct_deadline = time.time() + budget
    for i in range(n_worlds):
        if time.time() > ctx.direct_deadline:
            ctx.notes.append("direct oracle stopped after %d schemas (time)" % i)
            break
        size = 1 + i % 3
        world = World(ctx.rng, size)
        ctx.stat("schema-size=%d" % size)
        for _ in range(docs_per_world):
            if time.time() > ctx.direct_deadline:
                break
            one_document(ctx, world, 1 + ctx.rng.randint(0, 2), collect)
    import time as _t
    t1 = _t.time()
    history_pass(ctx, collect)
    t2 = _t.time()
    schema_history_pass(ctx, collect)
    t3 = _t.time()
    ctx.extra["phase_seconds"] = {"corpus+direct_oracle": round(t1 - ctx.t0, 1), "history_pass": round(t2 - t1, 1),
                                  "schema_history_pass": round(t3 - t2, 1)}
    try:
        from corr import C06_model
    except ImportError:
        C06_model = None
    if C06_model is not None:
        C06_model.run(ctx, collect)


HISTORY_NAMES = ["ZzUndefined", "Zx", "A", "B", "Fr1", "Fr2", "Y", "Zu", "Zu2", "P", "Q", "Zl", "Zk", "L", "K"]


def history_text(world):
    """a VALID document defining the names that violating documents of the run leave undefined / use once:
    validated right before a judged document, it must not influence the verdict of that document"""
    root = world.schema.query_type.name
    frs = " ".join("fragment %s on %s { __typename }" % (n, root) for n in HISTORY_NAMES)
    return "query OpX($zzv: Boolean = true, $zzUndefined: Boolean = true) { __typename @include(if: $zzv) @skip(if: $zzUndefined) %s } %s" % (
        " ".join("...%s" % n for n in HISTORY_NAMES), frs)


def history_pass(ctx, collect):
    """The verdict of a document must not depend on what was validated EARLIER in the process (no state kept across
    validations): every document of the run is validated a second time at the end, in shuffled order, a sample of them
    right after a related valid document (`history_text`); outcome and reporting rules must equal the first validation."""
    items = [it for it in collect if it[2]["outcome"] in ("ok", "errors")]
    ctx.rng.shuffle(items)
    # documents with name-based violations first, then a sample
    items.sort(key=lambda it: 0 if any(k in it[3] for k in ("known_fragment_names", "unique_", "all_variable", "no_unused")) else 1)
    cap = ctx.n(100, 700)
    hist_ok = set()
    for k, (world, text, first, label, feature) in enumerate(items[:cap]):
        if ctx.tier == "quick" and ctx.time_left() < 28:
            ctx.notes.append("history pass stopped after %d documents (time)" % k)
            break
        with_history = k % 2 == 0
        htext = None
        if with_history:
            htext = history_text(world)
            h = real_chain(world.schema, htext)
            if h["outcome"] != "ok":
                if id(world) not in hist_ok:
                    ctx.stat("history-doc-not-valid:" + h["outcome"])
                with_history = False
                htext = None
            hist_ok.add(id(world))
        again = real_chain(world.schema, text)
        ctx.count()
        ctx.stat("history:" + ("after-related-document" if with_history else "shuffled-revalidation"))
        if again["outcome"] != first["outcome"] or reporting(again) != reporting(first):
            diff = sorted(set(reporting(again)) ^ set(reporting(first)))
            ctx.fail("history-dependent:%s:%s" % (label.split(":")[0], "+".join(diff) or again["outcome"]),
                     "the verdict of a document depends on documents validated earlier in the same process",
                     {"kind": "history", "sdl": world.sdl, "text": text,
                      "history": ([htext] if htext else []) + [t for (w, t, r, _, _) in collect
                                                               if w is world and t != text and r["outcome"] in ("ok", "errors")][:60],
                      "first": first["outcome"], "first_rules": reporting(first), "again": again["outcome"],
                      "again_rules": reporting(again), "label": label, "feature": feature})


# ---------------------------------------------------------------------------
# schema histories: a DERIVED schema (clone / visibility transform / camel case) of a schema that has already
# been used for validation must validate like the same derived schema built from scratch
# ---------------------------------------------------------------------------

def derive(schema, how):
    from py_gql.schema.transforms import CamelCaseSchemaTransform, VisibilitySchemaTransform, transform_schema
    kind = how["kind"]
    if kind == "clone":
        return schema.clone()
    if kind == "camel":
        return transform_schema(schema, CamelCaseSchemaTransform())
    hidden_fields = {tuple(x) for x in how.get("fields", [])}
    hidden_types = set(how.get("types", []))

    class Hide(VisibilitySchemaTransform):
        def is_field_visible(self, typename, fieldname):
            return (typename, fieldname) not in hidden_fields

        def is_type_visible(self, name):
            return name not in hidden_types
    return transform_schema(schema, Hide())


def derivations(rng, world, texts):
    """clone, camel case, and visibility transforms hiding a field / a type that the documents of the run use"""
    import re
    out = [{"kind": "clone"}, {"kind": "camel"}]
    used = set(re.findall(r"[A-Za-z_][A-Za-z_0-9]*", " ".join(texts)))
    fields = [(t["name"], f["name"]) for t in world.desc["types"] if t["kind"] in ("object", "interface")
              for f in t["fields"]]
    fields = [x for x in fields if not (x[0] == "Query" and sum(1 for y in fields if y[0] == "Query") <= 1)]
    rng.shuffle(fields)
    pick = [x for x in fields if x[1] in used][:1] or fields[:1]
    if pick:
        # an interface field must be hidden on the implementers too, and the other way round
        name = pick[0][1]
        out.append({"kind": "hide", "fields": [list(x) for x in fields if x[1] == name], "types": []})
    members = [m for t in world.desc["types"] if t["kind"] == "union" and len(t["members"]) >= 2 for m in t["members"]]
    if members:
        out.append({"kind": "hide", "fields": [], "types": [rng.choice(members)]})
    return out


def compare_on_derived(ctx, world_sdl, source_schema, how, texts, history):
    """(#compared) - failures are recorded on ctx"""
    from py_gql import build_schema
    try:
        derived = derive(source_schema, how)
        rebuilt = build_schema(derived.to_string())
    except Exception as e:  # a transform that makes the schema invalid, or an SDL round trip problem (C11/C12/C14)
        ctx.stat("schema-history:skipped:%s:%s" % (how["kind"], type(e).__name__))
        return 0
    n = 0
    for text in texts:
        a = real_chain(derived, text)
        b = real_chain(rebuilt, text)
        n += 1
        ctx.count()
        ctx.stat("schema-history:%s:%s" % (how["kind"], a["outcome"].split(":")[0]))
        if a["outcome"] != b["outcome"] or reporting(a) != reporting(b):
            diff = sorted(set(reporting(a)) ^ set(reporting(b)))
            ctx.fail("derived-schema-differs:%s:%s" % (how["kind"] + ("-type" if how.get("types") else "-field" if how.get("fields") else ""),
                                                        "+".join(diff) or a["outcome"] + "/" + b["outcome"]),
                     "a schema derived from a schema that was already used for validation validates differently from the "
                     "same derived schema built from its SDL",
                     {"kind": "schema-history", "sdl": world_sdl, "derivation": how, "history": history[:40], "text": text,
                      "derived": a["outcome"], "derived_rules": reporting(a), "rebuilt": b["outcome"],
                      "rebuilt_rules": reporting(b)})
    return n


def schema_history_pass(ctx, collect):
    groups = {}
    for it in collect:
        if isinstance(it[0], World) and it[2]["outcome"] in ("ok", "errors"):
            groups.setdefault(id(it[0]), []).append(it)
    worlds = list(groups.values())
    ctx.rng.shuffle(worlds)
    for k, items in enumerate(worlds[:ctx.n(2, 12)]):
        if ctx.tier == "quick" and ctx.time_left() < 22:
            ctx.notes.append("schema history pass stopped after %d schemas (time)" % k)
            break
        world = items[0][0]
        texts = [it[1] for it in items]
        sample = [it[1] for it in items if it[3] == "valid"][:4] + ctx.rng.sample(texts, min(len(texts), ctx.n(8, 20)))
        for how in derivations(ctx.rng, world, texts):
            if how["kind"] == "hide":
                names = {f[1] for f in how["fields"]} | set(how["types"])
                hit = [t for t in texts if any(n in t.split() for n in names)][:6]
                cases = hit + sample[:6]
            else:
                cases = sample
            compare_on_derived(ctx, world.sdl, world.schema, how, cases, texts)


def replay(ctx, data):
    from py_gql import build_schema
    inp = data.get("input", {})
    if inp.get("part") == "model":
        from corr import C06_model
        return C06_model.replay(ctx, data)
    if inp.get("part") == "hunt1":
        from corr import C06_hunt1
        return C06_hunt1.replay(ctx, data)
    schema = build_schema(inp["sdl"])
    kind = inp.get("kind")
    if kind == "valid":
        return real_verdict(schema, inp["text"]) != "errors"
    if kind == "violation":
        res = real_chain(schema, inp["text"], parse_opts=inp.get("parse"))
        if res["outcome"] != "errors":
            return res["outcome"] != "ok"
        exp = inp.get("expected_rules") or []
        if inp.get("all_rules"):
            return set(exp) <= set(reporting(res))
        return (not exp) or bool(set(exp) & set(reporting(res)))
    if kind == "schema-history":
        for h in inp.get("history", []):
            real_chain(schema, h)
        from py_gql import build_schema as _bs
        derived = derive(schema, inp["derivation"])
        rebuilt = _bs(derived.to_string())
        a, b = real_chain(derived, inp["text"]), real_chain(rebuilt, inp["text"])
        return a["outcome"] == b["outcome"] and reporting(a) == reporting(b)
    if kind == "history":
        # fresh process: isolated validation first, then the recorded history (or the document itself twice), then again
        a = real_chain(schema, inp["text"])
        for h in (inp.get("history") or [inp["text"]]):
            real_chain(schema, h)
        b = real_chain(schema, inp["text"])
        return a["outcome"] == b["outcome"] and reporting(a) == reporting(b)
    if kind == "raises":
        return not real_verdict(schema, inp["text"]).startswith("raise")
    if kind == "respell":
        # the re-spelled text must parse and get the verdict of the plain spelling
        a, b = real_chain(schema, inp["text"]), real_chain(schema, inp["text2"])
        return a["outcome"] == b["outcome"] or a["outcome"].startswith("noparse") or a["outcome"].startswith("raise") \
            or b["outcome"].startswith("raise")
    if kind == "transform":
        a, b = real_verdict(schema, inp["text"]), real_verdict(schema, inp["text2"])
        return a == b or a.startswith("raise") or b.startswith("raise")
    return True

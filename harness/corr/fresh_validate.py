# -*- coding: utf-8 -*-
"""
Verdict of `validate_ast` in a FRESH process (no earlier validation ever ran there): a pristine server
interpreter imports py_gql once and forks one child per request, so neither module-level nor class-level
state of the validation rules can carry over from one document to the next.
"""
import json
import os
import subprocess
import sys

SERVER = r'''
import json, os, sys
sys.path.insert(0, os.environ["PYGQL_SRC"])
import py_gql
from py_gql import build_schema
from py_gql.lang import parse
from py_gql.validation import validate_ast
from py_gql.exc import GraphQLSyntaxError
out = sys.stdout
for line in sys.stdin:
    req = json.loads(line)
    pid = os.fork()
    if pid == 0:
        try:
            schema = build_schema(req["sdl"])
            try:
                doc = parse(req["text"])
            except GraphQLSyntaxError:
                res = {"status": "syntax"}
            else:
                try:
                    v = validate_ast(schema, doc)
                    res = {"status": "rejected" if v.errors else "accepted", "n": len(v.errors),
                           "first": str(v.errors[0])[:160] if v.errors else None}
                except Exception as e:
                    res = {"status": "raises:" + type(e).__name__}
        except Exception as e:
            res = {"status": "server-error:" + type(e).__name__}
        out.write(json.dumps(res) + "\n")
        out.flush()
        os._exit(0)
    os.waitpid(pid, 0)
'''


class FreshValidator:
    def __init__(self, repo_src):
        env = dict(os.environ, PYGQL_SRC=str(repo_src))
        self.p = subprocess.Popen([sys.executable, "-c", SERVER], stdin=subprocess.PIPE, stdout=subprocess.PIPE,
                                  env=env, text=True, bufsize=1)

    def verdict(self, sdl, text):
        self.p.stdin.write(json.dumps({"sdl": sdl, "text": text}) + "\n")
        self.p.stdin.flush()
        line = self.p.stdout.readline()
        if not line:
            return {"status": "server-died"}
        return json.loads(line)

    def close(self):
        try:
            self.p.stdin.close()
            self.p.wait(timeout=5)
        except Exception:  # noqa
            self.p.kill()

# -*- coding: utf-8 -*-
"""
C20 — schema-level direct oracle: generated schema + elementary edit, on the real
`diff_schema`.  For every edit (and its reverse) it checks

  * `diff(s, s')` for structurally equal s, s' is empty,
  * the edit is reported with a change of an expected class naming the edited element,
  * when nothing BREAKING is reported, every output position is at least as strict and
    every input position at least as permissive (reference semantics on abstract values),
  * the multiset of changes is independent of the order of type definitions.
"""
import copy

from gen import schema as gs

BREAKING = 2


def accepts(t, v):
    if t[0] == "nonNull":
        return v is not None and accepts(t[1], v)
    if v is None:
        return True
    if t[0] == "named":
        return v == ("leaf", t[1])
    return isinstance(v, tuple) and v[0] == "list" and all(accepts(t[1], x) for x in v[1])


def values_for(names):
    base = [None] + [("leaf", n) for n in names]
    l1 = [("list", ())] + [("list", (b,)) for b in base] + [("list", (base[1], None))]
    l2 = [("list", (x,)) for x in l1] + [("list", (l1[1], None))]
    return base + l1 + l2


def in_compat(o, n):
    vals = values_for({gs.ty_base(o), gs.ty_base(n)})
    return all(accepts(n, v) for v in vals if accepts(o, v))


def out_compat(o, n):
    vals = values_for({gs.ty_base(o), gs.ty_base(n)})
    return all(accepts(o, v) for v in vals if accepts(n, v))


# ---------------------------------------------------------------------------
# edits: each returns (new_desc, expected classes forward, expected classes reverse, element name) or None
# ---------------------------------------------------------------------------

def _objs(d, kinds=("object",)):
    return [t for t in d["types"] if t["kind"] in kinds]


def _own_fields(d, t):
    """fields of an object that are not dictated by an interface"""
    inherited = set()
    for i in t.get("interfaces", []):
        inherited |= {f["name"] for f in gs.desc_type(d, i)["fields"]}
    return [f for f in t["fields"] if f["name"] not in inherited]


def rewrap(rng, t):
    """a different wrapper structure around the same base"""
    base = gs.ty_base(t)
    for _ in range(20):
        n = gs.wrap_random(rng, base, max_depth=2, p_nn=0.5)
        if n != t:
            return n
    return gs.lst(t)


def e_add_type(rng, d):
    n = copy.deepcopy(d)
    n["types"].insert(0, {"kind": "object", "name": "NewType", "interfaces": [], "desc": None,
                          "fields": [{"name": "x", "type": gs.named("Int"), "args": [], "deprecated": None, "desc": None}]})
    return n, {"TypeAdded"}, {"TypeRemoved"}, "NewType"


def e_add_field(rng, d):
    n = copy.deepcopy(d)
    cands = _objs(n, ("object", "interface"))
    t = rng.choice(cands)
    f = {"name": "added_field", "type": gs.wrap_random(rng, "String"), "args": [], "deprecated": None, "desc": None}
    t["fields"].append(f)
    if t["kind"] == "interface":
        for o in _objs(n):
            if t["name"] in o["interfaces"]:
                o["fields"].append(copy.deepcopy(f))
    return n, {"FieldAdded"}, {"FieldRemoved"}, "added_field"


def e_retype_field(rng, d):
    n = copy.deepcopy(d)
    cands = [(t, f) for t in _objs(n) for f in _own_fields(n, t)]
    if not cands:
        return None
    t, f = rng.choice(cands)
    old = f["type"]
    f["type"] = rewrap(rng, old)
    return n, {"FieldChangedType", "<safe-out>"}, {"FieldChangedType", "<safe-out>"}, f["name"], ("out", old, f["type"])


def e_add_arg(rng, d):
    n = copy.deepcopy(d)
    cands = [(t, f) for t in _objs(n) for f in _own_fields(n, t)]
    if not cands:
        return None
    t, f = rng.choice(cands)
    req = rng.random() < 0.5
    f["args"].append({"name": "added_arg", "type": gs.nn(gs.named("Int")) if req else gs.named("Int"), "default": None, "desc": None})
    return n, {"FieldArgumentAdded"}, {"FieldArgumentRemoved"}, "added_arg", ("added-arg", req)


def e_retype_arg(rng, d):
    n = copy.deepcopy(d)
    cands = [(t, f, a) for t in _objs(n) for f in _own_fields(n, t) for a in f["args"] if a.get("default") is None]
    if not cands:
        return None
    t, f, a = rng.choice(cands)
    old = a["type"]
    a["type"] = rewrap(rng, old)
    return n, {"FieldArgumentChangedType", "<safe-in>"}, {"FieldArgumentChangedType", "<safe-in>"}, a["name"], ("in", old, a["type"])


def e_arg_default(rng, d):
    n = copy.deepcopy(d)
    cands = [(t, f, a) for t in _objs(n) for f in _own_fields(n, t) for a in f["args"]
             if gs.ty_base(a["type"]) in ("Int", "String", "Boolean") and a["type"][0] == "named"]
    if not cands:
        return None
    t, f, a = rng.choice(cands)
    new = {"Int": "12345", "String": '"changed"', "Boolean": "true"}[gs.ty_base(a["type"])]
    if a.get("default") == new:
        new = {"Int": "54321", "String": '"changed2"', "Boolean": "false"}[gs.ty_base(a["type"])]
    a["default"] = new
    return n, {"FieldArgumentDefaultValueChange"}, {"FieldArgumentDefaultValueChange"}, a["name"]


def e_add_input_field(rng, d):
    n = copy.deepcopy(d)
    t = rng.choice(_objs(n, ("input",)))
    req = rng.random() < 0.5
    t["fields"].append({"name": "added_input_field", "type": gs.nn(gs.named("Int")) if req else gs.named("Int"),
                        "default": None, "desc": None})
    # a required field invalidates defaults that omit it: drop defaults mentioning this type
    if req:
        _drop_defaults_of(n, t["name"])
    return n, {"InputFieldAdded"}, {"InputFieldRemoved"}, "added_input_field", ("added-input-field", req)


def _drop_defaults_of(d, tname):
    users = {tname}
    changed = True
    while changed:
        changed = False
        for t in _objs(d, ("input",)):
            if t["name"] not in users and any(gs.ty_base(f["type"]) in users for f in t["fields"]):
                users.add(t["name"])
                changed = True
    for t in d["types"]:
        for f in t.get("fields", []):
            if gs.ty_base(f["type"]) in users and t["kind"] == "input":
                f["default"] = None
            for a in f.get("args", []) or []:
                if gs.ty_base(a["type"]) in users:
                    a["default"] = None
    for dd in d["directives"]:
        for a in dd["args"]:
            if gs.ty_base(a["type"]) in users:
                a["default"] = None


def e_retype_input_field(rng, d):
    n = copy.deepcopy(d)
    cands = [(t, f) for t in _objs(n, ("input",)) for f in t["fields"]
             if f.get("default") is None and gs.ty_base(f["type"]) in gs.SCALARS]
    if not cands:
        return None
    t, f = rng.choice(cands)
    old = f["type"]
    f["type"] = rewrap(rng, old)
    _drop_defaults_of(n, t["name"])
    o = copy.deepcopy(d)
    _drop_defaults_of(o, t["name"])
    return n, {"InputFieldChangedType", "<safe-in>"}, {"InputFieldChangedType", "<safe-in>"}, f["name"], ("in", old, f["type"]), o


def e_add_enum_value(rng, d):
    n = copy.deepcopy(d)
    t = rng.choice(_objs(n, ("enum",)))
    t["values"].append({"name": "ADDED_VALUE", "deprecated": None, "desc": None})
    return n, {"EnumValueAdded"}, {"EnumValueRemoved"}, "ADDED_VALUE"


def e_enum_deprecation(rng, d):
    n = copy.deepcopy(d)
    t = rng.choice(_objs(n, ("enum",)))
    v = rng.choice(t["values"])
    if v["deprecated"] is None:
        v["deprecated"] = "because"
        return n, {"EnumValueDeprecated"}, {"EnumValueDeprecationRemoved"}, v["name"]
    v["deprecated"] = v["deprecated"] + " changed"
    return n, {"EnumValueDeprecationReasonChanged"}, {"EnumValueDeprecationReasonChanged"}, v["name"]


def e_field_deprecation(rng, d):
    n = copy.deepcopy(d)
    cands = [(t, f) for t in _objs(n, ("object", "interface")) for f in t["fields"]]
    t, f = rng.choice(cands)
    if f["deprecated"] is None:
        f["deprecated"] = "because"
        return n, {"FieldDeprecated"}, {"FieldDeprecationRemoved"}, f["name"]
    f["deprecated"] = f["deprecated"] + " changed"
    return n, {"FieldDeprecationReasonChanged"}, {"FieldDeprecationReasonChanged"}, f["name"]


def e_union_member(rng, d):
    n = copy.deepcopy(d)
    us = _objs(n, ("union",))
    if not us:
        return None
    u = rng.choice(us)
    cands = [o["name"] for o in _objs(n) if o["name"] not in u["members"] and o["name"] not in ("Query", "Mutation")]
    if not cands:
        return None
    m = rng.choice(cands)
    u["members"].append(m)
    return n, {"TypeAddedToUnion"}, {"TypeRemovedFromUnion"}, m


def e_implement_interface(rng, d):
    n = copy.deepcopy(d)
    ifs = _objs(n, ("interface",))
    if not ifs:
        return None
    i = rng.choice(ifs)
    cands = [o for o in _objs(n) if i["name"] not in o["interfaces"]]
    if not cands:
        return None
    o = rng.choice(cands)
    o["interfaces"].append(i["name"])
    have = {f["name"] for f in o["fields"]}
    for f in i["fields"]:
        if f["name"] not in have:
            o["fields"].append(copy.deepcopy(f))
    return n, {"TypeAddedToInterface"}, {"TypeRemovedFromInterface"}, o["name"]


def e_add_directive(rng, d):
    n = copy.deepcopy(d)
    n["directives"].append({"name": "addedDirective", "locations": ["FIELD"], "args": [], "desc": None})
    return n, {"DirectiveAdded"}, {"DirectiveRemoved"}, "addedDirective"


def e_directive_location(rng, d):
    n = copy.deepcopy(d)
    if not n["directives"]:
        return None
    dd = rng.choice(n["directives"])
    cands = [l for l in ["FIELD", "QUERY", "SUBSCRIPTION", "SCHEMA", "SCALAR", "INTERFACE", "UNION"] if l not in dd["locations"]]
    loc = rng.choice(cands)
    dd["locations"].append(loc)
    return n, {"DirectiveLocationAdded"}, {"DirectiveLocationRemoved"}, loc


def e_directive_arg(rng, d):
    n = copy.deepcopy(d)
    if not n["directives"]:
        return None
    dd = rng.choice(n["directives"])
    req = rng.random() < 0.5
    dd["args"].append({"name": "added_darg", "type": gs.nn(gs.named("Int")) if req else gs.named("Int"), "default": None, "desc": None})
    return n, {"DirectiveArgumentAdded"}, {"DirectiveArgumentRemoved"}, "added_darg", ("added-arg", req)


def e_retype_directive_arg(rng, d):
    n = copy.deepcopy(d)
    cands = [(dd, a) for dd in n["directives"] for a in dd["args"] if a.get("default") is None]
    if not cands:
        return None
    dd, a = rng.choice(cands)
    old = a["type"]
    a["type"] = rewrap(rng, old)
    return n, {"DirectiveArgumentChangedType", "<safe-in>"}, {"DirectiveArgumentChangedType", "<safe-in>"}, a["name"], ("in", old, a["type"])


def e_change_kind(rng, d):
    n = copy.deepcopy(d)
    cands = [t for t in n["types"] if t["kind"] == "scalar"]
    if not cands:
        return None
    t = rng.choice(cands)
    _drop_defaults_of(n, t["name"])
    o = copy.deepcopy(n)
    name = t["name"]
    t2 = gs.desc_type(n, name)
    t2.clear()
    t2.update({"kind": "enum", "name": name, "values": [{"name": "ONLY", "deprecated": None, "desc": None}], "desc": None})
    return n, {"TypeChangedKind"}, {"TypeChangedKind"}, name, None, o


EDITS = [e_add_type, e_add_field, e_retype_field, e_add_arg, e_retype_arg, e_arg_default, e_add_input_field,
         e_retype_input_field, e_add_enum_value, e_enum_deprecation, e_field_deprecation, e_union_member,
         e_implement_interface, e_add_directive, e_directive_location, e_directive_arg, e_retype_directive_arg,
         e_change_kind]


def change_key(c):
    """Identifying attributes of a SchemaChange object, read generically (attr name, element name)."""
    out = []
    for attr, v in sorted(vars(c).items()):
        if attr == "severity" or attr.endswith("_str") or isinstance(v, type):
            continue
        if isinstance(v, str):
            out.append([attr, v])
        elif hasattr(v, "name"):
            out.append([attr, v.name])
        else:
            out.append([attr, "?" + type(v).__name__])
    return out


def model_pair(old_sdl, new_sdl):
    """(real changes with keys, request for the Lean diff model)"""
    import canon_schema as cs
    from py_gql import build_schema
    from py_gql.schema.differ import diff_schema
    o, n = build_schema(old_sdl), build_schema(new_sdl)
    real = sorted([type(c).__name__, int(c.severity), change_key(c)] for c in diff_schema(o, n))
    req = {"op": "diff", "min": 0, "old": cs.dump_schema(o, include_builtin=True), "new": cs.dump_schema(n, include_builtin=True)}
    for side in ("old", "new"):
        req[side]["directives"] = [d for d in req[side]["directives"] if d["name"] not in ("include", "skip", "deprecated")]
    return real, req


def changes(old_sdl, new_sdl, min_severity=None):
    from py_gql import build_schema
    from py_gql.schema.differ import diff_schema
    o, n = build_schema(old_sdl), build_schema(new_sdl)
    return [(type(c).__name__, int(c.severity), str(c.message)) for c in diff_schema(o, n, min_severity=min_severity)]


def check_pair(ctx, rng, edit_name, old_d, new_d, expected, element, extra, direction):
    """Evaluate the statement on one ordered pair. Returns list of (signature, what) failures."""
    fails = []
    old_sdl, new_sdl = gs.to_sdl(old_d), gs.to_sdl(new_d)
    try:
        ch = changes(old_sdl, new_sdl)
    except Exception as e:  # the edit produced an invalid schema or the differ raised
        from py_gql.exc import GraphQLError
        if isinstance(e, GraphQLError) or type(e).__name__ in ("SchemaError", "SchemaValidationError", "SDLError"):
            ctx.stat("edit-invalid-schema")
            return None
        return [("differ-raises:%s:%s" % (edit_name, type(e).__name__), "diff_schema raised %r" % e)]
    classes = {c[0] for c in ch}
    safe_marker = {e for e in expected if e.startswith("<")}
    real_expected = expected - safe_marker
    named = [c for c in ch if c[0] in real_expected and element in c[2]]
    if extra and extra[0] in ("in", "out"):
        pos, ot, nt = extra
        if direction == "rev":
            ot, nt = nt, ot
        compat = in_compat(ot, nt) if pos == "in" else out_compat(ot, nt)
        if not named and not compat:
            fails.append(("unsafe-%sput-retype-not-breaking:%s" % (pos, divergence(ot, nt, pos)),
                          "%s position retyped %s -> %s, incompatible, but no breaking change names it"
                          % (pos, gs.ty_str(ot), gs.ty_str(nt))))
    elif not named:
        fails.append(("edit-not-reported:%s:%s" % (edit_name, direction),
                      "edit %s (%s) of element %s not reported by a change of class %s; got %s"
                      % (edit_name, direction, element, sorted(real_expected), sorted(classes))))
    if extra and extra[0] in ("added-arg", "added-input-field") and direction == "fwd" and named:
        req = extra[1]
        sev = named[0][1]
        if req and sev != BREAKING:
            fails.append(("required-addition-not-breaking:%s" % edit_name, "required %s added but severity %d" % (extra[0], sev)))
    # order independence
    perm = list(range(gs.n_definitions(old_d)))
    rng.shuffle(perm)
    perm2 = list(range(gs.n_definitions(new_d)))
    rng.shuffle(perm2)
    try:
        ch2 = changes(gs.to_sdl(old_d, order=perm), gs.to_sdl(new_d, order=perm2))
        if sorted(ch2) != sorted(ch):
            fails.append(("order-dependent:%s" % edit_name, "changes differ after permuting definitions: %s vs %s"
                          % (sorted(set(ch) - set(ch2)), sorted(set(ch2) - set(ch)))))
    except Exception as e:
        fails.append(("differ-raises-permuted:%s:%s" % (edit_name, type(e).__name__), repr(e)))
    # min_severity filter is a filter
    try:
        chb = changes(old_sdl, new_sdl, min_severity=BREAKING)
        if sorted(chb) != sorted(c for c in ch if c[1] >= BREAKING):
            fails.append(("min-severity-not-a-filter:%s" % edit_name, "min_severity=BREAKING is not the BREAKING subset"))
    except Exception as e:
        fails.append(("differ-raises-min-severity:%s" % type(e).__name__, repr(e)))
    if ctx.model_ok:
        try:
            real, req = model_pair(old_sdl, new_sdl)
            ctx.pending_model.append((edit_name, direction, real, req, old_sdl, new_sdl))
        except Exception as e:  # noqa
            ctx.stat("model-pair-skipped:" + type(e).__name__)
    ctx.nontrivial(("edit", edit_name, direction, tuple(sorted(classes))))
    for c in classes:
        ctx.stat("change:" + c)
    return fails


def divergence(o, n, pos, ctxt="top"):
    """Where and how two type expressions first diverge in a way that matters for `pos`."""
    if o[0] == "list" and n[0] == "list":
        return divergence(o[1], n[1], pos, "item")
    if o[0] == "nonNull" and n[0] == "nonNull":
        return divergence(o[1], n[1], pos, ctxt)
    if o[0] == "named" and n[0] == "named":
        return "%s:%s" % (ctxt, "same" if o[1] == n[1] else "name-changed")
    if o[0] == "nonNull":
        # non-null dropped: fine for inputs, loosening for outputs
        if pos == "out":
            return "%s:nonnull-dropped" % ctxt
        return divergence(o[1], n, pos, ctxt)
    if n[0] == "nonNull":
        if pos == "in":
            return "%s:nonnull-added" % ctxt
        return divergence(o, n[1], pos, ctxt)
    return "%s:kind-changed" % ctxt


def shape(t):
    return "N" if t[0] == "named" else ("L(%s)" % shape(t[1]) if t[0] == "list" else "%s!" % shape(t[1]))


def one_case(ctx, seed, want=None):
    import random
    rng = random.Random(seed)
    d = gs.gen_schema(rng, size=rng.randint(1, 3))
    edit = rng.choice(EDITS) if want is None else [e for e in EDITS if e.__name__ == want][0]
    r = edit(rng, d)
    if r is None:
        ctx.stat("edit-not-applicable")
        return []
    new_d, exp_f, exp_r, element = r[:4]
    extra = r[4] if len(r) > 4 else None
    old_d = r[5] if len(r) > 5 else d
    out = []
    # reflexivity on a structurally equal rebuilt copy
    try:
        same = changes(gs.to_sdl(old_d), gs.to_sdl(copy.deepcopy(old_d)))
        if same:
            out.append(("diff-of-equal-schemas-nonempty", "diff(s, s) reported %s" % same[:3]))
    except Exception as e:
        out.append(("differ-raises-on-equal:%s" % type(e).__name__, repr(e)))
    for direction, (a, b, exp) in (("fwd", (old_d, new_d, exp_f)), ("rev", (new_d, old_d, exp_r))):
        f = check_pair(ctx, rng, edit.__name__, a, b, exp, element, extra, direction)
        if f is None:
            return out
        out += f
    ctx.stat("edit:" + edit.__name__)
    return out


def flush_model(ctx):
    """correspondence: real diff_schema vs the Lean model of it, as multisets of (class, severity, key)"""
    pend = ctx.pending_model
    if not pend:
        return
    answers = ctx.driver.ask([p[3] for p in pend])
    for (edit_name, direction, real, req, old_sdl, new_sdl), ans in zip(pend, answers):
        model = sorted([c["cls"], c["sev"], c["key"]] for c in ans.get("changes", []))
        ctx.count()
        if model != real:
            only_real = [c for c in real if c not in model]
            only_model = [c for c in model if c not in real]
            cls = sorted({c[0] for c in only_real + only_model})
            ctx.fail("corr:diff-model:%s" % ",".join(cls), "diff_schema and its Lean model report different changes",
                     {"old_sdl": old_sdl, "new_sdl": new_sdl, "only_real": only_real[:5], "only_model": only_model[:5]},
                     kind="correspondence")
    ctx.extra["diff_model_pairs_compared"] = ctx.extra.get("diff_model_pairs_compared", 0) + len(pend)
    ctx.pending_model = []


def run(ctx):
    ctx.pending_model = []
    try:
        _run(ctx)
    finally:
        if ctx.model_ok:
            flush_model(ctx)


def _run(ctx):
    n = ctx.n(150, 2500)
    base = ctx.rng.randrange(1 << 30)
    for i in range(n):
        if ctx.out_of_time():
            ctx.notes.append("schema-level loop stopped by budget after %d cases" % i)
            break
        seed = base + i
        ctx.count()
        for sig, what in one_case(ctx, seed):
            ctx.fail(sig, what, {"schema_case_seed": seed, "what": what})
        if i < 2:
            import random
            rng = random.Random(seed)
            d = gs.gen_schema(rng, size=rng.randint(1, 3))
            ctx.sample({"schema_case_seed": seed, "sdl_head": gs.to_sdl(d)[:300]})


def replay(ctx, data):
    inp = data.get("input", {})
    ctx.pending_model = []
    if "schema_case_seed" in inp:
        fails = one_case(ctx, inp["schema_case_seed"])
        return not fails
    return True

# -*- coding: utf-8 -*-
"""
C20 — schema-level direct oracle: generated schema + elementary edit, on the real
`diff_schema`.  For every edit (and its reverse) it checks

  * `diff(s, s')` for structurally equal s, s' is empty,
  * the edit is reported with a change of an expected class naming the edited element,
  * when nothing BREAKING is reported, every output position is at least as strict and
    every input position at least as permissive (reference semantics on abstract values),
  * the multiset of changes is independent of the order of type definitions.
"""
import copy
import json
import os

from gen import schema as gs

BREAKING = 2
MUST_BREAK = {"TypeChangedKind", "TypeRemoved", "TypeRemovedFromUnion", "TypeRemovedFromInterface", "EnumValueRemoved",
              "DirectiveRemoved", "DirectiveLocationRemoved", "DirectiveArgumentRemoved", "DirectiveArgumentChangedType",
              "FieldArgumentRemoved", "FieldArgumentChangedType", "FieldChangedType", "FieldRemoved", "InputFieldRemoved",
              "InputFieldChangedType", "RootTypeChanged", "RootTypeRemoved"}


def accepts(t, v):
    if t[0] == "nonNull":
        return v is not None and accepts(t[1], v)
    if v is None:
        return True
    if t[0] == "named":
        return v == ("leaf", t[1])
    return isinstance(v, tuple) and v[0] == "list" and all(accepts(t[1], x) for x in v[1])


def values_for(names):
    base = [None] + [("leaf", n) for n in names]
    l1 = [("list", ())] + [("list", (b,)) for b in base] + [("list", (base[1], None))]
    l2 = [("list", (x,)) for x in l1] + [("list", (l1[1], None))]
    return base + l1 + l2


def in_compat(o, n):
    vals = values_for({gs.ty_base(o), gs.ty_base(n)})
    return all(accepts(n, v) for v in vals if accepts(o, v))


def out_compat(o, n):
    vals = values_for({gs.ty_base(o), gs.ty_base(n)})
    return all(accepts(o, v) for v in vals if accepts(n, v))


# ---------------------------------------------------------------------------
# edits: each returns (new_desc, expected classes forward, expected classes reverse, element name) or None
# ---------------------------------------------------------------------------

def _objs(d, kinds=("object",)):
    return [t for t in d["types"] if t["kind"] in kinds]


def _own_fields(d, t):
    """fields of an object that are not dictated by an interface"""
    inherited = set()
    for i in t.get("interfaces", []):
        inherited |= {f["name"] for f in gs.desc_type(d, i)["fields"]}
    return [f for f in t["fields"] if f["name"] not in inherited]


def rewrap(rng, t):
    """a different wrapper structure around the same base"""
    base = gs.ty_base(t)
    for _ in range(20):
        n = gs.wrap_random(rng, base, max_depth=2, p_nn=0.5)
        if n != t:
            return n
    return gs.lst(t)


def e_add_type(rng, d):
    n = copy.deepcopy(d)
    n["types"].insert(0, {"kind": "object", "name": "NewType", "interfaces": [], "desc": None,
                          "fields": [{"name": "x", "type": gs.named("Int"), "args": [], "deprecated": None, "desc": None}]})
    return n, {"TypeAdded"}, {"TypeRemoved"}, "NewType"


def e_add_field(rng, d):
    n = copy.deepcopy(d)
    cands = _objs(n, ("object", "interface"))
    t = rng.choice(cands)
    f = {"name": "added_field", "type": gs.wrap_random(rng, "String"), "args": [], "deprecated": None, "desc": None}
    t["fields"].append(f)
    if t["kind"] == "interface":
        for o in _objs(n):
            if t["name"] in o["interfaces"]:
                o["fields"].append(copy.deepcopy(f))
    return n, {"FieldAdded"}, {"FieldRemoved"}, "added_field"


def e_retype_field(rng, d):
    n = copy.deepcopy(d)
    cands = [(t, f) for t in _objs(n) for f in _own_fields(n, t)]
    if not cands:
        return None
    t, f = rng.choice(cands)
    old = f["type"]
    f["type"] = rewrap(rng, old)
    return n, {"FieldChangedType", "<safe-out>"}, {"FieldChangedType", "<safe-out>"}, f["name"], ("out", old, f["type"])


def e_add_arg(rng, d):
    n = copy.deepcopy(d)
    cands = [(t, f) for t in _objs(n) for f in _own_fields(n, t)]
    if not cands:
        return None
    t, f = rng.choice(cands)
    req = rng.random() < 0.5
    f["args"].append({"name": "added_arg", "type": gs.nn(gs.named("Int")) if req else gs.named("Int"), "default": None, "desc": None})
    return n, {"FieldArgumentAdded"}, {"FieldArgumentRemoved"}, "added_arg", ("added-arg", req)


def e_retype_arg(rng, d):
    n = copy.deepcopy(d)
    cands = [(t, f, a) for t in _objs(n) for f in _own_fields(n, t) for a in f["args"] if a.get("default") is None]
    if not cands:
        return None
    t, f, a = rng.choice(cands)
    old = a["type"]
    a["type"] = rewrap(rng, old)
    return n, {"FieldArgumentChangedType", "<safe-in>"}, {"FieldArgumentChangedType", "<safe-in>"}, a["name"], ("in", old, a["type"])


def e_arg_default(rng, d):
    n = copy.deepcopy(d)
    cands = [(t, f, a) for t in _objs(n) for f in _own_fields(n, t) for a in f["args"]
             if gs.ty_base(a["type"]) in ("Int", "String", "Boolean") and a["type"][0] == "named"]
    if not cands:
        return None
    t, f, a = rng.choice(cands)
    new = {"Int": "12345", "String": '"changed"', "Boolean": "true"}[gs.ty_base(a["type"])]
    if a.get("default") == new:
        new = {"Int": "54321", "String": '"changed2"', "Boolean": "false"}[gs.ty_base(a["type"])]
    a["default"] = new
    return n, {"FieldArgumentDefaultValueChange"}, {"FieldArgumentDefaultValueChange"}, a["name"]


def e_required_by_default_removal(rng, d):
    """the default value of a NON-NULL argument / input field / directive argument is removed: the element becomes
    required, operations relying on the default become invalid -> BREAKING (reverse: a default is added: not breaking)"""
    n = copy.deepcopy(d)
    cands = []
    for t in _objs(n):
        for f in _own_fields(n, t):
            for a in f["args"]:
                if a["type"][0] == "nonNull" and a.get("default") is not None:
                    cands.append(("FieldArgumentDefaultValueChange", a))
    for t in _objs(n, ("input",)):
        for f in t["fields"]:
            if f["type"][0] == "nonNull" and f.get("default") is not None:
                cands.append(("InputFieldDefaultValueChange", f))
    for dd in n["directives"]:
        for a in dd["args"]:
            if a["type"][0] == "nonNull" and a.get("default") is not None:
                cands.append(("DirectiveArgumentDefaultValueChange", a))
    if not cands:
        return None
    cls, a = rng.choice(cands)
    a["default"] = None
    return n, {cls}, {cls}, a["name"], ("became-required", cls)


def e_null_default(rng, d):
    """add (fwd) / remove (rev) an explicit `= null` default on a nullable argument, input field or directive argument"""
    n = copy.deepcopy(d)
    cands = []
    for t in _objs(n):
        for f in _own_fields(n, t):
            for a in f["args"]:
                if a["type"][0] != "nonNull" and a.get("default") is None:
                    cands.append(("FieldArgumentDefaultValueChange", a))
    for t in _objs(n, ("input",)):
        for f in t["fields"]:
            if f["type"][0] != "nonNull" and f.get("default") is None:
                cands.append(("InputFieldDefaultValueChange", f))
    for dd in n["directives"]:
        for a in dd["args"]:
            if a["type"][0] != "nonNull" and a.get("default") is None:
                cands.append(("DirectiveArgumentDefaultValueChange", a))
    if not cands:
        return None
    cls, a = rng.choice(cands)
    a["default"] = "null"
    return n, {cls}, {cls}, a["name"]


def e_add_input_field(rng, d):
    n = copy.deepcopy(d)
    t = rng.choice(_objs(n, ("input",)))
    req = rng.random() < 0.5
    t["fields"].append({"name": "added_input_field", "type": gs.nn(gs.named("Int")) if req else gs.named("Int"),
                        "default": None, "desc": None})
    # a required field invalidates defaults that omit it: drop defaults mentioning this type
    if req:
        _drop_defaults_of(n, t["name"])
    return n, {"InputFieldAdded"}, {"InputFieldRemoved"}, "added_input_field", ("added-input-field", req)


def _drop_defaults_of(d, tname):
    users = {tname}
    changed = True
    while changed:
        changed = False
        for t in _objs(d, ("input",)):
            if t["name"] not in users and any(gs.ty_base(f["type"]) in users for f in t["fields"]):
                users.add(t["name"])
                changed = True
    for t in d["types"]:
        for f in t.get("fields", []):
            if gs.ty_base(f["type"]) in users and t["kind"] == "input":
                f["default"] = None
            for a in f.get("args", []) or []:
                if gs.ty_base(a["type"]) in users:
                    a["default"] = None
    for dd in d["directives"]:
        for a in dd["args"]:
            if gs.ty_base(a["type"]) in users:
                a["default"] = None


def e_retype_input_field(rng, d):
    n = copy.deepcopy(d)
    cands = [(t, f) for t in _objs(n, ("input",)) for f in t["fields"]
             if f.get("default") is None and gs.ty_base(f["type"]) in gs.SCALARS]
    if not cands:
        return None
    t, f = rng.choice(cands)
    old = f["type"]
    f["type"] = rewrap(rng, old)
    _drop_defaults_of(n, t["name"])
    o = copy.deepcopy(d)
    _drop_defaults_of(o, t["name"])
    return n, {"InputFieldChangedType", "<safe-in>"}, {"InputFieldChangedType", "<safe-in>"}, f["name"], ("in", old, f["type"]), o


def e_add_enum_value(rng, d):
    n = copy.deepcopy(d)
    t = rng.choice(_objs(n, ("enum",)))
    t["values"].append({"name": "ADDED_VALUE", "deprecated": None, "desc": None})
    return n, {"EnumValueAdded"}, {"EnumValueRemoved"}, "ADDED_VALUE"


def e_enum_deprecation(rng, d):
    n = copy.deepcopy(d)
    t = rng.choice(_objs(n, ("enum",)))
    v = rng.choice(t["values"])
    if v["deprecated"] is None:
        # an EMPTY reason is a deprecation like any other (`deprecated` is `reason is not None`)
        v["deprecated"] = rng.choice(["because", ""])
        return n, {"EnumValueDeprecated"}, {"EnumValueDeprecationRemoved"}, v["name"]
    v["deprecated"] = "" if (v["deprecated"] != "" and rng.random() < 0.4) else v["deprecated"] + " changed"
    return n, {"EnumValueDeprecationReasonChanged"}, {"EnumValueDeprecationReasonChanged"}, v["name"]


def e_field_deprecation(rng, d):
    n = copy.deepcopy(d)
    cands = [(t, f) for t in _objs(n, ("object", "interface")) for f in t["fields"]]
    t, f = rng.choice(cands)
    if f["deprecated"] is None:
        f["deprecated"] = rng.choice(["because", ""])
        return n, {"FieldDeprecated"}, {"FieldDeprecationRemoved"}, f["name"]
    f["deprecated"] = "" if (f["deprecated"] != "" and rng.random() < 0.4) else f["deprecated"] + " changed"
    return n, {"FieldDeprecationReasonChanged"}, {"FieldDeprecationReasonChanged"}, f["name"]


def _iface_arg_cands(n, optional_everywhere):
    """(interface, field, argument) triples; with `optional_everywhere` only arguments every implementer keeps as an
    OPTIONAL argument (so that removing the argument from the interface alone leaves a valid schema)"""
    out = []
    for i in _objs(n, ("interface",)):
        impls = [o for o in _objs(n) if i["name"] in o["interfaces"]]
        for f in i["fields"]:
            for a in f.get("args") or []:
                ok = True
                if optional_everywhere:
                    for o in impls:
                        of = [x for x in o["fields"] if x["name"] == f["name"]]
                        oa = [x for x in (of[0].get("args") or []) if x["name"] == a["name"]] if of else []
                        if not oa or (oa[0]["type"][0] == "nonNull" and oa[0].get("default") is None):
                            ok = False
                if ok:
                    out.append((i, f, a))
    return out


def e_interface_arg_removed(rng, d):
    """an argument is removed from an INTERFACE field only (implementers keep it as an additional optional argument)"""
    n = copy.deepcopy(d)
    cands = _iface_arg_cands(n, True)
    if not cands:
        return None
    i, f, a = rng.choice(cands)
    f["args"] = [x for x in f["args"] if x["name"] != a["name"]]
    return n, {"FieldArgumentRemoved"}, {"FieldArgumentAdded"}, a["name"], ("iface-arg", i["name"])


def e_interface_arg_default(rng, d):
    """the default value of an INTERFACE field argument changes (implementers untouched)"""
    n = copy.deepcopy(d)
    cands = [(i, f, a) for i, f, a in _iface_arg_cands(n, False)
             if (gs.ty_base(a["type"]) in ("Int", "String", "Boolean") and a["type"][0] == "named")
             or (a["type"][0] != "nonNull" and a.get("default") is None)]
    if not cands:
        return None
    i, f, a = rng.choice(cands)
    if gs.ty_base(a["type"]) in ("Int", "String", "Boolean") and a["type"][0] == "named":
        new = {"Int": "12345", "String": '"changed"', "Boolean": "true"}[gs.ty_base(a["type"])]
        if a.get("default") == new:
            new = {"Int": "54321", "String": '"changed2"', "Boolean": "false"}[gs.ty_base(a["type"])]
    else:
        new = "null"   # explicit null default on a nullable argument
    a["default"] = new
    return n, {"FieldArgumentDefaultValueChange"}, {"FieldArgumentDefaultValueChange"}, a["name"], ("iface-arg", i["name"])


def e_union_member(rng, d):
    n = copy.deepcopy(d)
    us = _objs(n, ("union",))
    if not us:
        return None
    u = rng.choice(us)
    cands = [o["name"] for o in _objs(n) if o["name"] not in u["members"] and o["name"] not in ("Query", "Mutation")]
    if not cands:
        return None
    m = rng.choice(cands)
    u["members"].append(m)
    return n, {"TypeAddedToUnion"}, {"TypeRemovedFromUnion"}, m


def e_implement_interface(rng, d):
    n = copy.deepcopy(d)
    ifs = _objs(n, ("interface",))
    if not ifs:
        return None
    i = rng.choice(ifs)
    cands = [o for o in _objs(n) if i["name"] not in o["interfaces"]]
    if not cands:
        return None
    o = rng.choice(cands)
    o["interfaces"].append(i["name"])
    have = {f["name"] for f in o["fields"]}
    for f in i["fields"]:
        if f["name"] not in have:
            o["fields"].append(copy.deepcopy(f))
    return n, {"TypeAddedToInterface"}, {"TypeRemovedFromInterface"}, o["name"]


def e_add_directive(rng, d):
    n = copy.deepcopy(d)
    # executable-only, type-system-only and MIXED location sets: removing any of them takes something away from clients
    locs = rng.choice([["FIELD"], ["FIELD_DEFINITION"], ["FIELD", "FIELD_DEFINITION"], ["INLINE_FRAGMENT", "ENUM_VALUE"],
                       ["QUERY", "FIELD", "OBJECT", "ARGUMENT_DEFINITION"]])
    n["directives"].append({"name": "addedDirective", "locations": locs, "args": [], "desc": None})
    return n, {"DirectiveAdded"}, {"DirectiveRemoved"}, "addedDirective"


def e_remove_interface(rng, d):
    """COMBINED edit: an interface is deleted and every object that implemented it stops doing so (fields stay). Every
    elementary part must be reported: the type removal AND each lost implementation."""
    n = copy.deepcopy(d)
    ifs = [i for i in _objs(n, ("interface",))
           if any(i["name"] in o["interfaces"] for o in _objs(n))
           and not any(gs.ty_base(f["type"]) == i["name"] for t in n["types"] for f in t.get("fields", []))
           and not any(i["name"] in u.get("members", []) for u in _objs(n, ("union",)))]
    if not ifs:
        return None
    i = rng.choice(ifs)
    n["types"] = [t for t in n["types"] if t["name"] != i["name"]]
    impls = []
    for o in _objs(n):
        if i["name"] in o["interfaces"]:
            o["interfaces"] = [x for x in o["interfaces"] if x != i["name"]]
            impls.append(o["name"])
    return (n, {"TypeRemoved", "TypeRemovedFromInterface"}, {"TypeAdded", "TypeAddedToInterface"}, i["name"],
            ("all-of", {"fwd": ["TypeRemoved"] + ["TypeRemovedFromInterface"] * len(impls),
                        "rev": ["TypeAdded"] + ["TypeAddedToInterface"] * len(impls)}))


def e_directive_location(rng, d):
    n = copy.deepcopy(d)
    if not n["directives"]:
        return None
    dd = rng.choice(n["directives"])
    cands = [l for l in ["FIELD", "QUERY", "SUBSCRIPTION", "SCHEMA", "SCALAR", "INTERFACE", "UNION"] if l not in dd["locations"]]
    loc = rng.choice(cands)
    dd["locations"].append(loc)
    return n, {"DirectiveLocationAdded"}, {"DirectiveLocationRemoved"}, loc


def e_directive_arg(rng, d):
    n = copy.deepcopy(d)
    if not n["directives"]:
        return None
    dd = rng.choice(n["directives"])
    req = rng.random() < 0.5
    dd["args"].append({"name": "added_darg", "type": gs.nn(gs.named("Int")) if req else gs.named("Int"), "default": None, "desc": None})
    return n, {"DirectiveArgumentAdded"}, {"DirectiveArgumentRemoved"}, "added_darg", ("added-arg", req)


def e_retype_directive_arg(rng, d):
    n = copy.deepcopy(d)
    cands = [(dd, a) for dd in n["directives"] for a in dd["args"] if a.get("default") is None]
    if not cands:
        return None
    dd, a = rng.choice(cands)
    old = a["type"]
    a["type"] = rewrap(rng, old)
    return n, {"DirectiveArgumentChangedType", "<safe-in>"}, {"DirectiveArgumentChangedType", "<safe-in>"}, a["name"], ("in", old, a["type"])


def e_change_kind(rng, d):
    n = copy.deepcopy(d)
    cands = [t for t in n["types"] if t["kind"] == "scalar"]
    if not cands:
        return None
    t = rng.choice(cands)
    _drop_defaults_of(n, t["name"])
    o = copy.deepcopy(n)
    name = t["name"]
    t2 = gs.desc_type(n, name)
    t2.clear()
    t2.update({"kind": "enum", "name": name, "values": [{"name": "ONLY", "deprecated": None, "desc": None}], "desc": None})
    return n, {"TypeChangedKind"}, {"TypeChangedKind"}, name, None, o


def e_root_repoint(rng, d):
    """the root operation type of one operation kind is re-pointed to another object type (both stay defined)"""
    n = copy.deepcopy(d)
    ops = [op for op in ("query", "mutation", "subscription") if n.get(op)]
    op = rng.choice(ops)
    roots = {n.get(k) for k in ("query", "mutation", "subscription")}
    cands = [o["name"] for o in _objs(n) if o["name"] not in roots and o["fields"]]
    if not cands:
        return None
    target = rng.choice(cands)
    n[op] = target
    return n, {"RootTypeChanged"}, {"RootTypeChanged"}, target


def e_root_added(rng, d):
    """a mutation / subscription root is added (reverse: removed, which takes a whole operation kind away)"""
    n = copy.deepcopy(d)
    free = [op for op in ("mutation", "subscription") if not n.get(op)]
    if not free:
        return None
    op = rng.choice(free)
    roots = {n.get(k) for k in ("query", "mutation", "subscription")}
    cands = [o["name"] for o in _objs(n) if o["name"] not in roots and o["fields"]]
    if not cands:
        return None
    target = rng.choice(cands)
    n[op] = target
    return n, {"RootTypeAdded"}, {"RootTypeRemoved"}, target


EDITS = [e_root_repoint, e_root_added, e_required_by_default_removal, e_remove_interface, e_interface_arg_removed, e_interface_arg_default, e_add_type, e_add_field, e_retype_field, e_add_arg, e_retype_arg, e_arg_default, e_null_default, e_add_input_field,
         e_retype_input_field, e_add_enum_value, e_enum_deprecation, e_field_deprecation, e_union_member,
         e_implement_interface, e_add_directive, e_directive_location, e_directive_arg, e_retype_directive_arg,
         e_change_kind]


def change_key(c):
    """Identifying attributes of a SchemaChange object, read generically (attr name, element name)."""
    out = []
    for attr, v in sorted(vars(c).items()):
        if attr == "severity" or attr.endswith("_str") or isinstance(v, type):
            continue
        if isinstance(v, str):
            out.append([attr, v])
        elif hasattr(v, "name"):
            out.append([attr, v.name])
        else:
            out.append([attr, "?" + type(v).__name__])
    return out


def gql_canon_default(value, type_):
    """The default `value` of a position of type `type_` as a GraphQL value, independently of the library's printer:
    what two defaults must agree on to be 'the same default' (Float 1 = 1.0, ID 1 = "1", an enum member is its NAME,
    input objects are keyed by field NAME, custom scalars keep the Python kind of every leaf)."""
    import canon_schema as cs
    from py_gql.schema import NonNullType, ListType, EnumType, InputObjectType, ScalarType
    if isinstance(type_, NonNullType):
        return gql_canon_default(value, type_.type)
    if value is None:
        return None
    if isinstance(type_, ListType):
        if isinstance(value, (list, tuple)):
            return [gql_canon_default(v, type_.type) for v in value]
        return [gql_canon_default(value, type_.type)]
    if isinstance(type_, EnumType):
        for ev in type_.values:
            if ev.value == value and type(ev.value) is type(value):
                return {"$enum": ev.name}
        for ev in type_.values:
            if ev.value == value:
                return {"$enum": ev.name}
        return {"$repr": "not-a-member"}
    if isinstance(type_, InputObjectType):
        out = {}
        if not isinstance(value, dict):
            return {"$repr": "not-a-dict"}
        for f in type_.fields:
            key = f.python_name if f.python_name in value else (f.name if f.name in value else None)
            if key is not None:
                out[f.name] = gql_canon_default(value[key], f.type)
        return out
    if isinstance(type_, ScalarType):
        n = type_.name
        try:
            if n == "Float" and isinstance(value, (int, float)) and not isinstance(value, bool):
                return {"$float": repr(float(value))}
            if n == "Int" and isinstance(value, (int, float)) and not isinstance(value, bool) and float(value) == int(value):
                return int(value)
            if n == "ID" and isinstance(value, (int, str)) and not isinstance(value, bool):
                return str(value)
        except (OverflowError, ValueError):
            pass
        if n in ("Int", "Float", "String", "Boolean", "ID"):
            return cs.canon_value(value)
        try:
            return cs.canon_value(type_.serialize(value))
        except Exception:
            return cs.canon_value(value)
    return cs.canon_value(value)


def dump_for_diff(schema):
    """`canon_schema.dump_schema` with every default replaced by its GraphQL-value canonical form"""
    import canon_schema as cs
    from py_gql.schema import ObjectType, InterfaceType, InputObjectType
    d = cs.dump_schema(schema, include_builtin=True)
    d["directives"] = [x for x in d["directives"] if x["name"] not in ("include", "skip", "deprecated")]

    def patch(dumped_args, live_args):
        live = {a.name: a for a in live_args}
        for da in dumped_args:
            a = live.get(da["name"])
            if a is not None and a.has_default_value:
                da["default_value"] = gql_canon_default(a.default_value, a.type)
    for dt in d["types"]:
        t = schema.types.get(dt["name"])
        if isinstance(t, (ObjectType, InterfaceType)):
            lf = {f.name: f for f in t.fields}
            for df in dt.get("fields", []):
                if df["name"] in lf:
                    patch(df.get("args", []), lf[df["name"]].arguments)
        elif isinstance(t, InputObjectType):
            patch(dt.get("input_fields", []), t.fields)
    for dd in d["directives"]:
        live = schema.directives.get(dd["name"])
        if live is not None:
            patch(dd.get("args", []), live.arguments)
    return d


def model_live_pair(o, n):
    from py_gql.schema.differ import diff_schema
    real = sorted([type(c).__name__, int(c.severity), change_key(c)] for c in diff_schema(o, n))
    return real, {"op": "diff", "min": 0, "old": dump_for_diff(o), "new": dump_for_diff(n)}


def model_pair(old_sdl, new_sdl):
    """(real changes with keys, request for the Lean diff model)"""
    from py_gql import build_schema
    return model_live_pair(build_schema(old_sdl), build_schema(new_sdl))


def changes(old_sdl, new_sdl, min_severity=None):
    from py_gql import build_schema
    from py_gql.schema.differ import diff_schema
    o, n = build_schema(old_sdl), build_schema(new_sdl)
    return [(type(c).__name__, int(c.severity), str(c.message)) for c in diff_schema(o, n, min_severity=min_severity)]


def check_pair(ctx, rng, edit_name, old_d, new_d, expected, element, extra, direction):
    """Evaluate the statement on one ordered pair. Returns list of (signature, what) failures."""
    fails = []
    old_sdl, new_sdl = gs.to_sdl(old_d), gs.to_sdl(new_d)
    try:
        from py_gql import build_schema
        o_live, n_live = build_schema(old_sdl), build_schema(new_sdl)
        ch = [tuple(c) for c in diff_live_unsorted(o_live, n_live)]
        # the same two schema OBJECTS are diffed again after everything else this run does (other diffs,
        # clones, transforms, validation, execution): the report is a function of the two schemas only
        ctx.later("diff_schema:" + edit_name, lambda o=o_live, n=n_live: sorted(diff_live_unsorted(o, n)), sorted(ch),
                  {"old_sdl": old_sdl, "new_sdl": new_sdl})
    except Exception as e:  # the edit produced an invalid schema or the differ raised
        from py_gql.exc import GraphQLError
        if isinstance(e, GraphQLError) or type(e).__name__ in ("SchemaError", "SchemaValidationError", "SDLError"):
            ctx.stat("edit-invalid-schema")
            return None
        return [("differ-raises:%s:%s" % (edit_name, type(e).__name__), "diff_schema raised %r" % e)]
    # two runs of the same diff give EQUAL, hashable change objects (hunt3 C20/2)
    try:
        from py_gql.schema.differ import diff_schema as _ds
        r1, r2 = list(_ds(o_live, n_live)), list(_ds(o_live, n_live))
        if r1 != r2 or len(set(r1)) > len(r1):
            fails.append(("changes-not-comparable:eq", "list(diff_schema(a, b)) == list(diff_schema(a, b)) is False"))
    except TypeError as e:
        fails.append(("changes-not-comparable:hash", "set(diff_schema(a, b)) raises %r" % e))
    classes = {c[0] for c in ch}
    safe_marker = {e for e in expected if e.startswith("<")}
    real_expected = expected - safe_marker
    named = [c for c in ch if c[0] in real_expected and element in c[2]]
    if extra and extra[0] in ("in", "out"):
        pos, ot, nt = extra
        if direction == "rev":
            ot, nt = nt, ot
        compat = in_compat(ot, nt) if pos == "in" else out_compat(ot, nt)
        if not named and compat:
            # the statement says EVERY elementary edit (retyping included) is reported with a change naming the element;
            # the library documents that it ignores type changes it considers compatible (known finding G5)
            fails.append(("safe-retype-not-reported:%sput" % pos,
                          "%s position retyped %s -> %s (compatible) and no change names the element"
                          % (pos, gs.ty_str(ot), gs.ty_str(nt))))
        if not compat and not [c for c in named if c[1] == BREAKING]:
            fails.append(("unsafe-%sput-retype-not-breaking:%s" % (pos, divergence(ot, nt, pos)),
                          "%s position retyped %s -> %s, incompatible, but no breaking change names it"
                          % (pos, gs.ty_str(ot), gs.ty_str(nt))))
    elif not named:
        fails.append(("edit-not-reported:%s:%s" % (edit_name, direction),
                      "edit %s (%s) of element %s not reported by a change of class %s; got %s"
                      % (edit_name, direction, element, sorted(real_expected), sorted(classes))))
    if extra and extra[0] == "all-of":
        want = extra[1][direction]
        for cls in sorted(set(want)):
            got_n = len([c for c in ch if c[0] == cls and element in c[2]])
            if got_n < want.count(cls):
                fails.append(("combined-edit-part-not-reported:%s:%s" % (edit_name, cls),
                              "combined edit %s (%s): %d change(s) of class %s naming %s expected, %d reported"
                              % (edit_name, direction, want.count(cls), cls, element, got_n)))
    # classes that take something away from clients are BREAKING whatever their details (severity_table theorem)
    # (a retyping that keeps every old use valid is reported with the COMPATIBLE severity since /repo bd0cf9e)
    # retypings are judged above: BREAKING exactly when some old use stops being valid
    retype = bool(extra and extra[0] in ("in", "out"))
    for c in named:
        if c[0] in MUST_BREAK and c[1] != BREAKING and not (c[0].endswith("ChangedType") and retype):
            fails.append(("removal-not-breaking:%s" % c[0], "%s reported with severity %d: %s" % (c[0], c[1], c[2])))
    if extra and extra[0] == "became-required" and named:
        sev = named[0][1]
        if direction == "fwd" and sev != BREAKING:
            fails.append(("default-removal-makes-required-not-breaking:%s" % extra[1],
                          "the default of a non-null %s was removed (it becomes required) but severity is %d" % (extra[1], sev)))
    if extra and extra[0] in ("added-arg", "added-input-field") and direction == "fwd" and named:
        req = extra[1]
        sev = named[0][1]
        if req and sev != BREAKING:
            fails.append(("required-addition-not-breaking:%s" % edit_name, "required %s added but severity %d" % (extra[0], sev)))
    # order independence
    perm = list(range(gs.n_definitions(old_d)))
    rng.shuffle(perm)
    perm2 = list(range(gs.n_definitions(new_d)))
    rng.shuffle(perm2)
    try:
        ch2 = changes(gs.to_sdl(old_d, order=perm), gs.to_sdl(new_d, order=perm2))
        if sorted(ch2) != sorted(ch):
            fails.append(("order-dependent:%s" % edit_name, "changes differ after permuting definitions: %s vs %s"
                          % (sorted(set(ch) - set(ch2)), sorted(set(ch2) - set(ch)))))
        elif ch2 != ch:
            # the SEQUENCE of yielded changes, not only their set (hunt3 C20/1)
            first = next((x[0] for x, y in zip(ch, ch2) if x != y), "?")
            fails.append(("order-dependent:sequence:%s" % first, "the same changes are yielded in another order after permuting definitions: %s vs %s"
                          % ([c[0] for c in ch][:8], [c[0] for c in ch2][:8])))
    except Exception as e:
        fails.append(("differ-raises-permuted:%s:%s" % (edit_name, type(e).__name__), repr(e)))
    # min_severity filter is a filter
    try:
        chb = changes(old_sdl, new_sdl, min_severity=BREAKING)
        if sorted(chb) != sorted(c for c in ch if c[1] >= BREAKING):
            fails.append(("min-severity-not-a-filter:%s" % edit_name, "min_severity=BREAKING is not the BREAKING subset"))
    except Exception as e:
        fails.append(("differ-raises-min-severity:%s" % type(e).__name__, repr(e)))
    if ctx.model_ok:
        try:
            real, req = model_pair(old_sdl, new_sdl)
            ctx.pending_model.append((edit_name, direction, real, req, old_sdl, new_sdl))
        except Exception as e:  # noqa
            ctx.stat("model-pair-skipped:" + type(e).__name__)
    ctx.nontrivial(("edit", edit_name, direction, tuple(sorted(classes))))
    for c in classes:
        ctx.stat("change:" + c)
    return fails


def divergence(o, n, pos, ctxt="top"):
    """Where and how two type expressions first diverge in a way that matters for `pos`."""
    if o[0] == "list" and n[0] == "list":
        return divergence(o[1], n[1], pos, "item")
    if o[0] == "nonNull" and n[0] == "nonNull":
        return divergence(o[1], n[1], pos, ctxt)
    if o[0] == "named" and n[0] == "named":
        return "%s:%s" % (ctxt, "same" if o[1] == n[1] else "name-changed")
    if o[0] == "nonNull":
        # non-null dropped: fine for inputs, loosening for outputs
        if pos == "out":
            return "%s:nonnull-dropped" % ctxt
        return divergence(o[1], n, pos, ctxt)
    if n[0] == "nonNull":
        if pos == "in":
            return "%s:nonnull-added" % ctxt
        return divergence(o, n[1], pos, ctxt)
    return "%s:kind-changed" % ctxt


def operations_stay_valid(ctx, rng, edit_name, old_d, new_d):
    """Whenever NO breaking change is reported (either direction is tried), every operation valid against the
    old schema is valid against the new one: sampled operations, valid by construction on the old schema."""
    from py_gql import build_schema
    from py_gql.lang import parse
    from py_gql.validation import validate_ast
    from gen import operation as gop
    fails = []
    for direction, (a_d, b_d) in (("fwd", (old_d, new_d)), ("rev", (new_d, old_d))):
        try:
            a_sdl, b_sdl = gs.to_sdl(a_d), gs.to_sdl(b_d)
            if changes(a_sdl, b_sdl, min_severity=BREAKING):
                continue
            a, b = build_schema(a_sdl), build_schema(b_sdl)
        except Exception:  # noqa
            continue
        for _ in range(3):
            try:
                op = gop.gen_operation(rng, a_d, size=rng.randint(1, 3))
                doc = parse(op["text"])
                if validate_ast(a, doc).errors:
                    ctx.stat("op-not-valid-on-old(skipped)")
                    continue
            except Exception:  # noqa
                ctx.stat("op-generation-skipped")
                continue
            ctx.stat("op-checked-after-nonbreaking-diff")
            ctx.count()
            try:
                errs = validate_ast(b, parse(op["text"])).errors
            except Exception as e:  # noqa
                errs = ["raises " + type(e).__name__]
            if errs:
                fails.append(("nobreaking-but-operation-invalid:%s:%s" % (edit_name, direction),
                              "no BREAKING change reported for edit %s (%s) but an operation valid on the old schema is invalid on the new one: %s | %s"
                              % (edit_name, direction, op["text"][:200], str(errs[0])[:150])))
                break
    return fails


def same_response_shape_case(ctx):
    """An output field made non-null (`Int` -> `Int!`) is classified safe and reported by nothing, yet an operation that
    gives two fields of mutually exclusive types the same response key is valid on the old schema and violates
    SameResponseShape on the new one (known finding G4, pinned by test_no_incompatible_changes)."""
    from py_gql import build_schema
    from py_gql.lang import parse
    from py_gql.validation import validate_ast
    fails = []
    base = "type A { f: %s } type B { g: Int } union U = A | B type Query { u: U }"
    op = "{ u { ... on A { x: f } ... on B { x: g } } }"
    for old_t, new_t in (("Int", "Int!"), ("[Int]", "[Int]!"), ("[Int]", "[Int!]")):
        try:
            o, n = build_schema(base % old_t), build_schema(base % new_t)
            breaking = [c for c in diff_live_unsorted(o, n) if c[1] >= BREAKING]
            ok_old = not validate_ast(o, parse(op)).errors
            errs_new = validate_ast(n, parse(op)).errors
        except Exception as e:  # noqa
            fails.append(("same-response-shape-case-raises:%s" % type(e).__name__, repr(e)))
            continue
        ctx.count()
        ctx.stat("same-response-shape-case")
        if ok_old and not breaking and errs_new:
            fails.append(("nobreaking-but-operation-invalid:same-response-shape:%s->%s" % (old_t, new_t),
                          "A.f: %s -> %s: no BREAKING change reported, but `%s` (valid before) now fails: %s"
                          % (old_t, new_t, op, str(errs_new[0])[:120])))
    return fails


def unrooted_operation_case(ctx):
    """Adding a root operation type is COMPATIBLE (`RootTypeAdded`), yet an operation of that kind is accepted by the
    validator on the OLD schema, which has no such root type (no rule looks at it: the parent type is unknown, so
    FieldsOnCorrectType stays silent), and is rejected on the new one (known finding G6; Lean:
    `Props.C20.unrooted_operation_refutes`; `operations_stay_valid_rules` carries the hypothesis `OpsRooted`)."""
    from py_gql import build_schema
    from py_gql.lang import parse
    from py_gql.validation import validate_ast
    fails = []
    base = "type Query { a: Int }"
    for kind, root in (("mutation", "Mutation"), ("subscription", "Subscription")):
        op = "%s { foo }" % kind
        try:
            o, n = build_schema(base), build_schema(base + " type %s { m: Int }" % root)
            breaking = [c for c in diff_live_unsorted(o, n) if c[1] >= BREAKING]
            ok_old = not validate_ast(o, parse(op)).errors
            errs_new = validate_ast(n, parse(op)).errors
        except Exception as e:  # noqa
            fails.append(("unrooted-operation-case-raises:%s" % type(e).__name__, repr(e)))
            continue
        ctx.count()
        ctx.stat("unrooted-operation-case")
        if ok_old and not breaking and errs_new:
            fails.append(("nobreaking-but-operation-invalid:unrooted-operation:%s" % kind,
                          "type %s added: no BREAKING change reported, but `%s` (accepted before: the old schema has no %s type and "
                          "no rule rejects the operation) now fails: %s" % (root, op, kind, str(errs_new[0])[:120])))
    return fails


LIVE_ATTRIBUTES = ["directive.arguments:add", "directive.arguments:remove", "directive.arguments:retype",
                   "field.arguments:add", "field.arguments:remove", "field.arguments:retype",
                   "type.fields:add", "type.fields:remove", "union.types:remove", "union.types:add",
                   "object.interfaces:drop", "input.fields:add"]


def live_object_case(ctx, seed, attribute, prime):
    """A LIVE schema object is edited through a public attribute / setter after construction (`directive.arguments`,
    `field.arguments`, `type.fields`, `union.types`, `object.interfaces`, `input_type.fields`) and diffed against its
    untouched twin: the report must be the one obtained from a schema BUILT in the edited form (same edit made on the
    description, then build_schema). `prime`: the two objects are diffed and validated once before the edit, so that
    every memo / snapshot the library keeps has been filled. Returns None when the generated schema has no target."""
    import random
    from py_gql import build_schema
    from py_gql.schema import Argument, Field, InputField, Int, String, ListType, NonNullType
    rng = random.Random(seed)
    d = gs.gen_schema(rng, size=rng.randint(1, 3))
    n = copy.deepcopy(d)
    what, how = attribute.split(":")
    live = None     # function applied to the live schema
    if what == "directive.arguments":
        cands = [dd for dd in n["directives"] if (how == "add" or dd["args"])]
        if how == "retype":
            cands = [dd for dd in cands if any(a.get("default") is None for a in dd["args"])]
        if not cands:
            return None
        dd = rng.choice(cands)
        name = dd["name"]
        if how == "add":
            dd["args"].append({"name": "zz_live", "type": gs.nn(gs.named("Int")), "default": None, "desc": None})
            live = lambda b: setattr(b.directives[name], "arguments", list(b.directives[name].arguments) + [Argument("zz_live", NonNullType(Int))])
        elif how == "remove":
            gone = dd["args"].pop()["name"]
            live = lambda b: setattr(b.directives[name], "arguments", [a for a in b.directives[name].arguments if a.name != gone])
        else:
            a0 = next(a for a in dd["args"] if a.get("default") is None)
            an = a0["name"]
            a0["type"] = gs.lst(gs.named("String")) if a0["type"] != gs.lst(gs.named("String")) else gs.named("Int")
            newt = (lambda: ListType(String)) if a0["type"] == gs.lst(gs.named("String")) else (lambda: Int)
            live = lambda b: setattr(b.directives[name], "arguments", [Argument(a.name, newt()) if a.name == an else a for a in b.directives[name].arguments])
    elif what == "field.arguments":
        cands = [(t, f) for t in _objs(n) for f in _own_fields(n, t) if (how == "add" or f["args"])]
        if how == "retype":
            cands = [(t, f) for t, f in cands if any(a.get("default") is None for a in f["args"])]
        if not cands:
            return None
        t, f = rng.choice(cands)
        tn, fn = t["name"], f["name"]
        fld = lambda b: b.types[tn].field_map[fn]
        if how == "add":
            f["args"].append({"name": "zz_live", "type": gs.nn(gs.named("Int")), "default": None, "desc": None})
            live = lambda b: setattr(fld(b), "arguments", list(fld(b).arguments) + [Argument("zz_live", NonNullType(Int))])
        elif how == "remove":
            gone = f["args"].pop()["name"]
            live = lambda b: setattr(fld(b), "arguments", [a for a in fld(b).arguments if a.name != gone])
        else:
            a0 = next(a for a in f["args"] if a.get("default") is None)
            an = a0["name"]
            a0["type"] = gs.lst(gs.named("String")) if a0["type"] != gs.lst(gs.named("String")) else gs.named("Int")
            newt = (lambda: ListType(String)) if a0["type"] == gs.lst(gs.named("String")) else (lambda: Int)
            live = lambda b: setattr(fld(b), "arguments", [Argument(a.name, newt()) if a.name == an else a for a in fld(b).arguments])
    elif what == "type.fields":
        if how == "add":
            t = rng.choice(_objs(n))
            tn = t["name"]
            t["fields"].append({"name": "zz_live_f", "type": gs.named("Int"), "args": [], "deprecated": None, "desc": None})
            live = lambda b: setattr(b.types[tn], "fields", list(b.types[tn].fields) + [Field("zz_live_f", Int)])
        else:
            cands = [t for t in _objs(n) if len(_own_fields(n, t)) >= 1 and len(t["fields"]) >= 2]
            if not cands:
                return None
            t = rng.choice(cands)
            tn = t["name"]
            victim = rng.choice(_own_fields(n, t))["name"]
            t["fields"] = [f for f in t["fields"] if f["name"] != victim]
            live = lambda b: setattr(b.types[tn], "fields", [f for f in b.types[tn].fields if f.name != victim])
    elif what == "union.types":
        unions = _objs(n, ("union",))
        if how == "remove":
            cands = [u for u in unions if len(u["members"]) >= 2]
            if not cands:
                return None
            u = rng.choice(cands)
            un = u["name"]
            gone = u["members"].pop()
            live = lambda b: setattr(b.types[un], "types", [m for m in b.types[un].types if m.name != gone])
        else:
            cands = [(u, o) for u in unions for o in _objs(n) if o["name"] not in u["members"] and o["name"] not in (n.get("query"), n.get("mutation"), n.get("subscription"))]
            if not cands:
                return None
            u, o = rng.choice(cands)
            un, on = u["name"], o["name"]
            u["members"].append(on)
            live = lambda b: setattr(b.types[un], "types", list(b.types[un].types) + [b.types[on]])
    elif what == "object.interfaces":
        cands = [o for o in _objs(n) if o["interfaces"]]
        if not cands:
            return None
        o = rng.choice(cands)
        on = o["name"]
        o["interfaces"] = []
        live = lambda b: setattr(b.types[on], "interfaces", [])
    elif what == "input.fields":
        cands = _objs(n, ("input",))
        if not cands:
            return None
        t = rng.choice(cands)
        tn = t["name"]
        key = "input_fields" if "input_fields" in t else "fields"
        t[key].append({"name": "zz_live_in", "type": gs.nn(gs.named("Int")), "default": None, "desc": None})
        live = lambda b: setattr(b.types[tn], "fields", list(b.types[tn].fields) + [InputField("zz_live_in", NonNullType(Int))])
    else:
        return None
    try:
        sdl_d, sdl_n = gs.to_sdl(d), gs.to_sdl(n)
        expected = diff_live(build_schema(sdl_d), build_schema(sdl_n))
    except Exception as e:  # noqa  (the edited description is not a valid schema: not this class's business)
        ctx.stat("live-object-skipped:%s:%s" % (attribute, type(e).__name__))
        return None
    if not expected:
        return None
    fails = []
    try:
        a, b = build_schema(sdl_d), build_schema(sdl_d)
        if prime:
            diff_live(a, b)
            b.validate()
        live(b)
        got = diff_live(a, b)
    except Exception as e:  # noqa
        ctx.stat("live-object-edit-raises:%s:%s" % (attribute, type(e).__name__))
        return None
    ctx.count()
    ctx.stat("live-object:%s:%s" % (attribute, "primed" if prime else "fresh"))
    ctx.nontrivial(("live-object", attribute, prime, sdl_d))
    missing = [c for c in expected if c not in got]
    extra = [c for c in got if c not in expected]
    if missing:
        fails.append(("edit-not-reported:live-object:%s" % what,
                      "`%s` edited on a live schema (%s%s): diff_schema against the untouched twin does not report %s (a schema BUILT in the edited form does)"
                      % (what, how, ", after a first diff + validate" if prime else "", missing[:2])))
    elif extra:
        fails.append(("edit-misreported:live-object:%s" % what,
                      "`%s` edited on a live schema (%s): diff_schema against the untouched twin reports %s, which the schema built in the edited form does not"
                      % (what, how, extra[:2])))
    return fails


def live_object_stage(ctx):
    """every attribute kind x {fresh, primed}: a fixed quota of applicable cases in every run (own PRNG per case)"""
    want = ctx.n(2, 8)
    for attribute in LIVE_ATTRIBUTES:
        for prime in (False, True):
            got = 0
            for j in range(want * 15):
                if got >= want:
                    break
                seed = 0x11FE0B + 7919 * j + (__import__("zlib").crc32(attribute.encode()) & 0xFFFF)
                fails = live_object_case(ctx, seed, attribute, prime)
                if fails is None:
                    continue
                got += 1
                for sig, what in fails:
                    ctx.fail(sig, what, {"live_object_seed": seed, "attribute": attribute, "prime": prime, "what": what})
            if got == 0:
                ctx.stat("live-object-never-applicable:" + attribute)


def shuffle_inner(rng, d):
    """the same description with EVERY member list reordered: fields, arguments, enum values, input fields, union
    members, implemented interfaces, directive arguments and locations (and the definitions themselves)"""
    n = copy.deepcopy(d)
    rng.shuffle(n["types"])
    rng.shuffle(n["directives"])
    for t in n["types"]:
        for key in ("fields", "input_fields", "values", "members", "interfaces"):
            if isinstance(t.get(key), list):
                rng.shuffle(t[key])
        for f in t.get("fields", []):
            if isinstance(f.get("args"), list):
                rng.shuffle(f["args"])
    for dd in n["directives"]:
        rng.shuffle(dd["args"])
        rng.shuffle(dd["locations"])
    return n


def inner_order_case(ctx, seed):
    """`diff_perm_deep` on the implementation: the report (as a multiset of class / severity / message) of an edited pair
    does not change when every member list of BOTH schemas is reordered independently."""
    import random
    from py_gql import build_schema
    rng = random.Random(seed)
    d = gs.gen_schema(rng, size=rng.randint(1, 3))
    n = d
    applied = []
    for _ in range(rng.randint(1, 3)):
        r = rng.choice(EDITS)(rng, n)
        if r is not None:
            n = r[0]
            applied.append(r[3])
    try:
        ref = diff_live(build_schema(gs.to_sdl(d)), build_schema(gs.to_sdl(n)))
        d2, n2 = shuffle_inner(rng, d), shuffle_inner(rng, n)
        got = diff_live(build_schema(gs.to_sdl(d2)), build_schema(gs.to_sdl(n2)))
    except Exception as e:  # noqa  (combined edits can yield a description build_schema refuses)
        ctx.stat("inner-order-skipped:" + type(e).__name__)
        return None
    ctx.count()
    ctx.stat("inner-order-case:%d-changes" % min(len(ref), 9))
    if ref:
        ctx.nontrivial(("inner-order", gs.to_sdl(d), gs.to_sdl(n)))
    if ref != got:
        lost = [c for c in ref if c not in got] + [c for c in got if c not in ref]
        return [("inner-order-dependent:%s" % (lost[0][0] if lost else "multiplicity"),
                 "the report changes when the member lists of the two schemas are reordered: %s" % lost[:2])]
    return []


INNER_KINDS = {
    "union-members": ["A", "B", "C"],
    "interfaces": ["I1", "I2", "I3"],
    "enum-values": ["P", "Q", "R"],
    "input-fields": ["p: Int", "q: Int", "r: Int"],
    "fields": ["p: Int", "q: Int", "r: Int"],
    "field-arguments": ["a: Int", "b: Int", "c: Int"],
    "directive-arguments": ["a: Int", "b: Int", "c: Int"],
    "directive-locations": ["FIELD", "QUERY", "MUTATION"],
}


def inner_kinds_sdl(L):
    return ("directive @d(%s) on %s\n"
            "interface I1 { x: Int } interface I2 { y: Int } interface I3 { z: Int }\n"
            "type A implements %s { x: Int y: Int z: Int }\ntype B { b: Int } type C { c: Int }\n"
            "union U = %s\nenum E { %s }\ninput In { %s }\ntype T { %s }\n"
            "type Query { a: A u: U t: T e(%s): Int i(i: In, e: E): Int }\n"
            % (", ".join(L["directive-arguments"]), " | ".join(L["directive-locations"]), " & ".join(L["interfaces"]),
               " | ".join(L["union-members"]), " ".join(L["enum-values"]), " ".join(L["input-fields"]),
               " ".join(L["fields"]), ", ".join(L["field-arguments"])))


def inner_kinds_case(ctx, kind, drop):
    """DETERMINISTIC part of the inner-order oracle (guaranteed in every run, no PRNG): a fixed schema in which every
    kind of member list has three elements; element `drop` of the list of kind `kind` is removed (and, reversed, added);
    the report must be the same multiset under every rotation of that list in the old AND in the new schema, and it must
    name the element. Catches a differ that looks at a prefix / suffix / first element of a member list."""
    from py_gql import build_schema
    base = {k: list(v) for k, v in INNER_KINDS.items()}
    fails = []
    ref = None
    for rot in range(3):
        for rot_new in range(2):
            old = dict(base)
            old[kind] = base[kind][rot:] + base[kind][:rot]
            kept = [x for i, x in enumerate(base[kind]) if i != drop]
            new = dict(base)
            new[kind] = kept[rot_new:] + kept[:rot_new]
            try:
                a, b = build_schema(inner_kinds_sdl(old)), build_schema(inner_kinds_sdl(new))
                got = (diff_live(a, b), diff_live(b, a))
            except Exception as e:  # noqa
                return [("inner-order-kinds-raises:%s:%s" % (kind, type(e).__name__), repr(e)[:200])]
            ctx.count()
            ctx.nontrivial(("inner-kinds", kind, drop, rot, rot_new))
            if ref is None:
                ref = got
                elem = base[kind][drop].split(":")[0]
                for direction, rep in (("removed", got[0]), ("added", got[1])):
                    if not any(elem in c[2] for c in rep):
                        fails.append(("inner-order-kinds:not-reported:%s:%s" % (kind, direction),
                                      "element %d (%s) of the %s list %s: no change names it: %s"
                                      % (drop, elem, kind, direction, rep[:3])))
            elif got != ref:
                lost = [c for c in ref[0] + ref[1] if c not in got[0] + got[1]] + \
                       [c for c in got[0] + got[1] if c not in ref[0] + ref[1]]
                fails.append(("inner-order-dependent:%s" % (lost[0][0] if lost else "multiplicity"),
                              "%s list rotated by %d (old) / %d (new), element %d removed: the report changes: %s"
                              % (kind, rot, rot_new, drop, lost[:2])))
                return fails
    ctx.stat("inner-order-kinds:" + kind)
    return fails


def inner_order_stage(ctx):
    for kind in INNER_KINDS:
        for drop in range(3):
            for sig, what in inner_kinds_case(ctx, kind, drop):
                ctx.fail(sig, what, {"inner_kinds": kind, "drop": drop, "what": what})
    want = ctx.n(12, 80)
    got = 0
    for j in range(want * 4):
        if got >= want:
            break
        seed = 0x0DDE5 + 104729 * j
        fails = inner_order_case(ctx, seed)
        if fails is None:
            continue
        got += 1
        for sig, what in fails:
            ctx.fail(sig, what, {"inner_order_seed": seed, "what": what})


def shape(t):
    return "N" if t[0] == "named" else ("L(%s)" % shape(t[1]) if t[0] == "list" else "%s!" % shape(t[1]))


def underscore_names(d):
    """Rename every non-root type `X` to `_X` (a legal GraphQL name; only `__` is reserved)."""
    d = copy.deepcopy(d)
    roots = {d.get("query"), d.get("mutation"), d.get("subscription")}
    ren = {t["name"]: "_" + t["name"] for t in d["types"] if t["name"] not in roots}

    def rt(t):
        return ("named", ren.get(t[1], t[1])) if t[0] == "named" else (t[0], rt(t[1]))
    for t in d["types"]:
        t["name"] = ren.get(t["name"], t["name"])
        t["interfaces"] = [ren.get(i, i) for i in t.get("interfaces", [])] if "interfaces" in t else t.get("interfaces")
        if t.get("interfaces") is None:
            t.pop("interfaces", None)
        if "members" in t:
            t["members"] = [ren.get(m, m) for m in t["members"]]
        for f in t.get("fields", []):
            f["type"] = rt(f["type"])
            for a in f.get("args", []) or []:
                a["type"] = rt(a["type"])
    for dd in d["directives"]:
        for a in dd["args"]:
            a["type"] = rt(a["type"])
    return d


def one_case(ctx, seed, want=None):
    import random
    rng = random.Random(seed)
    d = gs.gen_schema(rng, size=rng.randint(1, 3))
    if seed % 4 == 1:
        d = underscore_names(d)
        ctx.stat("underscore-prefixed-type-names")
    edit = rng.choice(EDITS) if want is None else [e for e in EDITS if e.__name__ == want][0]
    r = edit(rng, d)
    if r is None:
        ctx.stat("edit-not-applicable")
        return []
    new_d, exp_f, exp_r, element = r[:4]
    extra = r[4] if len(r) > 4 else None
    old_d = r[5] if len(r) > 5 else d
    out = []
    # reflexivity on a structurally equal rebuilt copy
    try:
        same = changes(gs.to_sdl(old_d), gs.to_sdl(copy.deepcopy(old_d)))
        if same:
            out.append(("diff-of-equal-schemas-nonempty", "diff(s, s) reported %s" % same[:3]))
    except Exception as e:
        out.append(("differ-raises-on-equal:%s" % type(e).__name__, repr(e)))
    for direction, (a, b, exp) in (("fwd", (old_d, new_d, exp_f)), ("rev", (new_d, old_d, exp_r))):
        f = check_pair(ctx, rng, edit.__name__, a, b, exp, element, extra, direction)
        if f is None:
            return out
        out += f
    ctx.stat("edit:" + edit.__name__)
    out += operations_stay_valid(ctx, rng, edit.__name__, old_d, new_d)
    return out


def flush_model(ctx):
    """correspondence: real diff_schema vs the Lean model of it, as multisets of (class, severity, key)"""
    pend = ctx.pending_model
    if not pend:
        return
    answers = ctx.driver.ask([p[3] for p in pend])
    for (edit_name, direction, real, req, old_sdl, new_sdl), ans in zip(pend, answers):
        model = sorted([c["cls"], c["sev"], c["key"]] for c in ans.get("changes", []))
        ctx.count()
        if model != real:
            only_real = [c for c in real if c not in model]
            only_model = [c for c in model if c not in real]
            cls = sorted({c[0] for c in only_real + only_model})
            ctx.fail("corr:diff-model:%s" % ",".join(cls), "diff_schema and its Lean model report different changes",
                     {"old_sdl": old_sdl, "new_sdl": new_sdl, "only_real": only_real[:5], "only_model": only_model[:5]},
                     kind="correspondence")
    ctx.extra["diff_model_pairs_compared"] = ctx.extra.get("diff_model_pairs_compared", 0) + len(pend)
    ctx.pending_model = []


def run(ctx):
    ctx.pending_model = []
    try:
        _run(ctx)
    finally:
        if ctx.model_ok:
            flush_model(ctx)


def _run(ctx):
    n = ctx.n(150, 2500)
    base = ctx.rng.randrange(1 << 30)
    # every kind of elementary edit is exercised in every run: at least `want` applicable cases per edit
    want = ctx.n(4, 25)
    for sig, what in same_response_shape_case(ctx):
        ctx.fail(sig, what, {"same_response_shape_case": True, "what": what})
    for sig, what in unrooted_operation_case(ctx):
        ctx.fail(sig, what, {"unrooted_operation_case": True, "what": what})
    live_object_stage(ctx)
    inner_order_stage(ctx)
    hash_order_stage(ctx)
    for e in EDITS:
        got = 0
        for j in range(want * 12):
            if got >= want or ctx.out_of_time():
                break
            seed = base + 7919 * (j + 1) + (__import__('zlib').crc32(e.__name__.encode()) & 0xFFFF)
            before = ctx.stats.get("edit:" + e.__name__, 0)
            ctx.count()
            for sig, what in one_case(ctx, seed, want=e.__name__):
                ctx.fail(sig, what, {"schema_case_seed": seed, "edit": e.__name__, "what": what})
            got += ctx.stats.get("edit:" + e.__name__, 0) - before
        if got == 0:
            ctx.stat("edit-never-applicable:" + e.__name__)
    for i in range(n):
        if ctx.out_of_time():
            ctx.notes.append("schema-level loop stopped by budget after %d cases" % i)
            break
        seed = base + i
        ctx.count()
        for sig, what in one_case(ctx, seed):
            ctx.fail(sig, what, {"schema_case_seed": seed, "what": what})
        if i % 5 == 0:
            for sig, what in code_enum_case(ctx, seed):
                ctx.fail(sig, what, {"code_enum_seed": seed, "what": what})
            for sig, what in history_case(ctx, seed):
                ctx.fail(sig, what, {"history_seed": seed, "what": what})
        if i % 10 == 0:
            for sig, what in code_vs_sdl_case(ctx, seed):
                ctx.fail(sig, what, {"code_vs_sdl_seed": seed, "what": what})
        if i % 2 == 0:
            for sig, what in code_default_case(ctx, seed):
                ctx.fail(sig, what, {"code_default_seed": seed, "what": what})
        if i < 2:
            import random
            rng = random.Random(seed)
            d = gs.gen_schema(rng, size=rng.randint(1, 3))
            ctx.sample({"schema_case_seed": seed, "sdl_head": gs.to_sdl(d)[:300]})


# ---------------------------------------------------------------------------
# code-built enums (internal Python values differ from the names)
# ---------------------------------------------------------------------------

def build_with_code_enums(desc, value_of):
    """Build `desc` with every enum supplied as a CODE-BUILT EnumType (additional_types) whose internal values
    are `value_of(enum name, value name)`; everything else comes from SDL."""
    from py_gql import build_schema
    from py_gql.schema import EnumType, EnumValue
    enums = [t for t in desc["types"] if t["kind"] == "enum"]
    rest = dict(desc, types=[t for t in desc["types"] if t["kind"] != "enum"])
    extra = [EnumType(t["name"], [EnumValue(v["name"], value_of(t["name"], v["name"]), deprecation_reason=v.get("deprecated"),
                                            description=v.get("desc")) for v in t["values"]], description=t.get("desc"))
             for t in enums]
    return build_schema(gs.to_sdl(rest), additional_types=extra)


def strip_enum_defaults(d):
    """enum-typed defaults would be coerced to internal values by name: keep the case simple"""
    d = copy.deepcopy(d)
    enums = {t["name"] for t in d["types"] if t["kind"] == "enum"}
    users = set(enums)
    changed = True
    while changed:
        changed = False
        for t in _objs(d, ("input",)):
            if t["name"] not in users and any(gs.ty_base(f["type"]) in users for f in t["fields"]):
                users.add(t["name"])
                changed = True
    for t in d["types"]:
        for f in t.get("fields", []):
            if t["kind"] == "input" and gs.ty_base(f["type"]) in users:
                f["default"] = None
            for a in f.get("args", []) or []:
                if gs.ty_base(a["type"]) in users:
                    a["default"] = None
    for dd in d["directives"]:
        for a in dd["args"]:
            if gs.ty_base(a["type"]) in users:
                a["default"] = None
    return d


def diff_live_unsorted(o, n, min_severity=None):
    from py_gql.schema.differ import diff_schema
    return [(type(c).__name__, int(c.severity), str(c.message)) for c in diff_schema(o, n, min_severity=min_severity)]


def diff_live(o, n):
    from py_gql.schema.differ import diff_schema
    return sorted((type(c).__name__, int(c.severity), str(c.message)) for c in diff_schema(o, n))


def code_enum_case(ctx, seed):
    """enum members must be matched BY NAME: internal values are not part of the client-visible schema"""
    import random
    rng = random.Random(seed)
    d = strip_enum_defaults(gs.gen_schema(rng, size=rng.randint(1, 3)))
    fails = []
    v1 = lambda e, v: "py_" + v            # noqa: E731
    v2 = lambda e, v: hash_free(e, v)       # noqa: E731
    try:
        a, b = build_with_code_enums(d, v1), build_with_code_enums(d, v2)
    except Exception as e:  # noqa
        ctx.stat("code-enum-build-skipped:" + type(e).__name__)
        return fails
    ctx.stat("code-enum-case")
    same = diff_live(a, b)
    if same:
        fails.append(("code-enum:structurally-equal-but-values-differ:reported", "schemas equal up to enum INTERNAL values reported %s" % (same[:2],)))
    # rename one enum value keeping its internal value: must be EnumValueRemoved (BREAKING) + EnumValueAdded
    enums = [t for t in d["types"] if t["kind"] == "enum"]
    n = copy.deepcopy(d)
    referenced = [t for t in n["types"] if t["kind"] == "enum" and t["name"] in a.types]
    if not referenced:
        ctx.stat("code-enum-unreferenced")
        return fails
    t = rng.choice(referenced)
    old_name = t["values"][0]["name"]
    t["values"][0]["name"] = "RENAMED_" + old_name
    keep = lambda e, v: "py_" + (old_name if v == "RENAMED_" + old_name else v)  # noqa: E731
    try:
        c = build_with_code_enums(n, keep)
    except Exception as e:  # noqa
        ctx.stat("code-enum-build-skipped:" + type(e).__name__)
        return fails
    ch = diff_live(a, c)
    if not any(x[0] == "EnumValueRemoved" and old_name in x[2] and x[1] == BREAKING for x in ch):
        fails.append(("code-enum:renamed-value-not-reported-removed", "enum value %s renamed (same internal value) but no BREAKING EnumValueRemoved: %s" % (old_name, ch[:3])))
    # swapped internal values between two names + a deprecation on one of them: attributed to the right member
    if len(t["values"]) >= 2:
        m = copy.deepcopy(d)
        tt = gs.desc_type(m, t["name"])
        x, y = tt["values"][0]["name"], tt["values"][1]["name"]
        if tt["values"][0].get("deprecated") is None:
            tt["values"][0]["deprecated"] = "because"
            swap = lambda e, v: "py_" + (y if v == x else x if v == y else v)  # noqa: E731
            try:
                e2 = build_with_code_enums(m, swap)
                ch = diff_live(a, e2)
                dep = [c for c in ch if c[0] == "EnumValueDeprecated"]
                if not (len(dep) == 1 and x in dep[0][2]):
                    fails.append(("code-enum:deprecation-attributed-to-wrong-member", "deprecating %s (internal values swapped) reported as %s" % (x, dep[:2])))
            except Exception as e:  # noqa
                ctx.stat("code-enum-build-skipped:" + type(e).__name__)
    return fails


# default values that are EQUAL FOR PYTHON (`1 == True == 1.0`, `[0] == [False]`) but different GraphQL values, next to
# pairs that are the same value (list / tuple spelling included): code-built schemas, custom scalar (hunt C20/3)
DEFAULT_PAIRS = [(1, True), (0, False), (1, 1.0), (0.0, False), ([0], [False]), ({"k": 1}, {"k": True}), ([1, [2.0]], [1, [2]]),
                 (1, 1), ([1, 2], (1, 2)), ({"a": [1], "b": None}, {"b": None, "a": [1]}), ("x", "x"), (1, 2), ("1", 1),
                 (None, 0), (None, None), (True, True), ({"k": 1}, {"k": 1, "j": 2})]


def code_default_case(ctx, seed):
    """`diff_schema` on two code-built schemas that differ in ONE default value of a custom scalar position: a
    `*DefaultValueChange` naming the element is reported exactly when the two values differ as data."""
    import random
    import canon_schema as cs
    from py_gql.schema import Schema, ObjectType, Field, Argument, InputObjectType, InputField, ScalarType, Directive, Int
    from py_gql.schema.differ import diff_schema
    rng = random.Random(seed)
    a, b = rng.choice(DEFAULT_PAIRS)
    if rng.random() < 0.5:
        a, b = b, a
    pos = rng.choice(["arg", "input", "directive"])

    def build(v):
        J = ScalarType("J", serialize=lambda x: x, parse=lambda x: x)
        In = InputObjectType("In", [InputField("ia", J, default_value=v if pos == "input" else 0)])
        q = ObjectType("Query", [Field("f", Int, args=[Argument("xa", J, default_value=v if pos == "arg" else 0),
                                                       Argument("i", In)])])
        dr = Directive("dd", ["FIELD"], args=[Argument("ya", J, default_value=v if pos == "directive" else 0)])
        return Schema(q, directives=[dr])

    fails = []
    o, n = build(a), build(b)
    element = {"arg": "xa", "input": "ia", "directive": "ya"}[pos]
    cls = {"arg": "FieldArgumentDefaultValueChange", "input": "InputFieldDefaultValueChange",
           "directive": "DirectiveArgumentDefaultValueChange"}[pos]
    chs = list(diff_schema(o, n))
    ch = [(type(c).__name__, int(c.severity), str(c.message)) for c in chs]
    differ = json.dumps(cs.canon_value(a), sort_keys=True) != json.dumps(cs.canon_value(b), sort_keys=True)
    named = [c for c in ch if c[0] == cls and element in c[2]]
    ctx.stat("code-default:%s:%s" % (pos, "differ" if differ else "same"))
    ctx.nontrivial(("code-default", pos, repr(a), repr(b)))
    if differ and not named:
        fails.append(("default-edit-not-reported:python-equal:%s" % pos,
                      "default of %s changed %r -> %r (different values) and no %s names it; got %s" % (element, a, b, cls, ch)))
    if not differ and ch:
        fails.append(("equal-defaults-reported:%s" % pos, "defaults %r / %r are the same value but %s was reported" % (a, b, ch)))
    if ctx.model_ok:
        real, req = model_live_pair(o, n)
        ctx.pending_model.append(("code-default:" + pos, "fwd", real, req, "code-built default %r" % (a,), "code-built default %r" % (b,)))
    return fails


# ---------------------------------------------------------------------------
# hash ordering: the ORDERED report of a fresh interpreter must not depend on PYTHONHASHSEED (hunt2 C20/3)
# ---------------------------------------------------------------------------
_HASH_CHILD = r"""
import json, sys
from py_gql import build_schema
from py_gql.schema.differ import diff_schema
out = []
for old_sdl, new_sdl in json.load(sys.stdin):
    try:
        o, n = build_schema(old_sdl), build_schema(new_sdl)
        out.append([[type(c).__name__, int(c.severity), str(c.message)] for c in diff_schema(o, n)])
    except Exception as e:
        out.append(["raised", type(e).__name__])
json.dump(out, sys.stdout)
"""

FIXED_MULTI = [
    ("union U = A | B | C | D | E\ntype A { a: Int } type B { a: Int } type C { a: Int } type D { a: Int } type E { a: Int }\n"
     "directive @dir on QUERY | MUTATION | SUBSCRIPTION | FIELD | FRAGMENT_SPREAD | INLINE_FRAGMENT\ntype Query { u: U }",
     "union U = A\ntype A { a: Int } type B { a: Int } type C { a: Int } type D { a: Int } type E { a: Int }\n"
     "directive @dir on FIELD | INLINE_FRAGMENT\ntype Query { u: U }"),
]


def hash_order_stage(ctx):
    """Several elements removed / added at once (several union members, directive locations, fields, enum values,
    arguments, types): the ordered list of changes is computed in fresh interpreters under different hash seeds and
    compared, both ways round."""
    import random
    import subprocess
    import sys as _sys
    import common
    rng = random.Random(ctx.rng.randrange(1 << 30))
    pairs = [list(p) for p in FIXED_MULTI] + [[b, a] for a, b in FIXED_MULTI]
    tries = 0
    while len(pairs) < ctx.n(10, 40) and tries < 200:
        tries += 1
        d = gs.gen_schema(rng, size=rng.randint(2, 3))
        n = d
        applied = 0
        for _ in range(8):
            r = rng.choice(EDITS)(rng, n)
            if r is not None:
                n = r[0]
                applied += 1
        if applied < 3:
            continue
        try:
            a, b = gs.to_sdl(d), gs.to_sdl(n)
            changes(a, b)
        except Exception:
            continue
        pairs.append([a, b])
        pairs.append([b, a])
    outs = {}
    for hs in ("0", "1", "2", "7", "4242"):
        env = dict(os.environ, PYTHONHASHSEED=hs, PYTHONPATH=str(common.REPO / "src"))
        p = subprocess.run([_sys.executable, "-c", _HASH_CHILD], input=json.dumps(pairs).encode(), stdout=subprocess.PIPE,
                           stderr=subprocess.PIPE, env=env, timeout=300)
        if p.returncode != 0:
            ctx.stat("hash-order-child-failed")
            ctx.notes.append("hash-order child failed: " + p.stderr.decode("utf-8", "replace")[-300:])
            return
        outs[hs] = json.loads(p.stdout.decode())
    ref = outs["0"]
    for i, pr in enumerate(pairs):
        ctx.count()
        multi = len(ref[i]) if ref[i] and ref[i][0] != "raised" else 0
        ctx.stat("hash-order-pair:%s" % ("multi" if multi >= 3 else "small"))
        ctx.nontrivial(("hash-order", i, multi))
        for hs, o in outs.items():
            if o[i] != ref[i]:
                same_set = sorted(map(str, o[i])) == sorted(map(str, ref[i]))
                cls = sorted({c[0] for c in o[i] + ref[i] if isinstance(c, list)} if same_set else {"?"})
                first = next((c[0] for c, c2 in zip(o[i], ref[i]) if c != c2), "?") if same_set else "?"
                ctx.fail("hash-seed-dependent:%s:%s" % ("order" if same_set else "content", first),
                         "diff_schema yields a different %s under PYTHONHASHSEED=%s than under 0" % ("order" if same_set else "set", hs),
                         {"hash_pair": pr, "seeds": ["0", hs], "under_0": ref[i][:8], "under_other": o[i][:8]})
                break


# ---------------------------------------------------------------------------
# a code-built schema against the schema built from its own SDL (hunt2 C20/1, C20/2): structurally equal
# ---------------------------------------------------------------------------
def code_vs_sdl_case(ctx, seed):
    import random
    import datetime
    from py_gql import build_schema
    from py_gql.schema import (Schema, ObjectType, Field, Argument, InputObjectType, InputField, ScalarType, EnumType,
                               EnumValue, Directive, Int, Float, ID, String, ListType, NonNullType)
    rng = random.Random(seed)

    class DateScalar(ScalarType):
        pass

    class ColorEnum(EnumType):
        pass

    def build(swap=False, page=5):
        Date = DateScalar("Date", serialize=lambda d: d.isoformat() if hasattr(d, "isoformat") else str(d),
                          parse=lambda s: s)
        vals = [("RED", 2 if swap else 1), ("GREEN", 1 if swap else 2), ("BLUE", 3)]
        Color = ColorEnum("Color", [EnumValue(n, v) for n, v in vals])
        Page = InputObjectType("Page", [InputField("pageSize", Int, default_value=10, python_name="page_size"),
                                        InputField("tags", ListType(String))])   # (no second default: C12's H2 — a code default that omits a defaulted field — is not this property)
        args = [Argument("fl", Float, default_value=1), Argument("fl2", ListType(Float), default_value=[1, 2.5]),
                Argument("id", ID, default_value=1), Argument("c", Color, default_value=1),
                Argument("cs", ListType(NonNullType(Color)), default_value=[1, 3]),
                Argument("d", Date, default_value=datetime.date(2020, 1, 1)),
                Argument("p", Page, default_value={"page_size": page})]
        rng.shuffle(args)
        q = ObjectType("Query", [Field("f", Int, args=args), Field("when", Date), Field("col", Color)])
        return Schema(q, directives=[Directive("lim", ["FIELD"], args=[Argument("n", Float, default_value=3)])])

    fails = []
    try:
        code = build()
        sdl = code.to_string()
        rebuilt = build_schema(sdl)
    except Exception as e:  # noqa
        ctx.stat("code-vs-sdl-skipped:" + type(e).__name__)
        return fails
    ctx.stat("code-vs-sdl-case")
    ctx.nontrivial(("code-vs-sdl", seed % 7))
    for name, a, b in (("code-vs-own-sdl", code, rebuilt), ("own-sdl-vs-code", rebuilt, code)):
        if ctx.model_ok:
            real, req = model_live_pair(a, b)
            ctx.pending_model.append((name, "fwd", real, req, "code-built (see code_vs_sdl_case)", sdl))
        ch = diff_live(a, b)
        if ch:
            cls = sorted({c[0] for c in ch})
            fails.append(("diff-of-equal-schemas-nonempty:%s:%s" % (name, ",".join(cls)),
                          "a code-built schema and the schema built from its own to_string() are structurally equal but %s was reported" % (ch[:3],)))
    # an enum default edited A -> B while the internal values are swapped: the Python default is the same object
    try:
        swapped = build(swap=True)
        if swapped.to_string() != sdl:
            if ctx.model_ok:
                real, req = model_live_pair(code, swapped)
                ctx.pending_model.append(("code-enum-values-swapped", "fwd", real, req, sdl, swapped.to_string()))
            ch = diff_live(code, swapped)
            for el in ("c", "cs"):
                if not any(c[0] == "FieldArgumentDefaultValueChange" and (" %s " % el) in c[2] for c in ch):
                    fails.append(("default-edit-not-reported:enum-internal-values-swapped",
                                  "enum default of argument %s changed name (internal values swapped) but no change names it: %s" % (el, ch[:4])))
        other = build(page=6)
        ch = diff_live(code, other)
        if not any(c[0] == "FieldArgumentDefaultValueChange" and " p " in c[2] for c in ch):
            fails.append(("default-edit-not-reported:input-object-python-name", "default {pageSize: 5} -> {pageSize: 6} not reported: %s" % (ch[:4],)))
    except Exception as e:  # noqa
        fails.append(("differ-raises:code-built:%s" % type(e).__name__, repr(e)))
    return fails


def hash_free(e, v):
    return sum(ord(c) for c in e + v) * 7 + len(v)


# ---------------------------------------------------------------------------
# histories: the report must not depend on what was diffed / executed / cloned before
# ---------------------------------------------------------------------------

def history_case(ctx, seed):
    import random
    from py_gql import build_schema
    rng = random.Random(seed)
    d = gs.gen_schema(rng, size=rng.randint(1, 3))
    fails = []
    objs = [t for t in _objs(d) if len(_own_fields(d, t)) >= 1 and len(t["fields"]) >= 2]
    if not objs:
        return fails
    t = rng.choice(objs)
    victim = rng.choice(_own_fields(d, t))["name"]
    n = copy.deepcopy(d)
    nt = gs.desc_type(n, t["name"])
    nt["fields"] = [f for f in nt["fields"] if f["name"] != victim]
    try:
        reference = diff_live(build_schema(gs.to_sdl(d)), build_schema(gs.to_sdl(n)))
    except Exception as e:  # noqa
        ctx.stat("history-skipped:" + type(e).__name__)
        return fails
    ctx.stat("history-case")
    flows = []

    def flow_diff_then_edit():
        a, b = build_schema(gs.to_sdl(d)), build_schema(gs.to_sdl(d))
        diff_live(a, b)                                   # reads every field map once
        ty = b.types[t["name"]]
        ty.fields = [f for f in ty.fields if f.name != victim]   # public `fields` setter
        return diff_live(a, b)

    def flow_use_clone_edit():
        a = build_schema(gs.to_sdl(d))
        diff_live(a, build_schema(gs.to_sdl(d)))
        b = a.clone()
        ty = b.types[t["name"]]
        ty.fields = [f for f in ty.fields if f.name != victim]
        return diff_live(a, b)

    def flow_transform():
        from py_gql.schema.transforms import VisibilitySchemaTransform, transform_schema

        class Hide(VisibilitySchemaTransform):
            def is_field_visible(self, typename, fieldname):
                return not (typename == t["name"] and fieldname == victim)
        a = build_schema(gs.to_sdl(d))
        diff_live(a, build_schema(gs.to_sdl(d)))
        return diff_live(a, transform_schema(a, Hide()))

    def flow_inplace_visitor():
        # the two schema OBJECTS are diffed, then `b` is edited IN PLACE by a public visitor (type objects are
        # replaced inside the same Schema), then the same two objects are diffed again
        from py_gql.schema.transforms import VisibilitySchemaTransform

        class Hide(VisibilitySchemaTransform):
            def is_field_visible(self, typename, fieldname):
                return not (typename == t["name"] and fieldname == victim)
        a, b = build_schema(gs.to_sdl(d)), build_schema(gs.to_sdl(d))
        first = diff_live(a, b)
        if first:
            return first
        b2 = Hide().on_schema(b)
        got = diff_live(a, b2)
        if b2 is not b:
            return got
        return got if got == diff_live(a, b) else [("same-objects-second-diff-differs", 0, "")]

    def flow_inplace_replacing_visitor():
        # as above with the base SchemaVisitor, which REPLACES the edited type object inside the same Schema
        from py_gql.schema import SchemaVisitor

        class DropField(SchemaVisitor):
            current = None

            def on_object(self, object_type):
                self.current = object_type.name
                return super().on_object(object_type)

            def on_interface(self, interface_type):
                self.current = interface_type.name
                return super().on_interface(interface_type)

            def on_field(self, field):
                if self.current == t["name"] and field.name == victim:
                    return None
                return super().on_field(field)
        a, b = build_schema(gs.to_sdl(d)), build_schema(gs.to_sdl(d))
        first = diff_live(a, b)
        if first:
            return first
        return diff_live(a, DropField().on_schema(b))

    for name, fl in (("diff-then-edit", flow_diff_then_edit), ("use-clone-edit", flow_use_clone_edit), ("visibility-transform", flow_transform),
                     ("diff-then-inplace-visitor", flow_inplace_visitor), ("diff-then-inplace-replacing-visitor", flow_inplace_replacing_visitor)):
        try:
            got = fl()
        except Exception as e:  # noqa
            ctx.stat("history-flow-skipped:%s:%s" % (name, type(e).__name__))
            continue
        ctx.nontrivial(("history", name, seed))
        if got != reference:
            missing = [c for c in reference if c not in got]
            fails.append(("history-dependent:%s" % name,
                          "diff after %s differs from the diff of freshly built schemas; missing %s" % (name, missing[:2])))
    fails += derived_cases(ctx, rng, d)
    return fails


def derived_cases(ctx, rng, d):
    """Schemas DERIVED through the public visitor / transform API must diff like the same schema built from its
    own printed SDL: diff(D, rebuilt D) and diff(rebuilt D, D) report nothing ("structurally equal"), and
    diff(source, D) == diff(source, rebuilt D). The visitors below rename / drop / retype ARGUMENTS by name
    (field arguments and directive arguments alike), which is what camel-casing and visibility transforms do."""
    import copy as _copy
    from py_gql import build_schema
    from py_gql.schema import NonNullType, SchemaVisitor
    from py_gql.schema.transforms import transform_schema
    fails = []
    names = sorted({a["name"] for dd in d["directives"] for a in dd["args"]}) * 2 \
        + sorted({a["name"] for t in d["types"] for f in t.get("fields", []) for a in (f.get("args") or [])})
    if not names:
        ctx.stat("derived-skipped:no-arguments")
        return fails
    target = rng.choice(names)

    class Rename(SchemaVisitor):
        def on_argument(self, argument):
            if argument.name != target:
                return argument
            c = _copy.copy(argument)
            c.name = target + "Renamed"
            return c

    class Drop(SchemaVisitor):
        def on_argument(self, argument):
            return None if argument.name == target else argument

    class Require(SchemaVisitor):
        def on_argument(self, argument):
            if argument.name != target or isinstance(argument.type, NonNullType):
                return argument
            c = _copy.copy(argument)
            c.type = NonNullType(argument.type)
            return c

    try:
        a = build_schema(gs.to_sdl(d))
    except Exception as e:  # noqa
        ctx.stat("derived-skipped:" + type(e).__name__)
        return fails
    for vname, V in (("rename-argument", Rename), ("drop-argument", Drop), ("require-argument", Require)):
        try:
            D = transform_schema(a, V())
            D.validate()
            R = build_schema(D.to_string())
            fresh = diff_live(R, build_schema(D.to_string()))
        except Exception as e:  # noqa  (the derivation is not applicable to this schema)
            ctx.stat("derived-skipped:%s:%s" % (vname, type(e).__name__))
            continue
        if fresh:  # the printer / builder round trip itself is not exact on this schema: not this property's business
            ctx.stat("derived-skipped:%s:print-roundtrip-not-exact" % vname)
            continue
        ctx.stat("derived:" + vname)
        ctx.nontrivial(("derived", vname, target, len(d["types"])))
        try:
            e1, e2 = diff_live(D, R), diff_live(R, D)
            g1, g2 = diff_live(a, D), diff_live(a, R)
        except Exception as e:  # noqa
            fails.append(("differ-raises-on-derived:%s:%s" % (vname, type(e).__name__), repr(e)))
            continue
        if e1 or e2:
            fails.append(("derived-equal-schemas-diff-nonempty:%s" % vname,
                          "a schema derived by %s and the same schema rebuilt from its SDL are structurally equal but the diff reports %s"
                          % (vname, (e1 or e2)[:2])))
        if g1 != g2:
            fails.append(("derived-diff-differs:%s" % vname,
                          "diff(source, derived) differs from diff(source, derived rebuilt from its SDL): only one side has %s"
                          % ([c for c in g1 if c not in g2][:2] + [c for c in g2 if c not in g1][:2])))
    return fails


def replay(ctx, data):
    inp = data.get("input", {})
    ctx.pending_model = []
    if "code_enum_seed" in inp:
        return not code_enum_case(ctx, inp["code_enum_seed"])
    if "history_seed" in inp:
        return not history_case(ctx, inp["history_seed"])
    if "code_vs_sdl_seed" in inp:
        ctx.pending_model = []
        return not code_vs_sdl_case(ctx, inp["code_vs_sdl_seed"])
    if "hash_pair" in inp:
        import subprocess, sys as _sys, common
        outs = []
        for hs in inp["seeds"]:
            env = dict(os.environ, PYTHONHASHSEED=hs, PYTHONPATH=str(common.REPO / "src"))
            p = subprocess.run([_sys.executable, "-c", _HASH_CHILD], input=json.dumps([inp["hash_pair"]]).encode(),
                               stdout=subprocess.PIPE, env=env, timeout=120)
            outs.append(p.stdout)
        return len(set(outs)) == 1
    if "code_default_seed" in inp:
        ctx.pending_model = []
        return not code_default_case(ctx, inp["code_default_seed"])
    if inp.get("same_response_shape_case"):
        return not same_response_shape_case(ctx)
    if inp.get("unrooted_operation_case"):
        return not unrooted_operation_case(ctx)
    if "inner_kinds" in inp:
        return not inner_kinds_case(ctx, inp["inner_kinds"], inp["drop"])
    if "inner_order_seed" in inp:
        return not inner_order_case(ctx, inp["inner_order_seed"])
    if "live_object_seed" in inp:
        return not live_object_case(ctx, inp["live_object_seed"], inp["attribute"], inp["prime"])
    if "schema_case_seed" in inp:
        fails = one_case(ctx, inp["schema_case_seed"], want=inp.get("edit"))
        return not fails
    return True

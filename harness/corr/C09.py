# -*- coding: utf-8 -*-
"""
C09 — top-level mutation fields run strictly one after another in document order.

Direct oracle = the trace predicate itself, evaluated on the events recorded by the harness
resolvers of the REAL executors (all four configurations, all completion orders as in C08):
when the resolver of top-level field j is invoked, every resolver invoked in the subtree of every
earlier top-level field has finished and nothing of an earlier subtree happens afterwards; every
top-level field is invoked although earlier ones failed with a resolver error; the response lists
the top-level keys in document order.
Correspondence: the Lean model (`executeFieldsSerially` state machine in `AsyncExec.lean`) produces the
same call/done trace, queue sizes and result for the same (operation, schedule).
"""
import itertools

from corr import C08_world as W
from corr import C08 as base

PROPERTY = "C09"
RULE = ("mutation operations with 1..5 top-level fields (sync / deferred / nested-deferred resolvers, nested deferred "
        "sub-fields, lists of objects, resolver errors and non-null violations at every position): bounded-exhaustive over 3 "
        "top-level fields x 7 field shapes, then seeded random; all four configurations; ALL completion orders for <= 4 (quick) "
        "/ <= 6 (thorough) tasks, FIFO + LIFO + random beyond; top level written plainly, inside `... on Mutation {}` or as one "
        "fragment spread; plus REAL 1- and 2-worker pools with in-flight resolvers (hard timeout). distinct non-trivial = distinct (operation, schedule) with >= 1 task")
ASSUMPTIONS = base.ASSUMPTIONS + [
    "`call` = the executor invokes the resolver (for a pool-submitted resolver: the submission; its body can only start later), "
    "`done` = its result is available; both are recorded by the harness resolvers / the manual executor",
]
TRUSTED = base.TRUSTED


def c09_oracle(case, config, sched, obs):
    if case["kind"] != "mutation" or obs["status"] not in ("ok", "failed"):
        return None
    bad = W.serial_violation(case, obs)
    if bad:
        return ("not-serial", bad)
    keys = [f["key"] for f in case["fields"]]
    if obs["status"] == "ok":
        if not isinstance(obs["data"], dict):
            return ("field-skipped", "response data is %r, not an object with the keys %r" % (obs["data"], keys))
        if list(obs["data"].keys()) != keys:
            return ("keys-out-of-order", "response keys %r, document order %r" % (list(obs["data"].keys()), keys))
        called = [p[0] for k, p in obs["trace"] if k == "call" and len(p) == 1]
        if called != keys:
            return ("field-skipped", "top-level resolvers invoked: %r, document: %r" % (called, keys))
    return None


def shapes():
    I = base.I
    sub = {"t": "obj", "fields": [{"key": "c", "mode": "deferred", "ty": I}, {"key": "d", "mode": "deferred", "ty": I}]}
    return [
        ("sync", I, {"r": "ok", "v": 1}),
        ("deferred", I, {"r": "ok", "v": 2}),
        ("nested", I, {"r": "ok", "v": 3}),
        ("deferred", I, {"r": "rerr"}),
        ("nested", I, {"r": "rerr"}),
        ("deferred", {"t": "nn", "of": {"t": "int", "scalar": "trim"}}, {"r": "ok", "v": "tonull"}),
        ("deferred", {"t": "int", "scalar": "trim"}, {"r": "ok", "v": "cerr"}),
        ("sync", dict(sub, abstract=True), {"r": "ok", "v": "cerr"}),
        ("nested", {"t": "list", "of": I}, {"r": "ok", "v": {"lazy": [1], "fail": True}}),
        ("deferred", {"t": "nn", "of": I}, {"r": "rerr"}),
        ("sync", {"t": "nn", "of": I}, {"r": "rerr"}),
        ("deferred", {"t": "nn", "of": I}, {"r": "ok", "v": None}),
        ("nested", {"t": "nn", "of": sub}, {"r": "ok", "v": None}),
        ("ready", I, {"r": "rerr"}),
        ("ready", sub, {"r": "ok", "v": {"c": {"r": "ok", "v": 7}, "d": {"r": "ok", "v": 8}}}),
        ("sync", {"t": "nn", "of": I}, {"r": "ok", "v": None}),
        ("deferred", sub, {"r": "ok", "v": {"c": {"r": "ok", "v": 4}, "d": {"r": "rerr"}}}),
        ("sync", sub, {"r": "ok", "v": {"c": {"r": "ok", "v": 5}, "d": {"r": "ok", "v": 6}}}),
    ]


def exhaustive(n):
    for combo in itertools.product(shapes(), repeat=n):
        yield {"kind": "mutation",
               "fields": [{"key": "m%d" % (i + 1), "mode": m, "ty": ty, "out": fo} for i, (m, ty, fo) in enumerate(combo)]}


# ---------------------------------------------------------------------------
# line-level interleavings of the serial chain on a REAL 1-worker pool (hunt C09/1)

def interleaving_stage(ctx, max_runs=None):
    """
    `mutation { first second third }` on a real `ThreadPoolRuntime(max_workers=1)`: the callback of the serial chain runs on
    the worker thread while the submitting thread is still inside `execute_fields_serially`. A `sys.settrace` line tracer
    (library untouched: threads are only DELAYED) steps the two threads through EVERY interleaving, at source-line granularity,
    of the chain's callback against the submitting thread's statements after `map_value` returned (hooked runtime: the hook
    arms the controller and releases the first resolver). Oracle = C09: all three resolvers run, in order; data lists the three
    keys in order.
    """
    import sys
    import threading
    import time
    import py_gql.execution.executor as ex
    from py_gql import build_schema, process_graphql_query
    from py_gql.execution import Executor
    from py_gql.execution.runtime import ThreadPoolRuntime
    exfile = ex.__file__

    def one_run(schedule):
        """schedule: list of 'M'/'W' decisions taken whenever both threads wait at a line; returns (outcome, decisions, width)"""
        calls = []
        gate = threading.Event()
        schema = build_schema("type Query { x: Int } type Mutation { first: Int second: Int third: Int }")

        def mk(name, value, gated):
            def resolver(root, c, info):
                calls.append(name)
                if gated:
                    gate.wait(5)
                return value
            schema.register_resolver("Mutation", name, resolver)
        mk("first", 1, True)
        mk("second", 2, False)
        mk("third", 3, False)

        cond = threading.Condition()
        st = {"armed": False, "waiting": {}, "gone": set(), "decisions": [], "turn": None, "main": threading.get_ident()}

        def role():
            return "M" if threading.get_ident() == st["main"] else "W"

        def arrive():
            r = role()
            with cond:
                if not st["armed"] or len(st["decisions"]) >= 24:
                    return
                st["waiting"][r] = True
                cond.notify_all()
                other = "W" if r == "M" else "M"
                t_end = time.time() + 0.1
                while True:
                    if st["turn"] == r:
                        st["turn"] = None
                        break
                    if st["waiting"].get(other) and st["turn"] is None:
                        k = len(st["decisions"])
                        pick = schedule[k] if k < len(schedule) else "M"
                        st["decisions"].append(pick)
                        st["turn"] = pick
                        cond.notify_all()
                        continue
                    if other in st["gone"] or time.time() > t_end:
                        break                       # the other side is not in the controlled region: run freely
                    cond.wait(0.02)
                st["waiting"][r] = False
                cond.notify_all()

        def tracer(frame, event, arg):
            code = frame.f_code
            if code.co_filename != exfile or code.co_name not in ("cb", "_next"):
                return None

            def local(frame, event, arg):
                if event == "line":
                    arrive()
                elif event == "return" and frame.f_code.co_name == ("cb" if role() == "W" else "_next"):
                    with cond:
                        st["gone"].add(role())
                        cond.notify_all()
                return local
            return local

        class Hooked(ThreadPoolRuntime):
            def map_value(self, value, then, else_=None):
                r = super().map_value(value, then, else_)
                if getattr(then, "__name__", "") == "cb" and not st["armed"]:
                    with cond:
                        st["armed"] = True          # from here on the two threads are stepped line by line
                    gate.set()                      # the first resolver may finish: its callback will run on the worker
                return r

        rt = Hooked(max_workers=1)
        threading.settrace(tracer)
        sys.settrace(tracer)
        try:
            fut = process_graphql_query(schema, "mutation { first second third }", runtime=rt, executor_cls=Executor)
        finally:
            sys.settrace(None)
        try:
            res = fut.result(timeout=5)
            outcome = ["ok", base.dumps(res.data), len(res.errors), list(calls)]
        except Exception as err:  # noqa
            outcome = ["failed", type(err).__name__, list(calls)]
        finally:
            threading.settrace(None)
            gate.set()
            rt._inner.shutdown(wait=False)
        return outcome, st["decisions"]

    expected = ["ok", base.dumps({"first": 1, "second": 2, "third": 3}), 0, ["first", "second", "third"]]
    stack, seen, n = [[]], 0, 0
    max_runs = max_runs or (14 if ctx.tier == "quick" else 200)
    while stack and n < max_runs and not ctx.out_of_time():
        prefix = stack.pop()
        outcome, decisions = one_run(prefix)
        n += 1
        ctx.count()
        if outcome != expected:
            confirm, _ = one_run(decisions)           # timing plays a (small) part in the stepping: confirm before reporting
            if confirm != expected:
                ctx.fail("c09:interleaving:threadpool-real-w1:serial-chain-lost",
                         "mutation { first second third } on a 1-worker pool under the line interleaving %s (M = submitting thread, "
                         "W = worker running the chain's callback): %s instead of %s" % ("".join(decisions), outcome, expected),
                         {"stream": "interleaving", "decisions": decisions, "got": outcome, "expected": expected})
                break
        for pos in range(len(decisions) - 1, len(prefix) - 1, -1):
            alt = "W" if decisions[pos] == "M" else "M"
            stack.append(decisions[:pos] + [alt])
    ctx.extra["interleavings_explored"] = n


# ---------------------------------------------------------------------------
# hunt3 C09/1: an un-evaluable @skip / @include in a LATER list item's sub-selection (request text only)

def unevaluable_directive_stage(ctx):
    """
    `mutation($v: Boolean = false) { m1 { ... on A { a } ... on B { b @skip(if: $v) } } m2 }` with {"v": null}: a VALID request,
    plain resolvers. Collecting the fields of a later list item raises (the directive cannot be evaluated) after an earlier
    item's sub-resolver was started: m1 fails at once, the serial chain invokes m2 while that sub-resolver is in flight
    (same mechanism as known finding E2, reached from the request alone). Shapes: union / interface items, @skip / @include,
    failing item second of two / third of three. Controlled thread pool and asyncio; oracle = the C09 trace predicate and
    data / errors equal to BlockingExecutor's.
    """
    import asyncio
    from concurrent.futures import Future
    from py_gql import build_schema, process_graphql_query
    from py_gql.execution import BlockingExecutor, Executor
    from py_gql.execution.runtime import AsyncIORuntime, BlockingRuntime, ThreadPoolRuntime
    sdls = {
        "union": "union U = A | B type A { a: Int } type B { b: Int } type Query { x: Int } type Mutation { m1: [U] m2: Int }",
        "interface": "interface U { id: Int } type A implements U { id: Int a: Int } type B implements U { id: Int b: Int } "
                     "type Query { x: Int } type Mutation { m1: [U] m2: Int }",
    }
    n = 0
    for abstract, sdl in sdls.items():
        for directive, default in (("skip", "false"), ("include", "true")):
            for items in (("A", "B"), ("A", "A", "B")):
                doc = ("mutation ($v: Boolean = %s) { m1 { ... on A { a } ... on B { b @%s(if: $v) } } m2 }" % (default, directive))
                label = "%s+@%s+item%d" % (abstract, directive, len(items))

                def make(trace, asynchronous):
                    schema = build_schema(sdl)

                    def rec(kind, info):
                        trace.append([kind, list(info.path)])

                    def m1(root, c, info):
                        rec("body", info)
                        rec("done", info)
                        return [{"__typename__": t, "id": i} for i, t in enumerate(items)]

                    def leaf(root, c, info):
                        rec("body", info)
                        rec("done", info)
                        return 1
                    if asynchronous:
                        gates = []

                        def wrap(fn):
                            async def r(root, c, info):
                                trace.append(["call", list(info.path)])
                                g = asyncio.get_event_loop().create_future()
                                gates.append(g)
                                await g
                                return fn(root, c, info)
                            return r
                        m1r, ar, br, m2r = wrap(m1), wrap(leaf), wrap(leaf), wrap(leaf)
                        schema._gates = gates
                    else:
                        m1r = ar = br = m2r = None
                    schema.register_resolver("Mutation", "m1", m1r or m1)
                    schema.register_resolver("Mutation", "m2", m2r or leaf)
                    schema.register_resolver("A", "a", ar or leaf)
                    schema.register_resolver("B", "b", br or leaf)
                    return schema

                def canon(res):
                    return [base.dumps(res.data), sorted(base.dumps(list(e.path) if e.path else None) for e in res.errors)]

                # reference
                tr0 = []
                try:
                    ref = canon(process_graphql_query(make(tr0, False), doc, variables={"v": None}, runtime=BlockingRuntime(),
                                                      executor_cls=BlockingExecutor))
                except Exception as err:  # noqa
                    ref = ["raises", type(err).__name__]

                def pool():
                    trace = []

                    class _W:
                        table = {}

                        def ev(self, kind, path):
                            trace.append([kind, list(path)])
                    w = _W()
                    w.queue = []
                    w.trace = trace
                    rt = ThreadPoolRuntime(max_workers=1)
                    rt._inner.shutdown(wait=False)
                    rt._inner = W.ManualExecutor(w)
                    wd = W.watchdog(single_threaded=True)          # single-threaded world: a blocking wait is a deadlock
                    with wd:
                        fut = process_graphql_query(make(trace, False), doc, variables={"v": None}, runtime=rt, executor_cls=Executor)
                        steps = 0
                        while w.queue and steps < 50:
                            e = w.queue.pop(0)
                            steps += 1
                            try:
                                r = e.fn(*e.args, **e.kwargs)
                            except BaseException as err:  # noqa
                                e.fut.set_exception(err)
                            else:
                                e.fut.set_result(r)
                    if wd.blocked:
                        raise TimeoutError("blocks: " + wd.blocked)
                    return fut.result(timeout=0) if isinstance(fut, Future) else fut, trace

                def aio():
                    trace = []
                    schema = make(trace, True)
                    loop = W.private_loop()

                    async def main():
                        rt = AsyncIORuntime(execute_blocking_functions_in_thread=False)
                        task = asyncio.ensure_future(process_graphql_query(schema, doc, variables={"v": None}, runtime=rt, executor_cls=Executor))
                        for _ in range(60):
                            for _ in range(8):
                                await asyncio.sleep(0)
                            if task.done():
                                break
                            pending = [g for g in schema._gates if not g.done()]
                            if pending:
                                pending[0].set_result(None)
                        res = await asyncio.wait_for(task, 10)
                        for g in schema._gates:              # late sub-resolvers: let them finish and record
                            if not g.done():
                                g.set_result(None)
                        for _ in range(8):
                            await asyncio.sleep(0)
                        return res
                    return loop.run_until_complete(main()), trace

                pseudo = {"kind": "mutation", "fields": [{"key": "m1"}, {"key": "m2"}]}
                for cfg, fn in (("threadpool", pool), ("asyncio", aio)):
                    ctx.count()
                    n += 1
                    detail = {"stream": "unevaluable-directive", "config": cfg, "shape": label, "sdl": sdl, "document": doc,
                              "variables": {"v": None}}
                    try:
                        res, trace = fn()
                        got = canon(res)
                    except Exception as err:  # noqa
                        got, trace = ["raises", type(err).__name__], []
                    bad = W.serial_violation(pseudo, {"trace": trace})
                    if bad:
                        ctx.fail("c09:serial-overlap:abandoned-list-item:unevaluable-directive",
                                 "%s, %s: %s (valid request, plain resolvers; variables {v: null})" % (cfg, label, bad),
                                 dict(detail, trace=trace))
                    elif sorted(base.dumps(p_) for k_, p_ in trace if k_ == "done") != sorted(base.dumps(p_) for k_, p_ in tr0 if k_ == "done"):
                        ran = sorted(base.dumps(p_) for k_, p_ in trace if k_ == "done")
                        ctx.fail("c09:serial-overlap:abandoned-list-item:unevaluable-directive:sub-resolver-never-ran",
                                 "%s, %s: the resolvers that ran are %s, under BlockingExecutor %s - the sub-resolver of the earlier list item "
                                 "was created and then abandoned (never awaited)" % (cfg, label, ran, sorted(base.dumps(p_) for k_, p_ in tr0 if k_ == "done")),
                                 dict(detail, trace=trace))
                    elif got != ref:
                        ctx.fail("c09:unevaluable-directive:%s:result-differs" % cfg,
                                 "%s, %s: %s instead of BlockingExecutor's %s" % (cfg, label, got, ref), dict(detail, got=got, blocking=ref))
    ctx.extra["unevaluable_directive_runs"] = n


def run(ctx):
    import time
    W.quiet()
    chk = base.Checker(ctx, "C09", extra_oracle=c09_oracle)
    rng = ctx.rng
    t_end = ctx.t0 + (26 if ctx.tier == "quick" else 220)

    def streams():
        for c in base.corpus_cases("C09"):
            ctx.stat("stream=corpus")
            chk.check(c.get("case", c), rng)
        ex = list(exhaustive(3))
        if ctx.tier == "quick":
            ex = rng.sample(ex, 120)
        ctx.extra["exhaustive_small_ops"] = len(ex)
        for case in ex:
            if time.time() > t_end:
                ctx.notes.append("exhaustive stream cut by the time budget")
                break
            ctx.stat("stream=exhaustive")
            style = rng.choice(("plain", "inline", "spread", "reselect-inline", "reselect-spread", "reselect-nested"))
            if style != "plain":
                case = dict(case, style=style)
            if rng.random() < 0.4:
                case = dict(case, serve="methods")
                ctx.stat("serve=methods")
            ctx.stat("style=" + style)
            chk.check(case, rng)
        i, n = 0, ctx.n(220, 2200)
        while i < n and time.time() < t_end:
            r = i % 4
            case = W.gen_case(rng, kind="mutation", n_top=rng.randint(1 if i % 5 else 2, 5), depth=rng.randint(1, 2),
                              p_sync=(0.15, 0.4, 0.6, 0.3)[r], p_nested=0.2, max_sub=2,
                              p_exc=0.06 if r == 3 else 0.0, p_rerr=0.18, p_nn=(0.25, 0.55)[i % 2])
            ctx.stat("stream=random")
            ctx.stat("top-level=%d" % len(case["fields"]))
            if i < 3:
                ctx.sample({"document": W.document(case), "case": W.to_model(case)})
            chk.check(case, rng)
            i += 1
        ctx.extra["random_ops"] = i
        chk.flush()

    # every stage under the wall-clock backstop of C08_world.run_stages: a tree that blocks the calling thread at a place
    # no per-call watchdog covers yields `c09:never-completes:stage:<name>` and the check still finishes
    try:
        W.run_stages(ctx, "C09", [
            ("streams", streams),
            ("history", lambda: base.history_stream(ctx, "C09")),
            ("many-root-fields", lambda: base.probe_many_root_fields(ctx, "C09", kinds=("mutation",))),
            ("abandoned", lambda: base.abandoned_stage(ctx, "C09")),
            ("interleaving", lambda: interleaving_stage(ctx)),
            ("unevaluable-directive", lambda: unevaluable_directive_stage(ctx)),
            ("e2-model", lambda: __import__("corr.C08_e2", fromlist=["e2_stage"]).e2_stage(ctx, "C09", kinds=("mutation",))),
            ("real-pool", lambda: base.real_pool_stage(ctx, "C09", extra_oracle=c09_oracle, n_random=4 if ctx.tier == "quick" else 30,
                                                     kinds=("mutation",))),
        ], replaying=getattr(ctx, "_c09_replay_stage", None))
    finally:
        W.close_private_loop()
        W.release_stuck_workers(ctx)
    ctx.extra["configurations"] = list(base.CONFIGS)
    ctx.extra["all_schedules_up_to_tasks"] = chk.max_tasks_all


def replay(ctx, data):
    W.quiet()
    if data.get("input", {}).get("probe") == "stage":
        before = len(ctx.found)
        ctx._c09_replay_stage = data["input"].get("stage")
        try:
            run(ctx)
        finally:
            ctx._c09_replay_stage = None
        return len(ctx.found) == before
    if data.get("input", {}).get("probe") == "many-root-fields":
        before = len(ctx.found)
        base.probe_many_root_fields(ctx, "C09", kinds=("mutation",))
        return len(ctx.found) == before
    if data.get("input", {}).get("stream") == "e2-model":
        from corr import C08_e2
        before = len(ctx.found)
        C08_e2.e2_stage(ctx, "C09", only=data["input"].get("case"), kinds=("mutation",))
        return len(ctx.found) == before
    if data.get("input", {}).get("stream") == "unevaluable-directive":
        before = len(ctx.found)
        try:
            unevaluable_directive_stage(ctx)
        finally:
            W.close_private_loop()
        return len(ctx.found) == before
    if data.get("input", {}).get("stream") == "interleaving":
        before = len(ctx.found)
        interleaving_stage(ctx, max_runs=200)
        return len(ctx.found) == before
    if data.get("input", {}).get("stream") == "abandoned":
        before = len(ctx.found)
        try:
            base.abandoned_stage(ctx, "C09")
        finally:
            W.close_private_loop()
        return len(ctx.found) == before
    if data.get("input", {}).get("stream") == "history":
        before = len(ctx.found)
        try:
            base.history_stream(ctx, "C09")
        finally:
            W.close_private_loop()
        return len([f for f in ctx.found[before:] if f["kind"] == "property"]) == 0
    case = data.get("input", {}).get("case")
    if case is None:
        return True
    chk = base.Checker(ctx, "C09", extra_oracle=c09_oracle)
    try:
        fails = chk.failures_of(case, ctx.rng, cap=2000)
    finally:
        W.close_private_loop()
    for f in fails:
        print("  ", f)
    return not fails

# -*- coding: utf-8 -*-
"""C02 — aggregated from corr/C02_*.py (see each part)."""
from corr import _parts

_parts.install("C02", globals())

# -*- coding: utf-8 -*-
"""
C16 — instrumentation and middlewares see every field exactly once, properly nested.

A *case* is an abstract request: outcome of every stage + a small field tree with a
per-field resolver outcome + the configuration (executor/runtime, number of middlewares,
instrumentation stack, completion schedule of the deferred resolvers).  From a case we build
a real document, real resolvers, real recording instrumentations/middlewares, run the real
``process_graphql_query`` and record the event trace.

* DIRECT ORACLE (= the statement, model independent): stage hooks well bracketed, at most
  once, an end for every start; per resolved field exactly one start/end with its path around
  the resolver call; every middleware entered exactly once per resolver call, last middleware
  outermost; stacked instrumentations: starts in order, ends reversed; ApolloTracer.payload()
  well formed.
* CORRESPONDENCE: the Lean model (lean/PyGqlModel/Instr.lean) produces the trace of the same
  abstract case.  Blocking configurations and the thread-pool runtime (manual executor, the
  harness owns the schedule) are compared event by event; asyncio per field (projection on
  each path) because the loop decides when a coroutine body starts.
"""
import asyncio
import copy
import json
from concurrent.futures import Future
from corr import C08_world as W08

PROPERTY = "C16"
RULE = ("cases = (stage outcomes: syntax error | validation error | ambiguous/unknown operation | variable coercion error | "
        "subscription operation sent through process_graphql_query (InvalidOperationError since fix X5) | "
        "execution) x (document as text | parsed) x (query | mutation=serial) x random field tree (depth<=3, object/list/leaf "
        "fields, fields typed by an interface, the meta field __typename at root / nested / in list items / on the abstract type, "
        "introspection root fields __schema / __type with nested selections (their field trees derived from a reference run), per field outcome returns | raises ResolverError | argument coercion error, null and empty lists) x "
        "a resolver raising a LIBRARY error (ExecutionError) that aborts the request into a data-null response, at root / nested / list-item "
        "positions, root selection sets and sub-selections that collect to NOTHING (fields excluded by @skip / @include literally, through a "
        "variable, through inline fragments and fragment spreads), a root selection whose directive condition cannot be evaluated, "
        "4 executor/runtime configurations x 0..3 middlewares of every callable flavour (function, lambda, bound method, callable "
        "instance, FALSY callable instances via __len__/__bool__/empty list subclass, functools.partial) x instrumentation stack (1..3 leaves, flat or nested "
        "MultiInstrumentation, optional ApolloTracer; members overriding ALL hooks or a non-empty subset: start-only, end-only, "
        "stage-only, field-only, field-end-only, field-start-only, query-only, random subsets; defined in one class, spread over a "
        "subclass chain, or set as instance attributes; a hidden full recorder gives the reference for what each partial member must see) x random completion schedule; plus a bounded-exhaustive block "
        "(all outcome kinds x configurations x small trees x ALL schedules). distinct non-trivial = distinct canonical case "
        "with at least one hook event beyond query start/end")
ASSUMPTIONS = [
    "a request that never finishes is reported only after CONFIRMATION: hang = no growth of the event log and nothing completable during N scheduling steps of the single-threaded harness (no wall-clock bound), re-run alone with 20x the bound; wall-clock bounds (300 s) only produce infrastructure notes; ApolloTracer durations are checked for presence and type only (wall-clock datetimes may step)",
    "the resolver bodies of the library's own meta-field resolvers (__typename, __schema, __type and the introspection types' lambdas) "
    "cannot be recorded: for those fields the model's call/ret events are projected away before traces are compared, and the "
    "middleware oracle is keyed on the field start hook; hooks and middleware entries/exits of meta fields ARE compared",
    "ResolverError is raised by field resolvers; a ResolverError raised during value completion (resolve_type, serialize) is covered "
    "by one named probe only (finding N2: Executor then fires on_field_end twice)",
    "requests whose processing raises out of process_graphql_query (RuntimeError in "
    "value completion, non-ResolverError exceptions of resolvers) produce no outcome and are not quantified over",
    "middlewares are plain synchronous callables mw(next, root, ctx, info, **args) that call next exactly once (what the docstring of apply_middlewares documents)",
    "thread-pool runtime: ThreadPoolRuntime._inner is replaced by a manual executor so that the harness owns the completion order "
    "(atomic completions; callback bodies never overlap)",
    "sibling response keys are distinct (guaranteed by collect_fields grouping); under that hypothesis a path identifies a field "
    "(theorem field_paths_unique) and every hook fires exactly once per path (field_hooks_exactly_once_per_path)",
]
TRUSTED = [
    "hand-written model Instr.lean of _graphql.process_graphql_query / execute / Executor.resolve_field / BlockingExecutor.resolve_field / "
    "apply_middlewares / MultiInstrumentation (tied by this correspondence only)",
    "concurrent.futures.Future callbacks run synchronously at completion in registration order; asyncio.gather semantics (modelled, not verified)",
]

CONFIGS = ["blocking", "exec-blocking", "threadpool", "asyncio"]
OUTCOMES = ["exec", "syntax", "validation", "opsel-ambiguous", "opsel-unknown", "vars", "subscription-op", "root-collect-error"]
# Hang detection is PROGRESS based and independent of wall-clock time / CPU load: every configuration runs on ONE thread
# (manual executor, private asyncio loop), so a hang = STALL_ITERS consecutive scheduling steps in which the event log did not
# grow and nothing became completable. A first-pass hang verdict is only a suspicion: the case is re-run alone with bounds
# x CONFIRM_SCALE and reported only if it stalls again (else stat "slow-case-not-a-hang"). INFRA_SECONDS only keeps the check from
# blocking forever: exceeding it is an infrastructure note, never a failure.
STALL_ITERS = 2000
CONFIRM_SCALE = 20
INFRA_SECONDS = 300.0
KINDS = ["query+", "query-", "parsing+", "parsing-", "validation+", "validation-", "execution+", "execution-", "field+", "field-"]
REF = 99          # hidden full recorder stacked outermost when a case has partial members (reference for what a member must see)
PARTIAL_PRESETS = {
    "start-only": [k for k in KINDS if k.endswith("+")],
    "end-only": [k for k in KINDS if k.endswith("-")],
    "stage-only": KINDS[:8],
    "field-only": KINDS[8:],
    "field-end-only": ["field-"],
    "field-start-only": ["field+"],
    "query-only": ["query+", "query-"],
}
STYLES = ["class", "subclass", "instance"]


def method_of(kind):
    return "on_%s_%s" % (kind[:-1], "start" if kind.endswith("+") else "end")


def gen_partial(rng, instr):
    """some members override only a non-empty subset of the ten hooks"""
    out = {}
    for i in leaves(instr):
        if rng.random() < 0.6:
            if rng.random() < 0.7:
                hooks = list(PARTIAL_PRESETS[rng.choice(sorted(PARTIAL_PRESETS))])
            else:
                hooks = [k for k in KINDS if rng.random() < 0.4] or ["field-"]
            out[str(i)] = {"hooks": hooks, "style": rng.choice(STYLES)}
    return out


# ---------------------------------------------------------------------------------------------
# abstract cases
# ---------------------------------------------------------------------------------------------
OBJ_FIELDS = ("n", "nd", "i", "id")      # i / id: typed by the INTERFACE I (abstract type, runtime type T)
LIST_FIELDS = ("l", "ld")
LEAF_FIELDS = ("v", "vd", "s", "sd", "dflt", "__typename")
META_LEAF = ("__typename",)
# introspection root fields (query root only): sub-selection texts; their field trees are derived from a reference run
INTRO = {
    "I1": "__schema { queryType { name } }",
    "I2": "__type(name: \"T\") { name kind fields { name } }",
    "I3": "__type(name: \"Nope\") { name }",          # unknown name: resolves to null (fixed in /repo f2efa6b)
    "I4": "__schema { types { name } }",
    "I5": "__schema { directives { name args { name } } mutationType { name } }",
    "I6": "__type(name: \"I\") { kind possibleTypes { name } }",
}


def gen_template(rng, depth, counter, width=3):
    """selection template: list of {"k","f","sel"} with distinct keys"""
    out = []
    for _ in range(rng.randint(1, width)):
        r = rng.random()
        if depth > 0 and r < 0.45:
            f = rng.choice(OBJ_FIELDS + LIST_FIELDS)
            sel = gen_template(rng, depth - 1, counter, width)
        else:
            f = rng.choice(LEAF_FIELDS)
            sel = []
        counter[0] += 1
        out.append({"k": "k%d" % counter[0], "f": f, "sel": sel, "skip": rng.choice(SKIP_KINDS) if rng.random() < 0.12 else None})
    if out and rng.random() < 0.06:        # the whole selection set collects to nothing
        for t in out:
            t["skip"] = rng.choice(SKIP_KINDS)
    return out


def instantiate(rng, tmpl, perr, allow_arg):
    """node = template + outcome + completion"""
    nodes = []
    for t in tmpl:
        f = t["f"]
        node = {"k": t["k"], "f": f, "sel": t["sel"], "skip": t.get("skip")}
        if node["skip"]:
            node["o"], node["c"] = "ret", {"t": "null"}      # never executed
            nodes.append(node)
            continue
        r = rng.random()
        if f in ("s", "sd") and allow_arg and r < 0.3:
            node["o"] = "arg"
            node["c"] = {"t": "null"}
        elif f not in ("dflt",) + META_LEAF and r < perr:
            node["o"] = "raise"
            node["c"] = {"t": "null"}
        else:
            node["o"] = "ret"
            node["c"] = gen_completion(rng, t, perr, allow_arg)
        nodes.append(node)
    return nodes


def gen_completion(rng, t, perr, allow_arg):
    f = t["f"]
    if f in LEAF_FIELDS:
        return {"t": "leaf"}
    if rng.random() < 0.12:
        return {"t": "null"}
    if f in OBJ_FIELDS:
        return {"t": "obj", "fs": instantiate(rng, t["sel"], perr, allow_arg)}
    items = []
    for _ in range(rng.choice([0, 1, 1, 2, 2, 3])):
        if rng.random() < 0.2:
            items.append({"t": "null"})
        else:
            items.append({"t": "obj", "fs": instantiate(rng, t["sel"], perr, allow_arg)})
    return {"t": "list", "items": items}


def gen_instr(rng):
    """instrumentation stack: int leaf id | list (MultiInstrumentation)"""
    n = rng.choice([1, 1, 2, 2, 3])
    if n == 1:
        return 0 if rng.random() < 0.5 else [0]
    if n == 2:
        return [0, 1]
    return rng.choice([[0, 1, 2], [[0, 1], 2], [0, [1, 2]], [[0], [1, [2]]]])


def gen_case(rng, size=2):
    counter = [0]
    outcome = rng.choice(["exec"] * 6 + OUTCOMES[1:])
    novalidate = outcome == "exec" and rng.random() < 0.15
    tmpl = gen_template(rng, rng.randint(0, size), counter)
    case = {
        "config": rng.choice(CONFIGS),
        "outcome": outcome,
        "doc_is_text": True if outcome == "syntax" else rng.random() < 0.8,
        "serial": rng.random() < 0.3,
        "novalidate": novalidate,
        "use_var": outcome == "vars" or rng.random() < 0.2,
        "mws": rng.choice([0, 0, 1, 2, 3]),
        "instr": gen_instr(rng),
        "tracer": rng.random() < 0.3,
        "fields": instantiate(rng, tmpl, rng.choice([0.0, 0.15, 0.4]), novalidate),
        "sched": [rng.randint(0, 7) for _ in range(24)],
    }
    if not case["serial"] and rng.random() < 0.2:
        counter[0] += 1
        case["fields"].insert(rng.randint(0, len(case["fields"])),
                              {"k": "k%d" % counter[0], "f": "__intro", "intro": rng.choice(sorted(INTRO)), "sel": [], "o": "ret", "c": {"t": "leaf"}})
    if rng.random() < 0.3:
        case["partial"] = gen_partial(rng, case["instr"])
    if outcome == "subscription-op":       # one root field, or validation (SingleFieldSubscriptions) rejects it first
        case["fields"] = case["fields"][:1]
        case["fields"][0]["skip"] = None
        case["use_var"] = False
    elif rng.random() < 0.08:              # EVERY root field excluded: the root selection set collects to nothing
        for nd in case["fields"]:
            nd["skip"] = rng.choice(SKIP_KINDS)
        case["use_var"] = outcome == "vars"
    if outcome == "exec" and rng.random() < 0.08:
        cands = []

        def collect(nodes):
            for nd in live(nodes):
                if nd["f"] not in ("dflt", "__typename", "__intro") and nd["o"] != "arg":
                    cands.append(nd)
                collect_comp(nd["c"])

        def collect_comp(c):
            if c["t"] == "obj":
                collect(c["fs"])
            elif c["t"] == "list":
                for it in c["items"]:
                    collect_comp(it)
        collect(case["fields"])
        if cands:
            nd = rng.choice(cands)
            nd["o"], nd["c"] = "abort", {"t": "null"}
    case["falsy_instr"] = rng.random() < 0.15
    case["send_sk"] = rng.random() < 0.5
    case["mw_flavours"] = [rng.choice(MW_FLAVOURS) for _ in range(case["mws"])]
    return case


def leaves(instr):
    if isinstance(instr, int):
        return [instr]
    out = []
    for c in instr:
        out += leaves(c)
    return out


def is_deferred(config, f):
    if config in ("blocking", "exec-blocking"):
        return False
    if config == "threadpool":
        return f != "dflt"          # wrap_callable submits every non-default resolver (the library's meta-field lambdas too)
    return f.endswith("d")          # asyncio: `async def` resolvers


SKIP_KINDS = ("lit-skip", "lit-include", "var", "inline", "frag")


def has_abort(fields):
    return '"o": "abort"' in json.dumps(fields)


def truncate_at_abort(fields):
    """what a SEQUENTIAL executor still executes when a resolver raises a request-aborting library error: the fields in document
    order up to and including the aborting one (which, for the trace, just 'raises'); nothing after it starts"""
    state = {"done": False}

    def nodes(ns):
        out = []
        for nd in ns:
            if state["done"]:
                break
            if nd.get("skip"):
                out.append(nd)
                continue
            d = dict(nd)
            if nd["o"] == "abort":
                d["o"] = "raise"
                state["done"] = True
                out.append(d)
                break
            d["c"] = comp(nd["c"])
            out.append(d)
        return out

    def comp(c):
        if c["t"] == "obj":
            return {"t": "obj", "fs": nodes(c["fs"])}
        if c["t"] == "list":
            items = []
            for it in c["items"]:
                if state["done"]:
                    break
                items.append(comp(it))
            return {"t": "list", "items": items}
        return c
    return nodes(fields)


def live(nodes):
    """the fields that collect_fields keeps: not excluded by @skip / @include (literally, through a variable, through a fragment)"""
    return [n for n in nodes if not n.get("skip")]


def count_nodes(fields):
    n = 0
    for nd in live(fields):
        n += 1
        n += count_comp(nd["c"])
    return n


def count_comp(c):
    if c["t"] == "obj":
        return count_nodes(c["fs"])
    if c["t"] == "list":
        return sum(count_comp(i) for i in c["items"])
    return 0


# ---------------------------------------------------------------------------------------------
# abstract case -> real request
# ---------------------------------------------------------------------------------------------
def render_sel(tmpl, argmap, path, ptype="Query", env=None):
    """env: {"frags": [fragment definitions], "vars": set of variable names used}"""
    env = env if env is not None else {"frags": [], "vars": set()}
    parts = []
    for t in tmpl:
        f = t["f"]
        if f == "__intro":
            text = "%s: %s" % (t["k"], INTRO[t["intro"]])
            if t.get("skip") == "var":
                env["vars"].add("sk")
                text = "... @skip(if: $sk) { %s }" % text
            elif t.get("skip"):
                text = "... @include(if: false) { %s }" % text
            parts.append(text)
            continue
        args = ""
        if f in ("s", "sd"):
            args = "(x: %s)" % argmap.get(path + (t["k"],), "1")
        sub = ""
        if f in OBJ_FIELDS + LIST_FIELDS:
            child = "I" if f in ("i", "id") else "T"
            sub = " { %s }" % (render_sel(t["sel"], argmap, path + (t["k"],), child, env) if t["sel"] else "zz: v")
        text = "%s: %s%s" % (t["k"], f, args)
        skip = t.get("skip")
        if skip == "lit-skip":
            text = "%s @skip(if: true)%s" % (text, sub)
        elif skip == "lit-include":
            text = "%s @include(if: false)%s" % (text, sub)
        elif skip == "var":
            env["vars"].add("sk")
            text = "%s @skip(if: $sk)%s" % (text, sub)
        elif skip == "inline":
            text = "... @skip(if: true) { %s%s }" % (text, sub)
        elif skip == "frag":
            name = "Sk%d" % len(env["frags"])
            env["frags"].append(None)
            env["frags"][int(name[2:])] = "fragment %s on %s { %s%s }" % (name, ptype, text, sub)
            text = "...%s @include(if: false)" % name
        else:
            text += sub
        parts.append(text)
    return " ".join(parts)


def arg_errors(fields, path, out):
    """template paths (keys only, indices dropped) of the fields whose literal argument must be ill-typed"""
    for nd in live(fields):
        p = path + (nd["k"],)
        if nd["o"] == "arg":
            out[p] = '"oops"'
        _arg_errors_comp(nd["c"], p, out)


def _arg_errors_comp(c, p, out):
    if c["t"] == "obj":
        arg_errors(c["fs"], p, out)
    elif c["t"] == "list":
        for it in c["items"]:
            _arg_errors_comp(it, p, out)


def normalise_args(fields, argmap, path=()):
    """an ill-typed literal applies to EVERY instance of the template field (all list items): make the tree agree"""
    for nd in live(fields):
        p = path + (nd["k"],)
        if p in argmap:
            nd["o"] = "arg"
            nd["c"] = {"t": "null"}
        _normalise_comp(nd["c"], argmap, p)


def _normalise_comp(c, argmap, p):
    if c["t"] == "obj":
        normalise_args(c["fs"], argmap, p)
    elif c["t"] == "list":
        for it in c["items"]:
            _normalise_comp(it, argmap, p)


def build_document(case):
    argmap = {}
    arg_errors(case["fields"], (), argmap)
    normalise_args(case["fields"], argmap)
    tmpl = [{"k": n["k"], "f": n["f"], "sel": n["sel"], "intro": n.get("intro"), "skip": n.get("skip")} for n in case["fields"]]
    kind = "mutation" if case["serial"] else "query"
    if case["outcome"] == "subscription-op":
        kind = "subscription"
    env = {"frags": [], "vars": set()}
    body = render_sel(tmpl, argmap, (), kind.capitalize(), env)
    out = case["outcome"]
    decls = []
    variables = {}
    if case["use_var"]:
        decls.append("$v: Int!")
        body += " kv: s(x: $v)"
        if out != "vars":
            variables["v"] = 3
    if "sk" in env["vars"]:
        decls.append("$sk: Boolean = true")          # excluded through a variable: its declared default, or sent explicitly
        if case.get("send_sk"):
            variables["sk"] = True
    if out == "root-collect-error":
        # the root selection set's directive condition cannot be evaluated: a nullable variable with a default, sent as null
        decls.append("$nb: Boolean = true")
        body += " kz: v @skip(if: $nb)"
        variables["nb"] = None
    decl = "(%s)" % ", ".join(decls) if decls else ""
    tail = (" " + " ".join(env["frags"])) if env["frags"] else ""
    opname = None
    if out == "syntax":
        text = "%s Q%s { %s " % (kind, decl, body)            # unterminated selection set
    elif out == "validation":
        text = "%s Q%s { %s nope }%s" % (kind, decl, body, tail)       # unknown field
    elif out == "opsel-ambiguous":
        text = "%s Q%s { %s } query Other { zz: v }%s" % (kind, decl, body, tail)
    elif out == "opsel-unknown":
        text = "%s Q%s { %s }%s" % (kind, decl, body, tail)
        opname = "Missing"
    else:
        text = "%s Q%s { %s }%s" % (kind, decl, body, tail)
    return text, opname, variables


def model_fields(case, opaque=None):
    """field tree as sent to the Lean model (+ the implicit `kv` field of use_var).
    `opaque` collects the rendered paths of fields whose resolver body cannot be observed (library lambdas of meta fields)."""
    cfg = case["config"]
    opaque = set() if opaque is None else opaque

    def conv_nodes(nodes, path):
        out = []
        for n in live(nodes):
            p = path + (n["k"],)
            if n["f"] == "__intro":
                out.append(intro_node(cfg, n["k"], n["intro"], opaque))
                continue
            if n["f"] in META_LEAF:
                opaque.add(pstr(p))
            out.append({"k": n["k"], "d": is_deferred(cfg, n["f"]), "o": n["o"], "c": conv_comp(n["c"], p)})
        return out

    def conv_comp(c, p):
        if c["t"] == "obj":
            return {"t": "obj", "fs": conv_nodes(c["fs"], p)}
        if c["t"] == "list":
            return {"t": "list", "items": [conv_comp(it, p + (i,)) for i, it in enumerate(c["items"])]}
        return {"t": c["t"]}
    aborted = has_abort(case["fields"])
    fs = conv_nodes(truncate_at_abort(case["fields"]) if aborted else case["fields"], ())
    if case["use_var"] and not aborted:
        fs.append({"k": "kv", "d": is_deferred(cfg, "s"), "o": "ret", "c": {"t": "leaf"}})
    return fs


_INTRO_CACHE = {}


def intro_shape(intro):
    """abstract field tree of an introspection root field, derived from a REFERENCE run of the real library (data shape) and the
    introspection types (which fields have a library resolver = unobservable body, which use the default resolver)."""
    if intro in _INTRO_CACHE:
        return _INTRO_CACHE[intro]
    from py_gql import graphql_blocking
    from py_gql.lang import parse
    from py_gql.schema import unwrap_type
    from py_gql.schema.introspection import SCHEMA_INTROSPECTION_FIELD, TYPE_INTROSPECTION_FIELD, TYPE_NAME_INTROSPECTION_FIELD
    schema = schema_for("sync")
    text = "{ x: %s }" % INTRO[intro]
    res = graphql_blocking(schema, text, context=RunCtx({}), root={"dflt": 1})
    assert not res.errors, res.errors
    meta = {"__schema": SCHEMA_INTROSPECTION_FIELD, "__type": TYPE_INTROSPECTION_FIELD, "__typename": TYPE_NAME_INTROSPECTION_FIELD}
    op = parse(text).definitions[0]

    def walk_field(parent_type, node, value):
        name = node.name.value
        fd = meta.get(name) or parent_type.field_map[name]
        key = node.alias.value if node.alias else name
        inner = unwrap_type(fd.type)
        # which resolver `Executor.field_resolver` picks: field.resolver or parent_type.default_resolver or the schema-wide default.
        # Only the LAST one is the harness's recording default resolver (and is not runtime-wrapped); the first two are library
        # code: body not observable, wrapped by the runtime (thread pool: submitted), middlewares wrap all three alike.
        lib = fd.resolver is not None or getattr(parent_type, "default_resolver", None) is not None
        return {"k": key, "lib": lib, "c": comp(inner, node, value)}

    def comp(inner, node, value):
        if value is None:
            return {"t": "null"}
        if isinstance(value, list):
            return {"t": "list", "items": [comp(inner, node, v) for v in value]}
        if isinstance(value, dict):
            return {"t": "obj", "fs": [walk_field(inner, sub, value[sub.alias.value if sub.alias else sub.name.value])
                                       for sub in node.selection_set.selections]}
        return {"t": "leaf"}
    root = walk_field(schema.query_type, op.selection_set.selections[0], res.data["x"])
    _INTRO_CACHE[intro] = root
    return root


def intro_node(cfg, key, intro, opaque):
    def conv(n, path, k=None):
        p = path + (k or n["k"],)
        if n["lib"]:
            opaque.add(pstr(p))
        # a library resolver is wrapped by the runtime like any other (thread pool: submitted); default-resolved fields are not
        return {"k": k or n["k"], "d": cfg == "threadpool" and n["lib"], "o": "ret", "c": conv_comp(n["c"], p)}

    def conv_comp(c, p):
        if c["t"] == "obj":
            return {"t": "obj", "fs": [conv(f, p) for f in c["fs"]]}
        if c["t"] == "list":
            return {"t": "list", "items": [conv_comp(it, p + (i,)) for i, it in enumerate(c["items"])]}
        return {"t": c["t"]}
    return conv(intro_shape(intro), (), key)


def observable(model_trace, opaque):
    """drop the resolver-body events the real side cannot record (meta-field lambdas of the library)"""
    if not opaque:
        return model_trace
    return [e for e in model_trace if not (e.split(":")[0] in ("call", "ret", "raise") and e.split(":", 1)[1] in opaque)]


def model_instr(instr, partial):
    if isinstance(instr, int):
        spec = partial.get(str(instr))
        if spec is None:
            return instr
        return {"id": instr, "mask": sorted(KINDS.index(k) for k in set(spec["hooks"]))}
    return [model_instr(c, partial) for c in instr]


def model_request(case):
    out = case["outcome"]
    return {
        "op": "trace",
        "executor": "blocking" if case["config"] == "blocking" else "executor",
        "docText": bool(case["doc_is_text"]),
        "parse": "syntax" if out == "syntax" else "ok",
        "valid": out != "validation",
        "opsel": "error" if out.startswith("opsel") else "ok",
        "vars": "error" if out == "vars" else "ok",
        "subscriptionOp": out == "subscription-op",
        "rootCollectFails": out == "root-collect-error",
        "serial": bool(case["serial"]),
        "mws": case["mws"],
        "instr": model_instr(case["instr"], case.get("partial") or {}),
        "fields": model_fields(case),
        "sched": case["sched"],
    }


def plan_of(case):
    plan = {}

    def walk_nodes(nodes, path):
        for n in live(nodes):
            p = path + (n["k"],)
            plan[p] = n
            walk_comp(n["c"], p)

    def walk_comp(c, p):
        if c["t"] == "obj":
            walk_nodes(c["fs"], p)
        elif c["t"] == "list":
            for i, it in enumerate(c["items"]):
                walk_comp(it, p + (i,))
    walk_nodes(case["fields"], ())
    if case["use_var"]:
        plan[("kv",)] = {"k": "kv", "f": "s", "o": "ret", "c": {"t": "leaf"}}
    return plan


def value_of(c):
    t = c["t"]
    if t == "leaf":
        return 7
    if t == "null":
        return None
    if t == "obj":
        return {"dflt": 1, "__typename__": "T"}
    return [value_of(i) for i in c["items"]]


class RunCtx:
    def __init__(self, plan):
        self.plan = plan
        self.log = []
        self.pending = []     # asyncio: (path, future) of suspended resolvers
        self.loop = None


_SCHEMAS = {}


def schema_for(mode):
    """mode 'sync': every resolver a plain function; 'async': the *d fields are `async def`"""
    if mode in _SCHEMAS:
        return _SCHEMAS[mode]
    from py_gql.exc import ResolverError
    from py_gql.schema import Argument, Field, Int, ListType, NonNullType, ObjectType, Schema

    def body_start(root, ctx, info):
        p = tuple(info.path)
        ctx.log.append(("call", p))
        return p, ctx.plan[p]

    def body_end(ctx, p, nd):
        if nd["o"] == "abort":
            # a LIBRARY error raised by a resolver: it is not a field error, it aborts the whole request and is reported as a response
            from py_gql.exc import ExecutionError
            ctx.log.append(("raise", p))
            raise ExecutionError("aborted at %s" % (p,))
        if nd["o"] == "raise":
            ctx.log.append(("raise", p))
            raise ResolverError("boom %s" % (p,))
        ctx.log.append(("ret", p))
        return value_of(nd["c"])

    def sync_resolver(root, ctx, info, **args):
        p, nd = body_start(root, ctx, info)
        return body_end(ctx, p, nd)

    async def async_resolver(root, ctx, info, **args):
        p, nd = body_start(root, ctx, info)
        fut = ctx.loop.create_future()
        ctx.pending.append((p, fut))
        await fut
        return body_end(ctx, p, nd)

    def res(name):
        return async_resolver if (mode == "async" and name.endswith("d")) else sync_resolver

    def fields(self_ref, with_resolvers=True):
        t = self_ref[0]
        iface = self_ref[1]
        if not with_resolvers:
            return [Field(f.name, f.type, args=list(f.arguments)) for f in fields(self_ref)]
        return [
            Field("i", lambda: iface, resolver=res("i")),
            Field("id", lambda: iface, resolver=res("id")),
            Field("v", Int, resolver=res("v")),
            Field("vd", Int, resolver=res("vd")),
            Field("s", Int, args=[Argument("x", NonNullType(Int))], resolver=res("s")),
            Field("sd", Int, args=[Argument("x", NonNullType(Int))], resolver=res("sd")),
            Field("dflt", Int),
            Field("n", lambda: t, resolver=res("n")),
            Field("nd", lambda: t, resolver=res("nd")),
            Field("l", lambda: ListType(t), resolver=res("l")),
            Field("ld", lambda: ListType(t), resolver=res("ld")),
        ]
    from py_gql.schema import InterfaceType
    ref = [None, None]
    I = InterfaceType("I", lambda: fields(ref, False))
    T = ObjectType("T", lambda: fields(ref), interfaces=[I])
    ref[0] = T
    ref[1] = I
    Q = ObjectType("Query", fields(ref))
    M = ObjectType("Mutation", fields(ref))
    S = ObjectType("Subscription", fields(ref))
    s = Schema(query_type=Q, mutation_type=M, subscription_type=S)

    def logging_default(root, ctx, info, **args):
        # the schema-wide default resolver (never wrapped by the runtime): used by `dflt`
        from py_gql.execution import default_resolver
        p = tuple(info.path)
        ctx.log.append(("call", p))
        ctx.log.append(("ret", p))
        return default_resolver(root, ctx, info, **args)
    s.default_resolver = logging_default
    s.validate()
    _SCHEMAS[mode] = s
    return s


class ManualExecutor:
    """stands in for ThreadPoolRuntime._inner: nothing runs until the harness says so"""

    def __init__(self):
        self.queue = []

    def submit(self, fn, *a, **kw):
        f = Future()
        self.queue.append((f, fn, a, kw))
        return f

    def run(self, i):
        f, fn, a, kw = self.queue.pop(i)
        f.set_running_or_notify_cancel()
        try:
            r = fn(*a, **kw)
        except BaseException as e:  # noqa
            f.set_exception(e)
        else:
            f.set_result(r)


class Hang(Exception):
    pass


class InfraBound(Exception):
    """a bound that exists only so that the check cannot block forever"""


def make_instr(instr, log, tracers, partial=None, falsy=False):
    import types
    from py_gql.execution import Instrumentation, MultiInstrumentation
    partial = partial or {}

    def mk(name, with_info):
        if with_info:
            def hook(self, root, context, info):
                log.append(("h", self.ident, name, tuple(info.path)))
        else:
            def hook(self):
                log.append(("h", self.ident, name, None))
        return hook

    def fn_of(kind):
        return mk(kind, kind.startswith("field"))

    def rec(ident, spec):
        hooks = KINDS if spec is None else [k for k in KINDS if k in spec["hooks"]]
        style = "class" if spec is None else spec["style"]
        if style == "instance":
            # hooks set as INSTANCE attributes of a class that overrides nothing
            inst = type("RecInstance", (Instrumentation,), {})()
            inst.ident = ident
            for k in hooks:
                setattr(inst, method_of(k), types.MethodType(fn_of(k), inst))
            return inst
        if style == "subclass":
            # a subclass of a subclass: the hooks are spread over two levels, the leaf class adds nothing
            half = (len(hooks) + 1) // 2
            Base = type("RecBase", (Instrumentation,), {method_of(k): fn_of(k) for k in hooks[:half]})
            Mid = type("RecMid", (Base,), {method_of(k): fn_of(k) for k in hooks[half:]})
            cls = type("RecLeaf", (Mid,), {})
        else:
            cls = type("Rec", (Instrumentation,), {method_of(k): fn_of(k) for k in hooks})
        if falsy:
            cls.__len__ = lambda self: 0        # e.g. a tracer that IS the (still empty) collection of its spans: a falsy object
        inst = cls()
        inst.ident = ident
        return inst

    def build(x):
        if isinstance(x, int):
            return rec(x, partial.get(str(x)))
        return MultiInstrumentation(*[build(c) for c in x])
    top = build(instr)
    if any(str(i) in partial for i in leaves(instr)):
        top = MultiInstrumentation(rec(REF, None), top)
    if tracers is not None:
        from py_gql.tracers import ApolloTracer
        tr = ApolloTracer()
        tracers.append(tr)
        # the tracer rides outside the recorded stack so that the recorded order is untouched
        top = MultiInstrumentation(tr, top)
    return top


MW_FLAVOURS = ("function", "lambda", "bound-method", "callable-instance", "falsy-len-instance", "falsy-bool-instance", "partial",
               "callable-list-subclass")


def make_middlewares(n, log, flavours=None):
    """n recording middlewares; flavours[i] says what KIND of callable middleware i is (all behave identically).
    (apply_middlewares only does functools.partial(mw, next): generator-based middlewares are not a thing in this library.)"""
    import functools
    flavours = flavours or []

    def mk(i):
        def mw(next_, root, ctx, info, **args):
            p = tuple(info.path)
            log.append(("mw>", i, p))
            try:
                return next_(root, ctx, info, **args)
            finally:
                log.append(("mw<", i, p))
        return mw

    def flavour(i, kind):
        fn = mk(i)
        if kind == "lambda":
            return lambda next_, root, ctx, info, **args: fn(next_, root, ctx, info, **args)
        if kind == "partial":
            def with_tag(tag, next_, root, ctx, info, **args):
                return fn(next_, root, ctx, info, **args)
            return functools.partial(with_tag, "tag")
        if kind == "bound-method":
            class Holder:
                def handle(self, next_, root, ctx, info, **args):
                    return fn(next_, root, ctx, info, **args)
            return Holder().handle
        if kind in ("callable-instance", "falsy-len-instance", "falsy-bool-instance"):
            class Callable_:
                def __call__(self, next_, root, ctx, info, **args):
                    return fn(next_, root, ctx, info, **args)
            if kind == "falsy-len-instance":
                Callable_.__len__ = lambda self: 0           # e.g. a middleware object holding an (empty) registry
            elif kind == "falsy-bool-instance":
                Callable_.__bool__ = lambda self: False
            return Callable_()
        if kind == "callable-list-subclass":
            class Chain(list):                                # an empty, hence falsy, container that is callable
                def __call__(self, next_, root, ctx, info, **args):
                    return fn(next_, root, ctx, info, **args)
            return Chain()
        return fn
    return [flavour(i, flavours[i] if i < len(flavours) else "function") for i in range(n)]


def run_real(case, scale=1):
    """-> (log, result or None, error string or None, tracer payload or None)"""
    import time as _time
    t_start = _time.monotonic()
    stall = STALL_ITERS * scale
    from py_gql import process_graphql_query
    from py_gql.execution import BlockingExecutor, Executor
    from py_gql.execution.runtime import AsyncIORuntime, BlockingRuntime, ThreadPoolRuntime
    from py_gql.lang import parse

    case = copy.deepcopy(case)
    text, opname, variables = build_document(case)
    cfg = case["config"]
    schema = schema_for("async" if cfg == "asyncio" else "sync")
    rc = RunCtx(plan_of(case))
    log = rc.log
    tracers = [] if case.get("tracer") else None
    instr = make_instr(case["instr"], log, tracers, case.get("partial"), bool(case.get("falsy_instr")))
    mws = make_middlewares(case["mws"], log, case.get("mw_flavours"))
    doc = text
    if not case["doc_is_text"]:
        doc = parse(text)
    kw = dict(variables=variables, operation_name=opname, root={"dflt": 1, "__typename__": "T"}, context=rc,
              middlewares=mws, instrumentation=instr)
    if case.get("novalidate"):
        kw["validators"] = []
    sched = list(case["sched"])
    result = None
    try:
        if cfg == "blocking":
            result = process_graphql_query(schema, doc, executor_cls=BlockingExecutor, **kw)
        elif cfg == "exec-blocking":
            result = process_graphql_query(schema, doc, executor_cls=Executor, runtime=BlockingRuntime(), **kw)
        elif cfg == "threadpool":
            rt = ThreadPoolRuntime(max_workers=1)
            rt._inner.shutdown(wait=False)
            man = ManualExecutor()
            rt._inner = man
            # single-threaded world: a blocking wait of the code under test on a pending Future can never return - detected
            # deterministically (C08_world._Deadlock), also when the code swallowed the detector's exception
            wd = W08.watchdog(seconds=INFRA_SECONDS + 5, single_threaded=True)
            try:
                with wd:
                    fut = process_graphql_query(schema, doc, runtime=rt, **kw)
                    steps = 0
                    while man.queue:
                        steps += 1
                        # every step completes one task; the number of tasks is bounded by the number of fields of the case
                        if steps > stall + 50 * (count_nodes(case["fields"]) + 60):
                            raise Hang("manual executor does not drain")
                        if _time.monotonic() - t_start > INFRA_SECONDS:
                            raise InfraBound("%.0f s" % INFRA_SECONDS)
                        i = (sched.pop(0) if sched else 0) % len(man.queue)
                        man.run(i)
            except W08.Watchdog:
                raise Hang("the code under test blocks the calling thread on a pending Future")
            if wd.blocked:
                raise Hang("the code under test blocks the calling thread on a pending Future")
            if not fut.done():
                raise Hang("result future never completed")     # nothing left to run and nothing running: not time dependent
            result = fut.result(timeout=0)
        else:
            loop = asyncio.new_event_loop()
            rc.loop = loop
            try:
                rt = AsyncIORuntime(loop=loop, execute_blocking_functions_in_thread=False)

                async def main():
                    task = asyncio.ensure_future(process_graphql_query(schema, doc, runtime=rt, **kw))
                    while not task.done():
                        # settle: let every runnable coroutine reach its suspension point
                        last = -1
                        stable = 0
                        idle = 0
                        seen = len(log)
                        while not task.done() and (stable < 4 or not rc.pending):
                            await asyncio.sleep(0)
                            stable = stable + 1 if len(rc.pending) == last else 0
                            last = len(rc.pending)
                            if len(log) != seen:
                                seen, idle = len(log), 0        # the event log grew: progress
                            else:
                                idle += 1
                            if idle > stall:
                                task.cancel()
                                raise Hang("asyncio request suspended with nothing to complete (%d idle loop iterations)" % stall)
                            if _time.monotonic() - t_start > INFRA_SECONDS:
                                task.cancel()
                                raise InfraBound("%.0f s" % INFRA_SECONDS)
                        if task.done():
                            break
                        i = (sched.pop(0) if sched else 0) % len(rc.pending)
                        p, f = rc.pending.pop(i)
                        if not f.done():        # a sibling cancelled by the runtime after another field aborted the request
                            f.set_result(None)
                    return task.result()
                result = loop.run_until_complete(main())
            finally:
                try:
                    loop.run_until_complete(loop.shutdown_asyncgens())
                finally:
                    loop.close()
    except Hang as e:
        return log, None, "hang:%s" % e, None
    except InfraBound as e:
        return log, None, "infra:%s" % e, None
    except Exception as e:  # noqa
        return log, None, "internal:%s" % type(e).__name__, None
    payload = None
    if tracers:
        try:
            result.add_extension(tracers[0])
            payload = tracers[0].payload()
            json.dumps(result.response())
        except Exception as e:  # noqa
            payload = {"__error__": "%s: %s" % (type(e).__name__, e)}
    return log, result, None, payload


# ---------------------------------------------------------------------------------------------
# traces
# ---------------------------------------------------------------------------------------------
def pstr(p):
    return "/".join(str(x) for x in p)


def ev_str(e):
    """same rendering as Instr.lean `Ev.render`"""
    if e[0] == "h":
        _, ident, name, p = e
        return "i%d:%s" % (ident, name) + ("" if p is None else ":" + pstr(p))
    if e[0] in ("mw>", "mw<"):
        return "%s%d:%s" % (e[0], e[1], pstr(e[2]))
    return "%s:%s" % (e[0], pstr(e[1]))


def path_of(s):
    """path part of a rendered event ('' for stage events)"""
    parts = s.split(":")
    if parts[0].startswith("i"):
        return parts[2] if len(parts) > 2 else None
    return parts[1]


def project(trace):
    d = {}
    for s in trace:
        p = path_of(s)
        d.setdefault(p, []).append(s)
    return d


# ---------------------------------------------------------------------------------------------
# the direct oracle (the statement of C16, nothing more)
# ---------------------------------------------------------------------------------------------
STAGES = ("query", "parsing", "validation", "execution")


def oracle(case, log, payload):
    """-> list of (signature, what)"""
    bad = []
    all_ids = leaves(case["instr"])
    partial = {int(k): v for k, v in (case.get("partial") or {}).items() if int(k) in all_ids}
    cfg = case["config"]
    oc = case["outcome"]
    tag = "%s:%s" % (oc, "text" if case["doc_is_text"] else "ast")
    full_log = log
    never_awaited = set()
    plan_d = plan_of(prepared(case))
    aborted = has_abort(case["fields"])
    sync_cfg = cfg in ("blocking", "exec-blocking")
    has_ref = any(e[0] == "h" and e[1] == REF for e in full_log) or bool(partial)
    # --- partial members: each sees exactly what a full instrumentation sees, restricted to the hooks it overrides
    ref_seen = [(e[2], e[3]) for e in full_log if e[0] == "h" and e[1] == REF]
    for ident, spec in sorted(partial.items()):
        seen = [(e[2], e[3]) for e in full_log if e[0] == "h" and e[1] == ident]
        want = [x for x in ref_seen if x[0] in spec["hooks"]]
        if seen != want:
            missing = sorted({x[0] for x in want} - {x[0] for x in seen})
            extra = sorted({x[0] for x in seen} - {x[0] for x in want})
            cls = "misses:" + ",".join(missing) if missing else ("extra:" + ",".join(extra) if extra else "count-or-order")
            bad.append(("multi-member:%s:overrides=%s:%s" % (cls, override_class(spec["hooks"]), spec["style"]),
                        "stacked member %d (overrides %s, %s) saw %d hooks, a directly passed instance sees %d: %s vs %s"
                        % (ident, spec["hooks"], spec["style"], len(seen), len(want), seen[:6], want[:6])))
    # --- stacking order over ALL members: a start hook reaches the overriding members in order, an end hook in reverse
    stack_log = [e for e in full_log if e[0] == "h" and e[1] != REF]
    g = 0
    while g < len(stack_log):
        name, p = stack_log[g][2], stack_log[g][3]
        h = g
        while h < len(stack_log) and stack_log[h][2] == name and stack_log[h][3] == p:
            h += 1
        order = [i for i in all_ids if i not in partial or name in partial[i]["hooks"]]
        want = order if name.endswith("+") else order[::-1]
        if [e[1] for e in stack_log[g:h]] != want:
            bad.append(("multi-order:%s:%s" % (name.rstrip("+-") if p is None else "field", "start" if name.endswith("+") else "end"),
                        "stacked instrumentations %s ran %s as %s, expected %s" % (all_ids, name, [e[1] for e in stack_log[g:h]], want)))
            break
        g = h
    # everything below is checked on the FULL recorders (the hidden reference counts as one)
    ids = [i for i in all_ids if i not in partial] + ([REF] if has_ref and ref_seen else [])
    log = [e for e in full_log if not (e[0] == "h" and e[1] in partial)]
    for ident in ids:
        hooks = [(e[2], e[3]) for e in log if e[0] == "h" and e[1] == ident]
        # --- stages: at most once, well bracketed, an end for every start, inside query
        st = [n for n, p in hooks if p is None]
        if not st:
            bad.append(("instrumentation-ignored:no-hook-fired:%s" % ("falsy-object" if case.get("falsy_instr") else "other"),
                        "instrumentation %s received no hook at all for a request that was processed" % ident))
            continue
        for s in STAGES:
            for pol in "+-":
                if st.count(s + pol) > 1:
                    bad.append(("stage-twice:%s%s:%s" % (s, pol, tag), "hook on_%s %s fired %d times" % (s, pol, st.count(s + pol))))
            if st.count(s + "+") != st.count(s + "-"):
                bad.append(("stage-unpaired:%s:%s" % (s, tag), "stage %s: %d starts, %d ends" % (s, st.count(s + "+"), st.count(s + "-"))))
        stack = []
        nested = True
        for n in st:
            if n.endswith("+"):
                stack.append(n[:-1])
            elif stack and stack[-1] == n[:-1]:
                stack.pop()
            else:
                nested = False
                break
        if not nested or (st and (st[0] != "query+" or st[-1] != "query-")):
            bad.append(("stages-not-nested:%s:%s" % ("".join(x[0] + x[-1] for x in st), tag),
                        "stage hooks are not properly nested: %s" % " ".join(st)))
        # --- fields
        starts, ends = {}, {}
        for i, (n, p) in enumerate(hooks):
            if n == "field+":
                starts.setdefault(p, []).append(i)
            elif n == "field-":
                ends.setdefault(p, []).append(i)
        finished = {e[1] for e in log if e[0] in ("ret", "raise")}
        names = [n for n, _p in hooks]
        if any(n.startswith("field") for n in names):
            lo = names.index("execution+") if "execution+" in names else None
            hi = names.index("execution-") if "execution-" in names else None
            fidx = [i for i, n in enumerate(names) if n.startswith("field")]
            if lo is None or hi is None or min(fidx) < lo or max(fidx) > hi:
                late = [pstr(hooks[i][1]) + names[i][-1] for i in fidx if hi is not None and i > hi][:3]
                n4 = aborted and cfg == "threadpool" and late and min(fidx) >= (lo if lo is not None else 0)
                bad.append((("field-hook-after-execution-end:sibling-in-flight-at-abort:threadpool" if n4 else
                             "field-hook-outside-execution-stage:%s:%s" % ("after-end" if late else "other", cfg)),
                            "field hooks fire outside on_execution_start .. on_execution_end: %s" % (late or names[:12])))
        invoked = {e[1] for e in log if e[0] == "call"}
        for p in set(starts) | set(ends):
            if (aborted and cfg == "asyncio" and len(starts.get(p, [])) == 1 and not ends.get(p) and p not in invoked
                    and plan_d.get(p, {}).get("o") != "arg" and not is_meta_path(p, plan_d)):
                never_awaited.add(p)
                bad.append(("field-end-missing:never-awaited-sibling-of-sync-abort:asyncio",
                            "field %s was started, a later sibling aborted the request synchronously, its coroutine was never awaited: no end hook" % pstr(p)))
                continue
            if len(starts.get(p, [])) != 1 or len(ends.get(p, [])) != 1:
                bad.append(("field-hooks-count:%d+%d-:%s" % (len(starts.get(p, [])), len(ends.get(p, [])), cfg),
                            "field %s: %d start hooks, %d end hooks" % (pstr(p), len(starts.get(p, [])), len(ends.get(p, [])))))
    # --- positions in the full log (all instrumentations interleaved)
    idx = {}
    for i, e in enumerate(log):
        if e[0] == "h" and e[3] is not None:
            idx.setdefault((e[2], e[3]), []).append(i)
        elif e[0] in ("call", "ret", "raise"):
            idx.setdefault((e[0], e[1]), []).append(i)
        elif e[0] == "mw>":
            idx.setdefault(("mw>", e[2]), []).append((i, e[1]))
    called = [k[1] for k in idx if k[0] == "call"]
    for p in called:
        c = idx[("call", p)]
        done = idx.get(("ret", p), []) + idx.get(("raise", p), [])
        if aborted and cfg == "asyncio" and not done:
            continue            # cancelled by the runtime when another field aborted the request: invoked, never returns (its END hook must still fire)
        if len(c) != 1 or len(done) != 1:
            bad.append(("resolver-calls:%d:%s" % (len(c), cfg), "field %s: resolver invoked %d times, finished %d times" % (pstr(p), len(c), len(done))))
            continue
        s_ = idx.get(("field+", p), [])
        e_ = idx.get(("field-", p), [])
        if len(s_) != len(ids) or len(e_) != len(ids):
            bad.append(("resolved-field-hooks:%d+%d-of%d:%s" % (len(s_), len(e_), len(ids), cfg),
                        "resolved field %s: %d start / %d end hooks for %d instrumentations" % (pstr(p), len(s_), len(e_), len(ids))))
            continue
        if not (max(s_) < c[0]):
            bad.append(("field-start-after-call:%s" % cfg, "field %s: start hook after the resolver was invoked" % pstr(p)))
        if not (done[0] < min(e_)):
            bad.append(("field-end-before-return:%s" % cfg, "field %s: end hook before the resolver finished" % pstr(p)))
        # middlewares: each exactly once per call, last outermost, between start hook and call
        m = idx.get(("mw>", p), [])
        order = [j for _, j in m]
        want = list(range(case["mws"] - 1, -1, -1))
        if order != want:
            bad.append(("middleware-order:%s!=%s:%s" % ("".join(map(str, order)), "".join(map(str, want)), cfg),
                        "field %s: middlewares entered in order %s, documented %s" % (pstr(p), order, want)))
        elif m and not (max(s_) < m[0][0] and m[-1][0] < c[0]):
            bad.append(("middleware-outside-field:%s" % cfg, "field %s: middleware ran outside start hook .. resolver call" % pstr(p)))
    # --- EVERY field resolution (own fields, `__typename`, `__schema`, `__type` and everything below them) passes through
    #     every middleware exactly once, last one outermost, inside its start .. end hooks. The resolver bodies of the
    #     library's meta fields cannot be recorded, so this check is keyed on the start hook, not on the call event.
    plan = plan_of(prepared(case))       # after argument-error normalisation: what the real run used
    want = list(range(case["mws"] - 1, -1, -1))
    for k in list(idx):
        if k[0] != "field+":
            continue
        p = k[1]
        nd = plan.get(p)
        if nd is not None and nd.get("o") == "arg":
            expect = []             # argument coercion failed: the resolver (and its middlewares) must not run
        else:
            expect = want
        m = idx.get(("mw>", p), [])
        order = [j for _, j in m]
        kindp = "meta" if is_meta_path(p, plan) else "field"
        if order != expect:
            if ("call", p) in idx:
                continue            # already reported by the call-keyed check above
            bad.append(("middleware-order:%s!=%s:%s:%s%s" % ("".join(map(str, order)), "".join(map(str, expect)), kindp, cfg, flavour_tag(case, order, expect)),
                        "%s %s: middlewares entered in order %s, documented %s" % (kindp, pstr(p), order, expect)))
        elif m:
            s_ = idx.get(("field+", p), [])
            e_ = idx.get(("field-", p), [])
            if not (max(s_) < m[0][0] and (not e_ or m[-1][0] < min(e_))):
                bad.append(("middleware-outside-field:%s:%s" % (kindp, cfg), "%s %s: middleware ran outside its start .. end hooks" % (kindp, pstr(p))))
    # a middleware chain that ran for a path that never started
    for k in idx:
        if k[0] == "mw>" and ("field+", k[1]) not in idx:
            bad.append(("middleware-without-field:%s" % cfg, "field %s: middlewares ran but no start hook fired" % pstr(k[1])))
    # --- ApolloTracer
    if payload is not None:
        bad += tracer_oracle(case, full_log, payload, never_awaited)
    return bad


def flavour_tag(case, order, expect):
    """which KIND of middleware went missing / was added"""
    fl = case.get("mw_flavours") or []
    missing = [fl[i] if i < len(fl) else "function" for i in expect if i not in order]
    return (":missing=" + ",".join(sorted(set(missing)))) if missing else ""


def is_meta_path(p, plan):
    """the field at `p` is a meta field or lies below an introspection root field"""
    for n in range(len(p), 0, -1):
        nd = plan.get(p[:n])
        if nd is not None:
            return nd["f"] in META_LEAF + ("__intro",)
    return False


def override_class(hooks):
    hs = set(hooks)
    for name, preset in sorted(PARTIAL_PRESETS.items()):
        if hs == set(preset):
            return name
    has_fs, has_fe = "field+" in hs, "field-" in hs
    return "mixed(field%s%s)" % ("+" if has_fs else "", "-" if has_fe else "")


def tracer_oracle(case, log, payload, never_awaited=()):
    bad = []
    tag = case["outcome"]
    if "__error__" in payload:
        return [("tracer-payload-raises:%s" % tag, "ApolloTracer.payload()/response() raised %s" % payload["__error__"])]
    for key in ("startTime", "endTime", "duration"):
        if payload.get(key) is None:
            bad.append(("tracer-missing:%s:%s" % (key, tag), "tracing payload has no %s" % key))
    if payload.get("version") != 1:
        bad.append(("tracer-version", "tracing payload version"))
    for key in ("parsing", "validation"):
        started = any(e[0] == "h" and e[2] == key + "+" for e in log)
        sec = payload.get(key)
        if started != (sec is not None):
            bad.append(("tracer-section:%s:%s" % (key, tag), "tracing %s section presence disagrees with the hooks" % key))
        elif sec is not None and (not isinstance(sec.get("duration"), int) or not isinstance(sec.get("startOffset"), int)):
            bad.append(("tracer-section-open:%s:%s" % (key, tag), "tracing %s section has no duration/startOffset: %r" % (key, sec)))
    started = sorted({e[3] for e in log if e[0] == "h" and e[2] == "field+"}, key=repr)
    ex = payload.get("execution")
    res = (ex or {}).get("resolvers", [])
    if sorted((tuple(r["path"]) for r in res), key=repr) != started:
        bad.append(("tracer-resolvers:%s" % tag, "tracing resolvers %r differ from the started fields %r" % ([r["path"] for r in res], started)))
    for r in res:
        if tuple(r["path"]) in never_awaited:
            continue            # reported as field-end-missing:never-awaited-sibling-of-sync-abort
        if not isinstance(r.get("duration"), int) or not isinstance(r.get("startOffset"), int):
            bad.append(("tracer-resolver-open:%s" % tag, "tracing resolver entry without duration: %r" % (r,)))
            break
    return bad


# ---------------------------------------------------------------------------------------------
# correspondence
# ---------------------------------------------------------------------------------------------
def compare(case, real, model):
    """-> None or (signature, what)"""
    cfg = case["config"]
    if has_abort(case["fields"]) and cfg in ("threadpool", "asyncio"):
        return None     # whether siblings in flight are cancelled (asyncio) or waited for (thread pool) depends on the runtime: only the
        #                 direct oracle applies (every started field ended exactly once, inside the execution stage)
    if cfg != "asyncio":
        if real != model:
            i = 0
            while i < min(len(real), len(model)) and real[i] == model[i]:
                i += 1
            r = real[i] if i < len(real) else "<end>"
            m = model[i] if i < len(model) else "<end>"
            return ("corr:trace:%s:%s:%s-vs-%s" % (cfg, case["outcome"], ev_class(r), ev_class(m)),
                    "traces differ at event %d: real %s, model %s" % (i, r, m))
        return None
    pr, pm = project(real), project(model)
    # stage events: total order per instrumentation is part of the model
    for p in sorted(set(pr) | set(pm), key=repr):
        a, b = pr.get(p, []), pm.get(p, [])
        if p is not None:
            # middleware exits of a deferred resolver happen when the coroutine object is returned: order-insensitive here
            a = [x for x in a if not x.startswith("mw<")]
            b = [x for x in b if not x.startswith("mw<")]
        if a != b:
            return ("corr:projection:%s:%s:%s" % (cfg, case["outcome"], "stage" if p is None else "field"),
                    "projection on %r differs: real %s, model %s" % (p, a, b))
    return None


def ev_class(s):
    if s == "<end>":
        return s
    parts = s.split(":")
    if parts[0].startswith("i"):
        return parts[1]
    return parts[0].rstrip("0123456789")


# ---------------------------------------------------------------------------------------------
# shrinking
# ---------------------------------------------------------------------------------------------
def shrink(case, failing, budget=60):
    """greedy structural shrink; `failing(case) -> signature or None`"""
    sig = failing(case)
    if sig is None:
        return case, None

    def candidates(c):
        if c["mws"] > 0:
            d = copy.deepcopy(c); d["mws"] -= 1; d["mw_flavours"] = (d.get("mw_flavours") or [])[:d["mws"]]; yield d
        if c["instr"] != 0:
            d = copy.deepcopy(c); d["instr"] = 0; yield d
        if c.get("falsy_instr"):
            d = copy.deepcopy(c); d["falsy_instr"] = False; yield d
        if any(f != "function" for f in (c.get("mw_flavours") or [])):
            d = copy.deepcopy(c)
            d["mw_flavours"] = ["function"] * len(c["mw_flavours"])
            yield d
        for key in sorted(c.get("partial") or {}):
            d = copy.deepcopy(c)
            del d["partial"][key]
            yield d
        if c.get("tracer") and not sig.startswith("tracer"):
            d = copy.deepcopy(c); d["tracer"] = False; yield d
        if c["use_var"] and c["outcome"] != "vars":
            d = copy.deepcopy(c); d["use_var"] = False; yield d
        if c["serial"]:
            d = copy.deepcopy(c); d["serial"] = False; yield d
        if any(c["sched"]):
            d = copy.deepcopy(c); d["sched"] = [0] * len(c["sched"]); yield d
        for i in range(len(c["fields"])):
            if len(c["fields"]) > 1:
                d = copy.deepcopy(c); del d["fields"][i]; yield d
            nd = c["fields"][i]
            if nd["c"]["t"] in ("obj", "list"):
                d = copy.deepcopy(c); d["fields"][i]["c"] = {"t": "null"}; yield d
            if nd["o"] == "raise":
                d = copy.deepcopy(c); d["fields"][i]["o"] = "ret"; d["fields"][i]["c"] = {"t": "null"}; yield d
    progress = True
    while progress and budget > 0:
        progress = False
        for d in candidates(case):
            budget -= 1
            if budget <= 0:
                break
            try:
                s2 = failing(d)
            except Exception:  # noqa
                s2 = None
            if s2 is not None and s2.split(":")[0] == sig.split(":")[0]:
                case, sig, progress = d, s2, True
                break
    return case, sig


# ---------------------------------------------------------------------------------------------
def real_trace(case, ctx=None):
    """run the real code; a hang verdict is CONFIRMED by a second, isolated run with 20x larger progress bounds"""
    log, result, err, payload = run_real(case)
    if err and err.startswith("hang"):
        if ctx is not None and ctx.extra.get("_confirmed_hangs", 0) >= 3:
            ctx.stat("hang-suspicion-not-examined")     # three confirmed hangs are already reported in this run
            return [ev_str(e) for e in log if not (e[0] == "h" and e[1] == REF)], log, None, "infra:hang suspicion not examined", None
        log2, result2, err2, payload2 = run_real(case, scale=CONFIRM_SCALE)
        if not (err2 and err2.startswith("hang")) and ctx is not None:
            ctx.stat("slow-case-not-a-hang")
        elif ctx is not None:
            ctx.extra["_confirmed_hangs"] = ctx.extra.get("_confirmed_hangs", 0) + 1
        log, result, err, payload = log2, result2, err2, payload2
    if err and err.startswith("infra") and ctx is not None and "not examined" not in err:
        ctx.notes.append("case skipped, infrastructure bound exceeded: %s" % err)
    return [ev_str(e) for e in log if not (e[0] == "h" and e[1] == REF)], log, result, err, payload


def check_cases(ctx, cases):
    """run real code + oracle on every case; batch the model; compare"""
    reals = []
    for case in cases:
        tr, log, result, err, payload = real_trace(case, ctx)
        reals.append((tr, err))
        ctx.count()
        ctx.stat("config=" + case["config"])
        ctx.stat("outcome=" + case["outcome"])
        ctx.stat("mws=%d" % case["mws"])
        ctx.stat("instr_leaves=%d" % len(leaves(case["instr"])))
        ctx.stat("nodes=%s" % min(count_nodes(case["fields"]), 12))
        if has_abort(case["fields"]):
            ctx.stat("resolver_aborts_request")
        if any(n["f"] == "__intro" for n in case["fields"]):
            ctx.stat("introspection_root_field")
        if "__typename" in json.dumps(case["fields"]):
            ctx.stat("has___typename")
        if len(tr) > 2 * len(leaves(case["instr"])):
            ctx.nontrivial(json.dumps({k: case[k] for k in case if k != "sel"}, sort_keys=True, default=str))
        if err and err.startswith("infra"):
            continue
        if err:
            ctx.fail("%s:%s:%s" % (err.split(":")[0], err, case["config"]), "request did not produce an outcome: %s" % err,
                     {"case": case}, kind="property" if err.startswith("hang") else "correspondence")
            continue
        for sig, what in oracle(case, log, payload):
            def failing(c, want=sig.split(":")[0]):
                _, lg, _, e, pl = real_trace(c)
                if e:
                    return None
                for s, _w in oracle(c, lg, pl):
                    if s.split(":")[0] == want:
                        return s
                return None
            seen = ctx.extra.setdefault("_shrunk", {})
            cls = sig.split(":")[0]
            if seen.get("n|" + cls, 0) >= 2:      # shrink the first cases of a failure class only (time)
                ctx.fail(seen.get("sig|" + sig, sig), what, {"case": case, "trace": tr})
                continue
            seen["n|" + cls] = seen.get("n|" + cls, 0) + 1
            try:
                small, ssig = shrink(case, failing)
            except Exception:  # noqa  (a shrinker problem must never hide the failure it was shrinking)
                small, ssig = case, sig
            seen["sig|" + sig] = ssig or sig
            ctx.fail(ssig or sig, what, {"case": small, "trace": real_trace(small)[0]})
    if not ctx.model_ok:
        return
    preps = [prepared(c) for c in cases]
    answers = ctx.driver.ask([model_request(c) for c in preps])
    for case, prep, (tr, err), ans in zip(cases, preps, reals, answers):
        if err:
            continue
        if "trace" not in ans:
            ctx.fail("corr:model-error", "model returned %r" % (ans,), {"case": case}, kind="correspondence")
            continue
        opaque = set()
        model_fields(prep, opaque)
        mtr = observable(ans["trace"], opaque)
        d = compare(case, tr, mtr)
        if d:
            ctx.fail(d[0], d[1], {"case": case, "real": tr, "model": mtr}, kind="correspondence")


def prepared(case):
    """the tree after argument-error normalisation (what the real run used)"""
    c = copy.deepcopy(case)
    build_document(c)
    return c


def exhaustive_cases():
    """all outcome kinds x configurations on a fixed small forest, and ALL schedules on a forest with 3 deferred fields"""
    leaf = lambda k, f, o="ret": {"k": k, "f": f, "sel": [], "o": o, "c": {"t": "leaf" if o == "ret" else "null"}}  # noqa
    forest = [
        {"k": "a", "f": "nd", "sel": [{"k": "x", "f": "vd", "sel": []}, {"k": "y", "f": "v", "sel": []}], "o": "ret",
         "c": {"t": "obj", "fs": [leaf("x", "vd"), leaf("y", "v", "raise")]}},
        leaf("b", "vd", "raise"),
        {"k": "c", "f": "l", "sel": [{"k": "z", "f": "sd", "sel": []}], "o": "ret",
         "c": {"t": "list", "items": [{"t": "obj", "fs": [leaf("z", "sd")]}, {"t": "null"}, {"t": "obj", "fs": [leaf("z", "sd", "raise")]}]}},
    ]
    out = []
    for cfg in CONFIGS:
        for oc in OUTCOMES:
            for text in ((True,) if oc == "syntax" else (True, False)):
                for serial in (False, True):
                    out.append({"config": cfg, "outcome": oc, "doc_is_text": text, "serial": serial, "novalidate": False,
                                "use_var": oc == "vars", "mws": 2, "instr": [0, 1], "tracer": True,
                                "fields": copy.deepcopy(forest[:1] if oc == "subscription-op" else forest), "sched": [0] * 12})
    # meta fields: `__typename` at the root, nested, inside list items and on the abstract type I; every introspection root field
    tn = lambda k: {"k": k, "f": "__typename", "sel": [], "o": "ret", "c": {"t": "leaf"}}  # noqa
    tsel = lambda k: {"k": k, "f": "__typename", "sel": []}  # noqa
    meta_forest = [
        tn("t0"),
        {"k": "a", "f": "nd", "sel": [tsel("t1"), {"k": "y", "f": "v", "sel": []}], "o": "ret",
         "c": {"t": "obj", "fs": [tn("t1"), leaf("y", "v", "raise")]}},
        {"k": "c", "f": "l", "sel": [tsel("t2")], "o": "ret",
         "c": {"t": "list", "items": [{"t": "obj", "fs": [tn("t2")]}, {"t": "null"}, {"t": "obj", "fs": [tn("t2")]}]}},
        {"k": "j", "f": "id", "sel": [tsel("t3"), {"k": "w", "f": "vd", "sel": []}], "o": "ret",
         "c": {"t": "obj", "fs": [tn("t3"), leaf("w", "vd")]}},
        {"k": "h", "f": "i", "sel": [tsel("t4")], "o": "ret", "c": {"t": "obj", "fs": [tn("t4")]}},
    ]
    for cfg in CONFIGS:
        for mws in (1, 3):
            for serial in (False, True):
                out.append({"config": cfg, "outcome": "exec", "doc_is_text": True, "serial": serial, "novalidate": False, "use_var": False,
                            "mws": mws, "instr": [0, 1], "tracer": serial, "fields": copy.deepcopy(meta_forest), "sched": [2, 0, 1] + [0] * 12})
            for intro in sorted(INTRO):
                out.append({"config": cfg, "outcome": "exec", "doc_is_text": True, "serial": False, "novalidate": False, "use_var": False,
                            "mws": mws, "instr": 0, "tracer": False,
                            "fields": [leaf("b", "vd"), {"k": "q", "f": "__intro", "intro": intro, "sel": [], "o": "ret", "c": {"t": "leaf"}}, tn("t0")],
                            "sched": [1, 0] * 8})
    # a resolver raises a LIBRARY error (ExecutionError) that aborts the request: the outcome is a response (data null), the
    # execution stage and the field must be ended on every executor / runtime
    def with_abort(where):
        f = copy.deepcopy(forest)
        if where == "root":
            f[1]["o"], f[1]["c"] = "abort", {"t": "null"}
        elif where == "nested":
            f[0]["c"]["fs"][0]["o"], f[0]["c"]["fs"][0]["c"] = "abort", {"t": "null"}
        elif where == "nested-sync":
            f[0]["c"]["fs"][1]["o"], f[0]["c"]["fs"][1]["c"] = "abort", {"t": "null"}
        else:
            f[2]["c"]["items"][2]["fs"][0]["o"] = "abort"
        return f
    n = 0
    for cfg in CONFIGS:
        for serial in (False, True):
            for where in ("root", "nested", "nested-sync", "list-item"):
                n += 1
                out.append({"config": cfg, "outcome": "exec", "doc_is_text": bool(n % 2), "serial": serial, "novalidate": False,
                            "use_var": False, "mws": n % 3, "instr": [0, 1] if n % 2 else 0, "tracer": n % 4 == 0,
                            "fields": with_abort(where), "sched": [n % 3, 1, 0] + [0] * 9})
    # a FALSY instrumentation object (len() == 0) passed directly, stacked, nested; every outcome kind
    n = 0
    for cfg in CONFIGS:
        for oc in OUTCOMES:
            n += 1
            out.append({"config": cfg, "outcome": oc, "doc_is_text": True, "serial": False, "novalidate": False, "use_var": oc == "vars",
                        "mws": 1, "instr": [0, [0, 1], [[0], 1]][n % 3], "tracer": False, "falsy_instr": True,
                        "fields": copy.deepcopy(forest[:1] if oc == "subscription-op" else forest), "sched": [0] * 12})
    # { slow abort }: a deferred field aborts the request while deferred siblings are in flight; either may complete first
    def lf(k, f, o="ret"):
        return {"k": k, "f": f, "sel": [], "o": o, "c": {"t": "leaf" if o == "ret" else "null"}}
    for cfg in CONFIGS:
        for executor_serial in (False, True):
            for first in (0, 1, 2):
                for shape in ("flat", "nested"):
                    if shape == "flat":
                        fs = [lf("slow", "vd"), lf("abort", "sd", "abort"), lf("slow2", "vd")]
                    else:
                        fs = [{"k": "p", "f": "nd", "sel": [{"k": "slow", "f": "vd", "sel": []}, {"k": "abort", "f": "vd", "sel": []}],
                               "o": "ret", "c": {"t": "obj", "fs": [lf("slow", "vd"), lf("abort", "vd", "abort")]}}, lf("other", "vd")]
                    out.append({"config": cfg, "outcome": "exec", "doc_is_text": True, "serial": executor_serial, "novalidate": False,
                                "use_var": False, "mws": 1, "instr": [0, 1], "tracer": True, "fields": fs, "sched": [first, first, 0] + [0] * 9})
    # root selection sets that collect to NOTHING (every field excluded, each way of excluding), empty sub-selections after skipping
    def skipped(nd, kind):
        d = copy.deepcopy(nd)
        d["skip"] = kind
        return d
    n = 0
    for cfg in CONFIGS:
        for serial in (False, True):
            for kind in SKIP_KINDS + ("mixed",):
                n += 1
                kinds = [kind] * 3 if kind != "mixed" else list(SKIP_KINDS[:3])
                root_none = [skipped(nd, kinds[i]) for i, nd in enumerate(forest)]
                out.append({"config": cfg, "outcome": "exec", "doc_is_text": bool(n % 2), "serial": serial, "novalidate": False,
                            "use_var": False, "mws": 1, "instr": [0, 1], "tracer": True, "send_sk": bool(n % 2),
                            "fields": root_none, "sched": [0] * 12})
                # one live root field whose sub-selection collects to nothing + skipped siblings
                inner = copy.deepcopy(forest[0])
                inner["sel"] = [dict(t, skip=kinds[0]) for t in inner["sel"]]
                inner["c"]["fs"] = [skipped(x, kinds[0]) for x in inner["c"]["fs"]]
                out.append({"config": cfg, "outcome": "exec", "doc_is_text": True, "serial": serial, "novalidate": False,
                            "use_var": False, "mws": 2, "instr": 0, "tracer": False, "send_sk": not (n % 2),
                            "fields": [skipped(forest[1], kinds[1]), inner, skipped(forest[2], kinds[2])], "sched": [1, 0] * 6})
    # every middleware flavour at every position of a 2- and 3-chain
    n = 0
    for cfg in CONFIGS:
        for fl in MW_FLAVOURS:
            for pos in range(3):
                n += 1
                mws = 2 + (n % 2)
                flavours = ["function"] * mws
                flavours[pos % mws] = fl
                out.append({"config": cfg, "outcome": "exec", "doc_is_text": True, "serial": bool(n % 2), "novalidate": False,
                            "use_var": False, "mws": mws, "mw_flavours": flavours, "instr": 0, "tracer": False,
                            "fields": copy.deepcopy(forest), "sched": [n % 3, 0, 1] + [0] * 9})
        out.append({"config": cfg, "outcome": "exec", "doc_is_text": True, "serial": False, "novalidate": False, "use_var": False,
                    "mws": 3, "mw_flavours": ["falsy-len-instance", "falsy-bool-instance", "callable-list-subclass"], "instr": 0,
                    "tracer": False, "fields": copy.deepcopy(meta_forest), "sched": [0] * 12})
    # partial members: every preset x every style at every position of a 3-stack (flat and nested), all configurations
    presets = sorted(PARTIAL_PRESETS)
    n = 0
    for cfg in CONFIGS:
        for pname in presets:
            for style in STYLES:
                for pos in (0, 1, 2):
                    n += 1
                    stack = [[0, 1, 2], [[0, 1], 2], [0, [1, 2]]][n % 3]
                    partial = {str(pos): {"hooks": list(PARTIAL_PRESETS[pname]), "style": style}}
                    if n % 4 == 0:      # a second partial member next to it
                        other = (pos + 1) % 3
                        partial[str(other)] = {"hooks": list(PARTIAL_PRESETS[presets[(n // 4) % len(presets)]]), "style": STYLES[n % 3]}
                    out.append({"config": cfg, "outcome": ["exec", "exec", "syntax", "validation", "vars"][n % 5], "doc_is_text": True,
                                "serial": n % 2 == 0, "novalidate": False, "use_var": n % 5 == 4, "mws": n % 3, "instr": stack,
                                "tracer": n % 6 == 0, "partial": partial, "fields": copy.deepcopy(forest), "sched": [n % 3, 1, 0] + [0] * 9})
    # all members partial (only the hidden reference is full)
    for cfg in CONFIGS:
        out.append({"config": cfg, "outcome": "exec", "doc_is_text": True, "serial": False, "novalidate": False, "use_var": False,
                    "mws": 1, "instr": [0, 1], "tracer": False,
                    "partial": {"0": {"hooks": ["field-"], "style": "class"}, "1": {"hooks": ["field+", "query-"], "style": "instance"}},
                    "fields": copy.deepcopy(forest), "sched": [0] * 12})
    import itertools
    for cfg in ("threadpool", "asyncio"):
        for serial in (False, True):
            for sched in itertools.product(range(3), range(3), range(2), range(2)):
                out.append({"config": cfg, "outcome": "exec", "doc_is_text": True, "serial": serial, "novalidate": False,
                            "use_var": False, "mws": 1, "instr": 0, "tracer": False,
                            "fields": copy.deepcopy(forest), "sched": list(sched) + [0] * 8})
    return out


def corpus_cases():
    from common import CORPUS
    out = []
    d = CORPUS / PROPERTY
    if d.exists():
        for f in sorted(d.glob("*.json")):
            out.append(json.loads(f.read_text())["case"])
    return out



def probe_exception_outcome(ctx):
    """Named probe (finding N3): a request whose processing RAISES (here: an unexpected resolver exception) leaves the started
    query / execution stages open. The statement speaks of request OUTCOMES; an escaping exception is recorded as a finding."""
    from py_gql import process_graphql_query
    from py_gql.execution import BlockingExecutor, Instrumentation
    from py_gql.schema import Field, Int, ObjectType, Schema
    log = []

    class Rec(Instrumentation):
        pass
    for st in ("query", "parsing", "validation", "execution"):
        for pol, suffix in (("start", "+"), ("end", "-")):
            setattr(Rec, "on_%s_%s" % (st, pol), (lambda name: lambda self: log.append(name))(st + suffix))

    def boom(*a, **k):
        raise ValueError("unexpected")
    schema = Schema(ObjectType("Query", [Field("a", Int, resolver=boom)]))
    ctx.count()
    try:
        process_graphql_query(schema, "{ a }", instrumentation=Rec(), executor_cls=BlockingExecutor)
        return True          # the exception became a response: nothing to report here
    except ValueError:
        pass
    opened = [s[:-1] for s in log if s.endswith("+") and s[:-1] + "-" not in log]
    if opened:
        ctx.fail("stages-open-on-exception:unexpected-resolver-exception:%s" % ",".join(opened),
                 "processing raised ValueError out of process_graphql_query with the stages %s still open" % opened,
                 {"probe": "exception-outcome", "log": log})
        return False
    return True


def probe_completion_resolver_error(ctx):
    """Named probe (finding N2): a ResolverError raised while COMPLETING the value (resolve_type of an abstract type)
    instead of inside the resolver. `Executor.resolve_field` runs `complete` (on_field_end) and then `fail` (on_field_end)."""
    from py_gql import process_graphql_query
    from py_gql.exc import ResolverError
    from py_gql.execution import Executor, Instrumentation
    from py_gql.schema import Field, Int, ObjectType, Schema, UnionType
    log = []

    class Rec(Instrumentation):
        def on_field_start(self, root, context, info):
            log.append(("+", tuple(info.path)))

        def on_field_end(self, root, context, info):
            log.append(("-", tuple(info.path)))

    def resolve_type(value, context, info):
        raise ResolverError("cannot resolve type")
    A = ObjectType("A", [Field("x", Int)])
    U = UnionType("U", [A], resolve_type=resolve_type)
    Q = ObjectType("Query", [Field("u", U, resolver=lambda *a, **k: {"x": 1})])
    schema = Schema(Q, types=[A])
    ctx.count()
    try:
        process_graphql_query(schema, "{ u { ... on A { x } } }", instrumentation=Rec(), executor_cls=Executor)
    except Exception:  # noqa  (an escaping exception produces no outcome: outside the statement)
        return True
    ends = log.count(("-", ("u",)))
    if ends != 1:
        ctx.fail("field-end-twice:completion-raises-ResolverError",
                 "field u: %d end hooks when resolve_type raises ResolverError under Executor" % ends,
                 {"probe": "completion-resolver-error", "log": [list(map(str, e)) for e in log]})
        return False
    return True


def probe_default_resolved_deferred_list(ctx, only=None):
    """
    NAMED PROBE (deterministic class, every run): a LIST of N objects whose field `v` is left to the DEFAULT resolver and
    whose value is DEFERRED (an awaitable / Future stored in the object, or an `async def` method), NO middlewares, generic
    Executor on asyncio and on the thread pool, EVERY completion order of the N values (N = 2, 3), one variant with a
    failing value (ResolverError). All `items[i].v` are in flight at once. Oracle = the statement: every `items[i].v` gets
    exactly one start hook and exactly one end hook WITH ITS OWN PATH, start before end, and no hook carries another path.
    The recorder copies `tuple(info.path)` AT HOOK TIME (an info object shared between items is seen with the path it has
    when the hook fires, not with the one it has at the end of the request).
    """
    import asyncio
    import itertools
    from concurrent.futures import Future
    from py_gql import build_schema, process_graphql_query
    from py_gql.exc import ResolverError
    from py_gql.execution import Executor, Instrumentation
    from py_gql.execution.runtime import AsyncIORuntime, ThreadPoolRuntime
    ok = True

    class Rec(Instrumentation):
        def __init__(self):
            self.events = []

        def on_field_start(self, root, context, info):
            self.events.append(("+", tuple(info.path)))

        def on_field_end(self, root, context, info):
            self.events.append(("-", tuple(info.path)))

    def judge(n, rec):
        expected = [("items",)] + [("items", i, "v") for i in range(n)]
        bad = []
        for path in expected:
            st, en = rec.events.count(("+", path)), rec.events.count(("-", path))
            if st != 1:
                bad.append(("start-count", path, st))
            if en != 1:
                bad.append(("end-count", path, en))
            if st == 1 and en == 1 and rec.events.index(("+", path)) > rec.events.index(("-", path)):
                bad.append(("end-before-start", path, 0))
        for k, path in rec.events:
            if path not in expected:
                bad.append(("foreign-path", path, 0))
        return bad

    def variants():
        for n in (2, 3):
            for nonnull in (False, True):
                for style in ("dict-future", "attr-future", "async-method"):
                    for failing in (None, 0):
                        if failing is not None and (nonnull or n == 3):
                            continue
                        for order in itertools.permutations(range(n)):
                            yield n, nonnull, style, failing, order

    def sdl(nonnull):
        return "type Item { v: Int } type Query { items: %s }" % ("[Item!]!" if nonnull else "[Item]")

    def settle(fut, i, failing):
        if fut.done():
            return
        if failing == i:
            fut.set_exception(ResolverError("value %d failed" % i))
        else:
            fut.set_result(i)

    class Obj:
        pass

    def run_pool(n, nonnull, style, failing, order):
        futs = [Future() for _ in range(n)]
        if style == "dict-future":
            items = [{"v": f} for f in futs]
        else:
            items = []
            for f in futs:
                o = Obj()
                o.v = f if style == "attr-future" else (lambda c, info, f=f: f)
                items.append(o)
        schema = build_schema(sdl(nonnull))
        schema.register_resolver("Query", "items", lambda *a, **k: items)
        rec = Rec()
        rt = ThreadPoolRuntime(max_workers=1)
        try:
            wd = W08.watchdog(single_threaded=True)
            with wd:
                out = process_graphql_query(schema, "{ items { v } }", instrumentation=rec, runtime=rt, executor_cls=Executor)
                for i in order:
                    settle(futs[i], i, failing)
                if not out.done():
                    return rec, "pending"
                out.result()
        finally:
            rt._inner.shutdown(wait=False)
        return rec, None

    def run_aio(n, nonnull, style, failing, order):
        loop = asyncio.new_event_loop()
        try:
            futs = [loop.create_future() for _ in range(n)]
            if style == "dict-future":
                items = [{"v": f} for f in futs]
            else:
                items = []
                for f in futs:
                    o = Obj()
                    if style == "attr-future":
                        o.v = f
                    else:
                        async def method(c, info, f=f):
                            return await f
                        o.v = method
                    items.append(o)
            schema = build_schema(sdl(nonnull))
            schema.register_resolver("Query", "items", lambda *a, **k: items)
            rec = Rec()

            async def main():
                task = asyncio.ensure_future(process_graphql_query(
                    schema, "{ items { v } }", instrumentation=rec, runtime=AsyncIORuntime(loop=loop, execute_blocking_functions_in_thread=False),
                    executor_cls=Executor))
                for _ in range(6):
                    await asyncio.sleep(0)
                for i in order:
                    settle(futs[i], i, failing)
                    for _ in range(6):
                        await asyncio.sleep(0)
                return await asyncio.wait_for(task, 10)
            try:
                loop.run_until_complete(main())
            except asyncio.TimeoutError:
                return rec, "pending"
            return rec, None
        finally:
            try:
                loop.close()
            except Exception:  # noqa
                pass

    runs = 0
    reported = set()
    for n, nonnull, style, failing, order in variants():
        for cfg, runner in (("threadpool", run_pool), ("asyncio", run_aio)):
            if cfg == "threadpool" and style == "async-method":
                continue
            if only is not None and [cfg, n, nonnull, style, failing, list(order)] != only:
                continue
            ctx.count()
            runs += 1
            try:
                rec, status = runner(n, nonnull, style, failing, order)
            except KeyboardInterrupt:
                raise
            except W08.Watchdog:        # the code under test blocks the calling thread: never completes = C08's subject
                ctx.stat("probe:default-resolved-deferred-list:blocks")
                continue
            except Exception:  # noqa  -- an escaping exception produces no outcome: outside the statement (C08's subject)
                ctx.stat("probe:default-resolved-deferred-list:raised")
                continue
            if status is not None:      # never completes: C08's subject
                ctx.stat("probe:default-resolved-deferred-list:" + status)
                continue
            ctx.nontrivial(("default-deferred-list", cfg, n, nonnull, style, failing, order))
            bad = judge(n, rec)
            if bad:
                ok = False
                what = sorted(set(b[0] for b in bad))
                sig = "c16:default-resolved-deferred-list:%s:%s" % (cfg, "+".join(what))
                if sig in reported:
                    continue
                reported.add(sig)
                ctx.fail(sig,
                         "list of %d objects, field v default-resolved with a deferred value (%s), no middleware, %s, completion order %s: %s; "
                         "events %s" % (n, style, cfg, list(order), bad[:4], rec.events),
                         {"probe": "default-resolved-deferred-list", "only": [cfg, n, nonnull, style, failing, list(order)]})
    ctx.extra["default_resolved_deferred_list_runs"] = ctx.extra.get("default_resolved_deferred_list_runs", 0) + runs
    return ok


def stages(ctx):
    """The stages of the check, each under the wall-clock backstop of C08_world.run_stages (the asyncio paths of this check
    detect hangs by PROGRESS only: a tree that blocks the calling thread where the harness waits on it without a bound
    yields `c16:never-completes:stage:<name>` and the check still finishes)."""
    from corr import C16_cancel
    cases = corpus_cases() + exhaustive_cases()

    def probes():
        probe_completion_resolver_error(ctx)
        probe_exception_outcome(ctx)
        probe_default_resolved_deferred_list(ctx)

    def exhaustive():
        ctx.extra["exhaustive_block_cases"] = len(cases)
        check_cases(ctx, cases)

    def random_cases():
        n = ctx.n(1500, 12000)
        batch = []
        for i in range(n):
            if ctx.time_left() < 15:
                ctx.notes.append("stopped generation early after %d random cases (time budget)" % i)
                break
            batch.append(gen_case(ctx.rng, size=2 if i % 5 else 3))
            if len(batch) >= 300:
                check_cases(ctx, batch)
                batch = []
        if batch:
            check_cases(ctx, batch)
        if ctx.samples == [] and cases:
            c = cases[0]
            ctx.sample({"case": {k: c[k] for k in ("config", "outcome", "serial", "mws", "instr")}, "document": build_document(copy.deepcopy(c))[0],
                        "trace": real_trace(c)[0][:14]})

    return [("probes", probes),
            ("abort-nested-coroutines", lambda: C16_cancel.probe(ctx)),
            ("middleware-deferred", lambda: C16_cancel.probe_middleware_exits_before_deferred_resolver(ctx)),
            ("exhaustive", exhaustive),
            ("random", random_cases)]


def run(ctx, replaying=None):
    try:
        W08.run_stages(ctx, "C16", stages(ctx), replaying=replaying)
    finally:
        _cleanup(ctx)


def _cleanup(ctx):
    ctx.extra.pop("_shrunk", None)
    ctx.extra.pop("_confirmed_hangs", None)


def replay(ctx, data):
    if data.get("input", {}).get("probe") == "stage":
        before = len(ctx.found)
        run(ctx, replaying=data["input"].get("stage"))
        return len(ctx.found) == before
    if data.get("input", {}).get("probe") == "middleware-deferred":
        from corr import C16_cancel
        return C16_cancel.probe_middleware_exits_before_deferred_resolver(ctx)
    if data.get("input", {}).get("probe") == "abort-nested-coroutines":
        from corr import C16_cancel
        return C16_cancel.probe(ctx, only=data["input"].get("only"))
    if data.get("input", {}).get("probe") == "completion-resolver-error":
        return probe_completion_resolver_error(ctx)
    if data.get("input", {}).get("probe") == "exception-outcome":
        return probe_exception_outcome(ctx)
    if data.get("input", {}).get("probe") == "default-resolved-deferred-list":
        return probe_default_resolved_deferred_list(ctx, only=data["input"].get("only"))
    case = data.get("input", {}).get("case")
    if case is None:
        return True
    tr, log, result, err, payload = real_trace(case)
    if err and err.startswith("hang"):
        return False
    if err:
        return True
    return not oracle(case, log, payload)

# -*- coding: utf-8 -*-
"""
C04 - named probes for two outside reports on the UNCHANGED tree (/tmp/hunt-out/1/C04-2, C04-3).
Deterministic: fixed schema, fixed documents, no randomness, < 0.5 s. Both entry points (BlockingExecutor through
graphql_blocking, generic Executor through process_graphql_query).

  expansion   `{ ...F0 } fragment F<i> on Query { ... { ...F<i+1> } ... { ...F<i+1> } } ... fragment Fn on Query { a }`
              (validates in linear time; contains ONE field node). The specification's CollectFields threads one
              visitedFragments set through the whole selection set, so every fragment is applied once and the group of `a`
              holds that one node. Oracle: the number of nodes the executor collected for `a` (len(info.nodes) seen by the
              resolver) for n = 6, 9, 12; flagged only when it is >= 2**n for EVERY n, i.e. the work doubles per fragment
              (n = 30, a 1.7 kB document, then never answers).  A bounded duplication (the recorded `_seen_fragments` quirk on
              small documents: data unchanged, locations deduplicated by the comparison) is NOT flagged.
  skip-first  `x @skip(if: true) @include(if: $v)` with `$v: Boolean = true` and the accepted assignment {"v": null}, on a
              field, an inline fragment and a fragment spread, at the root and one level down. CollectFields (6.3.2) tests @skip
              first: "if skipDirective's if argument is true ..., continue with the next selection" - the selection is dropped
              whatever @include says. Oracle: data == the hand-written response without the skipped selection and no error.
              Only asked when validate_ast returns [] and coerce_variable_values accepts the assignment, and when the same
              document with {} (the default, true) gives that response (otherwise the probe itself is broken: stat only).
"""
import json

SDL = "type Query { a: Int, b: Int, nn: Int!, o: Query }\n"
SIZES = (6, 9, 12)


def expansion_document(n):
    parts = ["{ ...F0 }"]
    for i in range(n):
        parts.append("fragment F%d on Query { ... { ...F%d } ... { ...F%d } }" % (i, i + 1, i + 1))
    parts.append("fragment F%d on Query { a }" % n)
    return " ".join(parts)


SKIP_DOCS = [
    # (selection kind, document, expected data)
    ("field", "query ($v: Boolean = true) { a @skip(if: true) @include(if: $v) b }", {"b": 2}),
    ("field", "query ($v: Boolean = true) { o { a @skip(if: true) @include(if: $v) b } b }", {"o": {"b": 2}, "b": 2}),
    ("inline", "query ($v: Boolean = true) { ... @skip(if: true) @include(if: $v) { a } b }", {"b": 2}),
    ("spread", "query ($v: Boolean = true) { ...F @skip(if: true) @include(if: $v) b } fragment F on Query { a }", {"b": 2}),
]


def entries():
    from py_gql import graphql_blocking, process_graphql_query
    return (("blocking", graphql_blocking), ("generic", process_graphql_query))


def make_schema(seen=None):
    from py_gql import build_schema
    schema = build_schema(SDL)
    values = {"a": 1, "b": 2, "nn": 3, "o": {}}

    def resolver(root, context, info, **args):
        if seen is not None:
            seen.append((info.field_definition.name, len(info.nodes)))
        return values[info.field_definition.name]
    schema.default_resolver = resolver
    return schema


def accepted(schema, text, variables):
    """validates with [] and the assignment is accepted"""
    from py_gql.lang import parse
    from py_gql.validation import validate_ast
    from py_gql.execution.get_operation import get_operation
    from py_gql.utilities import coerce_variable_values
    doc = parse(text)
    if validate_ast(schema, doc).errors:
        return False
    try:
        coerce_variable_values(schema, get_operation(doc, None), variables)
    except Exception:  # noqa
        return False
    return True


def respond(fn, schema, text, variables):
    try:
        r = fn(schema, text, variables=variables)
        return {"data": json.loads(json.dumps(r.data)), "errors": [str(e) for e in (r.errors or [])]}
    except Exception as e:  # noqa
        return {"internal": type(e).__name__}


def expansion_counts(fn):
    """n -> number of nodes collected for the single field `a` (None: not answered / not validated)"""
    out = {}
    for n in SIZES:
        seen = []
        schema = make_schema(seen)
        text = expansion_document(n)
        if not accepted(schema, text, {}):
            out[n] = None
            continue
        res = respond(fn, schema, text, {})
        nodes = [k for name, k in seen if name == "a"]
        out[n] = nodes[0] if (res.get("data") == {"a": 1} and len(nodes) == 1) else None
    return out


def expansion_probe(ctx):
    for name, fn in entries():
        counts = expansion_counts(fn)
        ctx.count(len(SIZES))
        ctx.stat("hunt1:expansion:%s:%s" % (name, ",".join("%s" % counts[n] for n in SIZES)))
        if all(counts[n] is not None and counts[n] >= 2 ** n for n in SIZES):
            ctx.fail("steps-exponential:typed-collect-fields:sibling-inline-spreads",
                     "the executor's CollectFields applies a fragment once per spread: the single field node of a validated "
                     "document with n two-spread fragments is collected %s times for n = %s (specification: once; the work "
                     "doubles per fragment, n = 30 is never answered) [%s]"
                     % ([counts[n] for n in SIZES], list(SIZES), name),
                     {"part": "hunt1", "probe": "expansion", "entry": name, "sdl": SDL, "sizes": list(SIZES),
                      "document_n3": expansion_document(3), "collected": {str(n): counts[n] for n in SIZES}}, kind="property")


def skip_first_cases(fn):
    """[(kind, text, expected, got)] of the fixed documents whose response is not the specification's"""
    schema = make_schema()
    bad, asked = [], 0
    for kind, text, expected in SKIP_DOCS:
        want = {"data": expected, "errors": []}
        if not accepted(schema, text, {"v": None}) or respond(fn, schema, text, {}) != want:
            continue        # the probe does not apply (document rejected / control fails)
        asked += 1
        got = respond(fn, schema, text, {"v": None})
        if got != want:
            bad.append((kind, text, expected, got))
    return asked, bad


def skip_first_probe(ctx):
    for name, fn in entries():
        asked, bad = skip_first_cases(fn)
        ctx.count(asked)
        ctx.stat("hunt1:skip-first:%s:asked=%d:bad=%d" % (name, asked, len(bad)))
        for kind in sorted({b[0] for b in bad}):
            k, text, expected, got = next(b for b in bad if b[0] == kind)
            ctx.fail("exec-differs-from-spec:skip-true-then-uncoercible-include:%s" % kind,
                     "`@skip(if: true)` on a %s does not drop the selection when its `@include(if: $v)` cannot be coerced "
                     "($v: Boolean = true, variables {v: null}): expected data %s without error, got %s [%s]"
                     % (kind, json.dumps(expected), json.dumps(got)[:300], name),
                     {"part": "hunt1", "probe": "skip-first", "entry": name, "selection": kind, "sdl": SDL, "document": text,
                      "variables": {"v": None}, "expected": {"data": expected, "errors": []}, "impl": got}, kind="property")


def run(ctx):
    for probe in (expansion_probe, skip_first_probe):
        try:
            probe(ctx)
        except Exception as e:  # noqa  (never let the code under test escape run)
            ctx.stat("hunt1:harness-error:%s:%s" % (probe.__name__, type(e).__name__))


def replay(ctx, inp):
    fns = dict(entries())
    names = [inp["entry"]] if inp.get("entry") in fns else list(fns)
    ok = True
    for name in names:
        if inp.get("probe") == "expansion":
            counts = expansion_counts(fns[name])
            if all(counts[n] is not None and counts[n] >= 2 ** n for n in SIZES):
                print("nodes collected for the single field (%s):" % name, counts)
                ok = False
        elif inp.get("probe") == "skip-first":
            _, bad = skip_first_cases(fns[name])
            for kind, text, expected, got in bad:
                if inp.get("selection") in (None, kind):
                    print(name, text, "->", json.dumps(got)[:300], "expected data", json.dumps(expected))
                    ok = False
    return ok

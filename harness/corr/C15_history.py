# -*- coding: utf-8 -*-
"""
C15 — histories: introspect -> change the LIVE schema in place through public API -> introspect again.

The statement quantifies over schemas, not over how a schema object got into its current state: the second
introspection must report the CURRENT schema (decoder(introspection) == norm(dump(schema)), every default parses
back to the current default), on Executor and BlockingExecutor alike. Whatever the first introspection cached
(possible types of abstract types, formatted default values, ...) must not show through.

In-place changes used (all public API or the API the library's own transforms use):
  hide-object            VisibilitySchemaTransform(...).on_schema(schema) hiding an implementer / union member
  drop-union-member      SchemaVisitor.on_union returning a union with one member less
  replace-union          schema._replace_types_and_directives({U: smaller union})
  drop-interface         schema._replace_types_and_directives({O: same object implementing one interface less})
  rename-enum-values     SchemaVisitor.on_enum renaming the values (internal values kept) of an enum used by defaults
  set-defaults           `iv.default_value = ...` / `del iv.default_value` on arguments, input fields, directive arguments
"""
import json
import random

from corr import C15_lib as L

KINDS = ["hide-object", "drop-union-member", "replace-union", "drop-interface", "rename-enum-values", "set-defaults"]
ROOTS = ("query_type", "mutation_type", "subscription_type")


def _user_types(schema, cls):
    return [t for t in schema.types.values() if isinstance(t, cls) and not t.name.startswith("__")]


def _base(t):
    from py_gql.schema import ListType, NonNullType
    while isinstance(t, (ListType, NonNullType)):
        t = t.type
    return t


def apply_mutation(kind, schema, rng):
    """Apply one in-place change. Returns (description dict, names of types that left the schema) or None if the
    schema offers nothing to change that way."""
    from py_gql.schema import (EnumType, EnumValue, InputField, InputObjectType, InterfaceType, NonNullType, ObjectType, ScalarType,
                               SchemaVisitor, UnionType)
    from py_gql.schema.transforms import VisibilitySchemaTransform
    roots = {getattr(schema, r).name for r in ROOTS if getattr(schema, r) is not None}
    unions = _user_types(schema, UnionType)
    objects = [o for o in _user_types(schema, ObjectType) if o.name not in roots]

    if kind == "hide-object":
        cands = [o for o in objects if o.interfaces or any(o in u.types and len(u.types) > 1 for u in unions)]
        if not cands:
            return None
        victim = rng.choice(sorted(cands, key=lambda t: t.name)).name

        class Hide(VisibilitySchemaTransform):
            def is_type_visible(self, name):
                return name != victim
        Hide().on_schema(schema)
        return {"hidden": victim}, [victim]

    if kind in ("drop-union-member", "replace-union"):
        cands = [u for u in unions if len(u.types) > 1]
        if not cands:
            return None
        u = rng.choice(sorted(cands, key=lambda t: t.name))
        keep = list(u.types)
        dropped = keep.pop(rng.randrange(len(keep)))
        smaller = UnionType(u.name, keep, resolve_type=u.resolve_type, description=u.description)
        if kind == "replace-union":
            schema._replace_types_and_directives({u.name: smaller})
        else:
            uname = u.name

            class Drop(SchemaVisitor):
                def on_union(self, union_type):
                    return smaller if union_type.name == uname else union_type
            Drop().on_schema(schema)
        return {"union": u.name, "dropped": dropped.name}, []

    if kind == "drop-interface":
        cands = [o for o in _user_types(schema, ObjectType) if o.interfaces]
        if not cands:
            return None
        o = rng.choice(sorted(cands, key=lambda t: t.name))
        ifaces = list(o.interfaces)
        dropped = ifaces.pop(rng.randrange(len(ifaces)))
        new = ObjectType(o.name, list(o.fields), interfaces=ifaces, default_resolver=o.default_resolver, description=o.description)
        schema._replace_types_and_directives({o.name: new})
        return {"object": o.name, "dropped": dropped.name}, []

    if kind == "rename-enum-values":
        used = sorted({_base(iv.type).name for _, iv in L.iter_defaults(schema)
                       if iv.has_default_value and isinstance(_base(iv.type), EnumType) and not _base(iv.type).name.startswith("__")})
        enums = used or sorted(e.name for e in _user_types(schema, EnumType))
        if not enums:
            return None
        ename = rng.choice(enums)

        class Rename(SchemaVisitor):
            def on_enum(self, enum_type):
                if enum_type.name != ename:
                    return enum_type
                return EnumType(ename, [EnumValue(v.name + "_R", value=v.value, description=v.description,
                                                  deprecation_reason=v.deprecation_reason) for v in enum_type.values],
                                description=enum_type.description)
        Rename().on_schema(schema)
        return {"enum": ename, "used_by_defaults": bool(used)}, []

    if kind == "set-defaults":
        ivs = [(w, iv) for w, iv in L.iter_defaults(schema) if not w.startswith("__") and not w.startswith("@include")
               and not w.startswith("@skip") and not w.startswith("@deprecated")]
        if not ivs:
            return None
        done = []
        for w, iv in rng.sample(ivs, min(4, len(ivs))):
            b = _base(iv.type)
            nullable = not isinstance(iv.type, NonNullType)
            named = iv.type is b or (isinstance(iv.type, NonNullType) and iv.type.type is b)
            # (deleting the default of a NON-NULL input field would make it required and could invalidate other
            #  declared defaults `{...}` of that input type which omit it: not a valid-schema history)
            deletable = iv.has_default_value and (nullable or not isinstance(iv, InputField))
            if deletable and rng.random() < 0.4:
                del iv.default_value
                done.append([w, "del"])
            elif named and isinstance(b, ScalarType) and b.name == "Int":
                iv.default_value = 41 if not (iv.has_default_value and iv.default_value == 41) else 40
                done.append([w, "set-int"])
            elif named and isinstance(b, ScalarType) and b.name == "String":
                iv.default_value = "changed"
                done.append([w, "set-string"])
            elif named and isinstance(b, EnumType):
                vals = [v.value for v in b.values]
                cur = iv.default_value if iv.has_default_value else None
                iv.default_value = next((v for v in vals if v != cur), vals[0])
                done.append([w, "set-enum"])
            elif nullable and not (iv.has_default_value and iv.default_value is None):
                iv.default_value = None
                done.append([w, "set-null"])
            elif deletable:
                del iv.default_value
                done.append([w, "del"])
        if not done:
            return None
        return {"changed": done}, []
    raise ValueError(kind)


def dump_closed(dump):
    names = {t["name"] for t in dump["types"]}

    def ok(tj):
        while tj["k"] != "named":
            tj = tj["t"]
        return tj["n"] in names
    for t in dump["types"]:
        if not all(i in names for i in t["interfaces"] + t["members"]):
            return False
        for f in t["fields"]:
            if not ok(f["type"]) or not all(ok(a["type"]) for a in f["args"]):
                return False
        if not all(ok(a["type"]) for a in t["input_fields"]):
            return False
    return all(ok(a["type"]) for x in dump["directives"] for a in x["args"])


def one_history(ctx, C15, case, kind, hseed):
    """introspect -> mutate in place -> introspect; everything about the second answer is checked against the
    schema as it is then."""
    from py_gql.exc import SchemaError
    rng = random.Random(hseed)
    schema, _ = C15.load_case(case)
    detail0 = {"case": case, "check": "history", "kind": kind, "hseed": hseed}
    cfgs = ["generic", "blocking"]
    try:
        schema.validate()
    except Exception:  # noqa
        return
    first = {}
    for cfg in cfgs:
        st, r = L.execute(schema, C15.std_query(), cfg)
        if st != "ok" or r.get("errors"):
            return      # the main stream reports that
        first[cfg] = r["data"]
    pre = C15.Ctx2(ctx)
    C15.check_reports_schema(pre, schema, first[cfgs[0]], detail0)
    try:
        m = apply_mutation(kind, schema, rng)
    except Exception as e:  # noqa  (in-place transforms are C14's subject: not judged here)
        ctx.stat("history:%s:mutation-raises-%s" % (kind, type(e).__name__))
        return
    if m is None:
        ctx.stat("history:%s:not-applicable" % kind)
        return
    info, gone = m
    detail0 = dict(detail0, mutation=info)
    try:
        schema.validate()
    except SchemaError:
        ctx.stat("history:%s:schema-invalid-after" % kind)
        return
    except Exception as e:  # noqa
        ctx.stat("history:%s:validate-raises-%s" % (kind, type(e).__name__))
        return
    ctx.stat("history:%s" % kind)
    ctx.nontrivial(("history", kind, json.dumps(case, sort_keys=True), json.dumps(info, sort_keys=True)))
    second = {}
    for cfg in cfgs:
        ctx.count()
        st, r = L.execute(schema, C15.std_query(), cfg)
        if st != "ok" or r.get("errors") or not r.get("data"):
            ctx.fail("stale-after-inplace-change:%s:introspection-fails" % kind,
                     "after an in-place %s the standard introspection query %s" % (kind, "raises " + str(r) if st != "ok" else "answers with errors"),
                     dict(detail0, config=cfg))
            return
        second[cfg] = r["data"]
    if second[cfgs[0]] != second[cfgs[1]]:
        ctx.fail("stale-after-inplace-change:%s:executors-differ" % kind, "Executor and BlockingExecutor report differently after an in-place change",
                 dict(detail0, path=L.first_diff(second[cfgs[0]], second[cfgs[1]])))
    seen = {f["signature"] for f in pre.found}
    for cfg in cfgs:
        post = C15.Ctx2(ctx)
        C15.check_reports_schema(post, schema, second[cfg], detail0)
        for f in post.found:
            if f["kind"] == "property" and f["signature"] not in seen:
                ctx.fail("stale-after-inplace-change:%s:%s" % (kind, f["signature"]),
                         "introspect, %s in place, introspect again: the second answer is not the CURRENT schema — %s" % (kind, f["what"]),
                         dict(detail0, config=cfg, inner=f["detail"] if isinstance(f["detail"], dict) and "path" in f["detail"] else None))
    C15.oracle_type_by_name(ctx, schema, detail0, cfgs, gone=gone)
    # model on the CURRENT dump
    dump = L.dump_full(schema)
    if ctx.model_ok and dump_closed(dump) and hasattr(ctx, "driver"):
        a = ctx.driver.ask([{"op": "introspect", "schema": dump, "includeDeprecated": True}])[0]
        m_ = L.canon_response(a.get("data"))
        r_ = L.canon_response(second[cfgs[0]])
        p = L.first_diff(r_, m_)
        if p:
            ctx.fail("corr:introspect-after-%s:%s" % (kind, L.diff_class(p)), "model on the current dump and real introspection after an in-place change differ at %s" % p,
                     dict(detail0, path=p), kind="correspondence")
    if hasattr(ctx, "later"):
        expected = second[cfgs[1]]
        ctx.later("introspect-after-" + kind, lambda s=schema: L.execute(s, C15.std_query(), "blocking")[1].get("data"), expected, detail0)


def run(ctx, C15, case, index):
    # two (quick) / three (thorough) kinds per schema, rotating, so that every kind is met many times per run
    k = 2 if ctx.tier == "quick" else 3
    kinds = [KINDS[(k * index + j) % len(KINDS)] for j in range(k)]
    for kind in kinds:
        if ctx.time_left() < (12 if ctx.tier == "quick" else 60):
            return
        hseed = ctx.rng.randrange(1 << 30)
        try:
            one_history(ctx, C15, case, kind, hseed)
        except Exception as e:  # noqa  never let the code under test escape
            ctx.fail("stale-after-inplace-change:%s:internal-%s" % (kind, type(e).__name__),
                     "history check raises %s: %s" % (type(e).__name__, str(e)[:200]),
                     {"case": case, "check": "history", "kind": kind, "hseed": hseed})

"""C07, named probe `regok-witness`: the concrete instances behind the non-vacuity theorems of Props/C07_regok.lean and
Props/C07_regok_apps.lean (repair of audit findings C07-F1 / C07-F2), on the REAL code.

The Lean theorems discharge every hypothesis of the headline soundness theorems on the registry of the SDL below (with the
stand-in scalar `build_schema` creates for `scalar Any`) and conclude about concrete values; each `by rfl` there fixes what the
MODEL answers. Here the same inputs go through the library (build_schema, graphql_blocking, coerce_value, value_from_ast,
coerce_argument_values) and must give exactly those values; and `customNotNone_default` is probed on the live `default_scalar`:
it never answers None to a non-null JSON value nor to a literal other than `null` / `$x` (and DOES answer None to `null`: why
`CustomOK` has to exclude it). Deterministic: no use of ctx.rng."""
import json

SDL = '''
scalar Any
enum Color { RED GREEN }
input Box { any: Any = "dflt", must: Any!, many: [Any!], n: Int! = 3, c: Color }
type Query { f(a: Any!, box: Box, d: Any = "dflt"): Int }
'''

DOC = 'query ($v: Any!) { k: f(a: [$v, 1], box: {must: $v}) }'

# right-hand sides of the Lean theorems (…_applies_with_default_scalar)
KWARGS_TREE = {"a": [{"x": 1}, "1"], "box": {"any": "dflt", "must": {"x": 1}, "n": 3}, "d": "dflt"}
KWARGS_ARGS = {"a": [3, "1"], "box": {"any": "dflt", "must": 3, "n": 3}, "d": "dflt"}
VARIABLE = ({"must": [1, None], "many": [{"k": True}]}, {"any": "dflt", "must": [1, None], "many": [{"k": True}], "n": 3})
LITERAL = ('{must: {a: $v, b: [null]}, c: RED}', {"v": 3}, {"any": "dflt", "must": {"a": 3, "b": [None]}, "n": 3, "c": "RED"})
LITERAL_TOTAL = ('[1, [null]]', ["1", [None]])

NON_NULL_JSON = [0, -1, 1.5, "", "s", False, True, [], [None], {}, {"k": None}, [[]], 0.0]
NON_NULL_LITERALS = ['0', '-1', '1.5', '""', '"s"', 'false', 'true', 'RED', '[]', '[null]', '{}', '{k: null}', '[[]]', '[$v]', '{k: $v}']


def _exact(a, b):
    """equality that distinguishes bool from int, int from float and keeps dict order"""
    return json.dumps(a) == json.dumps(b) and type(a) is type(b)


def run(ctx):
    from py_gql import build_schema, graphql_blocking
    from py_gql.lang import parse
    from py_gql.lang.parser import parse_value
    from py_gql.schema import ListType, NonNullType
    from py_gql.utilities import coerce_argument_values, coerce_value, coerce_variable_values, value_from_ast

    def differ(name, got, want):
        ctx.count()
        ctx.nontrivial("regok-witness:" + name)
        ok = _exact(got, want)
        ctx.stat("regok-witness:%s:%s" % (name, "same" if ok else "differs"))
        if not ok:
            ctx.fail("corr:regok-witness:" + name, "the instance proved in Props/C07_regok_apps.lean is not what the library answers",
                     {"check": "regok-witness", "instance": name, "impl": repr(got), "model": repr(want)}, kind="correspondence")

    try:
        schema = build_schema(SDL)
        seen = []

        def resolver(root, c, info, **kw):
            seen.append(kw)
            return 1
        schema.register_resolver("Query", "f", resolver)
        box, any_ = schema.get_type("Box"), schema.get_type("Any")
        r = graphql_blocking(schema, DOC, variables={"v": {"x": 1}})
        differ("tree", seen if not r.errors else ["errors", str(r.errors)], [KWARGS_TREE])
        doc = parse(DOC)
        op = doc.definitions[0]
        env = coerce_variable_values(schema, op, {"v": 3})
        differ("arguments", coerce_argument_values(schema.query_type.field_map["f"], op.selection_set.selections[0], env), KWARGS_ARGS)
        differ("variables", dict(coerce_variable_values(schema, op, {"v": {"x": 1}})), {"v": {"x": 1}})
        differ("variable", coerce_value(VARIABLE[0], box), VARIABLE[1])
        differ("variable-total", coerce_value([1, None], NonNullType(any_)), [1, None])
        differ("literal", value_from_ast(parse_value(LITERAL[0]), box, LITERAL[1]), LITERAL[2])
        differ("literal-total", value_from_ast(parse_value(LITERAL_TOTAL[0]), ListType(NonNullType(any_))), LITERAL_TOTAL[1])
        # customNotNone_default on the live stand-in scalar: the inputs `CustomOK` speaks of
        for j in NON_NULL_JSON:
            ctx.count()
            if any_.parse(j) is None:
                ctx.fail("corr:regok-witness:stand-in-parse-answers-None", "default_scalar.parse answers None to a non-null value (customNotNone_default says it cannot)",
                         {"check": "regok-witness", "value": json.dumps(j)}, kind="correspondence")
        for src in NON_NULL_LITERALS:
            ctx.count()
            if any_.parse_literal(parse_value(src), {"v": None}) is None:
                ctx.fail("corr:regok-witness:stand-in-parse-literal-answers-None",
                         "default_scalar.parse_literal answers None to a literal other than null / $x (customNotNone_default says it cannot)",
                         {"check": "regok-witness", "literal": src}, kind="correspondence")
        # the artefact behind audit finding C07-F1: `null` IS answered None - value_from_ast never hands it over
        ctx.stat("regok-witness:stand-in-parse-literal(null)-is-None:%s" % (any_.parse_literal(parse_value("null"), {}) is None))
        # … and at a non-null position the library refuses it before any parser runs
        from py_gql.exc import InvalidValue
        ctx.count()
        try:
            got = value_from_ast(parse_value("null"), NonNullType(any_))
            ctx.fail("property:regok-witness:null-at-non-null-stand-in:value_from_ast", "value_from_ast accepted null at `Any!` (answer %r)" % (got,),
                     {"check": "regok-witness", "literal": "null", "type": "Any!"}, kind="property")
        except InvalidValue:
            ctx.stat("regok-witness:null-at-non-null-refused-by-value_from_ast")
        bad = graphql_blocking(schema, '{ k: f(a: null) }')
        ctx.count()
        if not bad.errors:
            ctx.fail("property:regok-witness:null-at-non-null-stand-in", "null was accepted at `a: Any!`", {"check": "regok-witness", "document": "{ k: f(a: null) }"}, kind="property")
    except Exception as e:  # noqa
        ctx.fail("internal:regok-witness:%s" % type(e).__name__, "the witness probe raised", {"check": "regok-witness", "error": str(e)[:300]}, kind="correspondence")

# -*- coding: utf-8 -*-
"""
C13 — extraction from /repo's working tree (run on every check):

* `Schema.is_subtype` -> Lean step functional (py2lean) in Generated/Subtype.lean,
* `VALID_NAME_RE` -> character classes (parsed with `re._parser`) and
  the per-call-site error format strings of `SchemaValidator` (rule table)
  in Generated/SchemaValidTables.lean.
"""
import ast
import re

from common import REPO
import py2lean

VALIDATION = REPO / "src/py_gql/schema/validation.py"
SCHEMA = REPO / "src/py_gql/schema/schema.py"

# rule id (= constructor of `SchemaValid.Rule`)  <-  (method, format string). A format string that the
# source no longer has / a new one that is not listed here = the source changed shape (broken obligation).
RULES = {
    ("check_valid_name", 'Invalid name "%s".'): "invalidName",
    ("__call__", 'Invalid type name "%s"'): "invalidTypeName",
    ("validate_root_types", "Must provide Query type"): "noQuery",
    ("validate_root_types", 'Query must be ObjectType but got "%s"'): "queryNotObject",
    ("validate_root_types", 'Mutation must be ObjectType but got "%s"'): "mutationNotObject",
    ("validate_root_types", 'Subscription must be ObjectType but got "%s"'): "subscriptionNotObject",
    ("validate_directives", "Expected Directive but got %r"): "notDirective",
    ("validate_directives", 'Duplicate argument "%s" on directive "@%s"'): "dirDupArg",
    ("validate_directives", 'Expected input type for argument "%s" on directive "@%s" but got "%s"'): "dirArgNotInput",
    ("validate_fields", 'Type "%s" must define at least one field'): "noFields",
    ("validate_fields", 'Duplicate field "%s" on "%s"'): "dupField",
    ("validate_fields", 'Expected output type for field "%s" on "%s" but got "%s"'): "fieldNotOutput",
    ("validate_fields", 'Duplicate argument "%s" on "%s"'): "dupArg",
    ("validate_fields", 'Expected input type for argument "%s" on "%s" but got "%s"'): "argNotInput",
    ("validate_fields", 'Invalid default value for argument "%s" on "%s": %s'): "argDefault",
    ("validate_directives", 'Invalid default value for argument "%s" on directive "@%s": %s'): "dirArgDefault",
    ("validate_input_fields", 'Invalid default value for field "%s" on "%s": %s'): "inputFieldDefault",
    ("validate_enum_values", 'Enum value "%s.%s" cannot have None as its internal value'): "enumValueNone",
    ("_validate_resolver_arguments", 'Missing resolver parameter for argument "%s" on "%s"'): "resMissingParam",
    ("_validate_resolver_arguments", 'Argument "%s" on "%s" collides with a positional resolver parameter'): "resCollides",
    ("_validate_resolver_arguments", 'Resolver for "%s" is not callable'): "resNotCallable",
    ("_validate_resolver_arguments", 'Resolver parameter for argument "%s" on "%s" must not be positional only'): "resPosOnly",
    ("_validate_resolver_arguments", 'Resolver parameter for optional argument "%s" on "%s" must have a default'): "resNeedsDefault",
    ("_validate_resolver_arguments", 'Resolver for "%s" must accept 3 positional parameters, found (%s)'): "resPositional",
    ("_validate_resolver_arguments", 'Required resolver parameter "%s" on "%s" does not match any known argument or expected positional parameter'): "resExtraRequired",
    ("validate_interfaces", 'Type "%s" can only implement interface types but got "%s"'): "notInterface",
    ("validate_interfaces", 'Type "%s" mut only implement interface "%s" once'): "dupInterface",
    ("validate_implementation", 'Interface field "%s" is not implemented by type "%s"'): "ifaceFieldMissing",
    ("validate_implementation", 'Interface field "%s" expects type "%s" but "%s" is type "%s"'): "ifaceFieldType",
    ("validate_implementation", 'Interface field argument "%s.%s" is not provided by "%s"'): "ifaceArgMissing",
    ("validate_implementation", 'Interface field argument "%s.%s" expects type "%s" but "%s.%s" is type "%s"'): "ifaceArgType",
    ("validate_implementation", 'Object field argument "%s.%s" is of required type "%s" but is not provided by interface field "%s"'): "extraRequiredArg",
    ("validate_union_members", 'UnionType "%s" must at least define one member'): "unionEmpty",
    ("validate_union_members", 'UnionType "%s" expects object types but got "%s"'): "unionMemberNotObject",
    ("validate_union_members", 'UnionType "%s" can only include type "%s" once'): "unionDup",
    ("validate_enum_values", 'EnumType "%s" must at least define one value'): "enumEmpty",
    ("validate_enum_values", 'Enum "%s" expects value to be EnumValue but got "%s"'): "enumNotValue",
    ("validate_input_fields", 'Type "%s" must define at least one field'): "noFields",
    ("validate_input_fields", 'Duplicate field "%s" on "%s"'): "dupField",
    ("validate_input_fields", 'Expected input type for field "%s" on "%s" but got "%s"'): "inputFieldNotInput",
}
# call sites that only exist once the proposed fix C13-S4-S6 is applied (their absence = unfixed tree)
FIX_ONLY = {("validate_interfaces", 'Type "%s" can only implement interface types but got "%s"'),
            ("_validate_resolver_arguments", 'Argument "%s" on "%s" collides with a positional resolver parameter'),
            ("_validate_resolver_arguments", 'Resolver for "%s" is not callable'),
            ("validate_fields", 'Invalid default value for argument "%s" on "%s": %s'),
            ("validate_directives", 'Invalid default value for argument "%s" on directive "@%s": %s'),
            ("validate_input_fields", 'Invalid default value for field "%s" on "%s": %s'),
            ("validate_enum_values", 'Enum value "%s.%s" cannot have None as its internal value')}
FIX_ONLY_RULES = {"resCollides", "resNotCallable", "argDefault", "dirArgDefault", "inputFieldDefault", "enumValueNone"}
# unreachable through `Schema()` (construction raises first); not produced by the model
NOT_MODELLED = {"notDirective", "enumNotValue"}


class _Env:
    """Simple data flow inside one method (+ module level and class level constants): which string
    constants can a name / attribute / subscript stand for."""

    def __init__(self, module, cls, fn):
        self.scopes = []
        for body in (fn.body, cls.body, module.body):
            names, loops = {}, []
            for st in (ast.walk(ast.Module(body=body, type_ignores=[])) if body is fn.body else body):
                if isinstance(st, ast.Assign) and len(st.targets) == 1 and isinstance(st.targets[0], ast.Name):
                    names.setdefault(st.targets[0].id, []).append(st.value)
                elif isinstance(st, ast.AnnAssign) and isinstance(st.target, ast.Name) and st.value is not None:
                    names.setdefault(st.target.id, []).append(st.value)
                elif isinstance(st, (ast.For, ast.comprehension)):
                    loops.append((st.target, st.iter))
            self.scopes.append((names, loops))

    def values_of(self, name):
        """AST nodes a name may be bound to (assignments and `for` targets), innermost scope first."""
        for names, loops in self.scopes:
            out = list(names.get(name, []))
            for target, it in loops:
                idx = None
                if isinstance(target, ast.Name) and target.id == name:
                    idx = ()
                elif isinstance(target, (ast.Tuple, ast.List)):
                    for i, t in enumerate(target.elts):
                        if isinstance(t, ast.Name) and t.id == name:
                            idx = (i,)
                if idx is None:
                    continue
                for seq in self.sequences(it):
                    for e in seq:
                        if idx == ():
                            out.append(e)
                        elif isinstance(e, (ast.Tuple, ast.List)) and idx[0] < len(e.elts):
                            out.append(e.elts[idx[0]])
                        else:
                            out.append(None)
            if out:
                return out
        return []

    def sequences(self, node, depth=0):
        """Literal sequences an iterable expression may be."""
        if depth > 4:
            return []
        if isinstance(node, (ast.Tuple, ast.List, ast.Set)):
            return [node.elts]
        if isinstance(node, ast.Dict):
            return [node.values]
        if isinstance(node, ast.Name):
            return [s for v in self.values_of(node.id) if v is not None for s in self.sequences(v, depth + 1)]
        if isinstance(node, ast.Attribute) and isinstance(node.value, ast.Name) and node.value.id in ("self", "cls"):
            return [s for v in self.values_of(node.attr) if v is not None for s in self.sequences(v, depth + 1)]
        if isinstance(node, ast.Call) and isinstance(node.func, ast.Attribute) and node.func.attr in ("items", "values") and not node.args:
            base = node.func.value
            dicts = []
            if isinstance(base, ast.Dict):
                dicts = [base]
            elif isinstance(base, ast.Name):
                dicts = [v for v in self.values_of(base.id) if isinstance(v, ast.Dict)]
            if node.func.attr == "values":
                return [d.values for d in dicts]
            return [[ast.Tuple(elts=[k, v], ctx=ast.Load()) for k, v in zip(d.keys, d.values)] for d in dicts]
        if isinstance(node, ast.Call) and isinstance(node.func, ast.Name) and node.func.id in ("enumerate", "zip", "list", "tuple", "sorted", "reversed"):
            if node.func.id == "zip":
                seqs = [self.sequences(a, depth + 1) for a in node.args]
                if all(len(x) == 1 for x in seqs):
                    return [[ast.Tuple(elts=list(es), ctx=ast.Load()) for es in zip(*[x[0] for x in seqs])]]
                return []
            inner = self.sequences(node.args[0], depth + 1) if node.args else []
            if node.func.id == "enumerate":
                return [[ast.Tuple(elts=[ast.Constant(i), e], ctx=ast.Load()) for i, e in enumerate(seq)] for seq in inner]
            return inner
        return []

    def strings(self, node, depth=0):
        """All string constants `node` may evaluate to as a MESSAGE TEMPLATE; None = not recognised."""
        if node is None or depth > 6:
            return None
        if isinstance(node, ast.Constant):
            return [node.value] if isinstance(node.value, str) else None
        if isinstance(node, ast.BinOp) and isinstance(node.op, ast.Mod):
            return self.strings(node.left, depth + 1)
        if isinstance(node, ast.BinOp) and isinstance(node.op, ast.Add):
            l, r = self.strings(node.left, depth + 1), self.strings(node.right, depth + 1)
            return None if l is None or r is None else [x + y for x in l for y in r]
        if isinstance(node, ast.Call) and isinstance(node.func, ast.Attribute) and node.func.attr == "format":
            return self.strings(node.func.value, depth + 1)
        if isinstance(node, ast.IfExp):
            l, r = self.strings(node.body, depth + 1), self.strings(node.orelse, depth + 1)
            return None if l is None or r is None else l + r
        if isinstance(node, ast.Name) or (isinstance(node, ast.Attribute) and isinstance(node.value, ast.Name)
                                          and node.value.id in ("self", "cls")):
            vals = self.values_of(node.id if isinstance(node, ast.Name) else node.attr)
            if not vals:
                return None
            out = []
            for v in vals:
                r = self.strings(v, depth + 1)
                if r is None:
                    return None
                out += r
            return out
        if isinstance(node, ast.Subscript):
            seqs = self.sequences(node.value)
            key = node.slice
            out = []
            for base in ([node.value] if isinstance(node.value, ast.Dict) else
                         [v for v in (self.values_of(node.value.id) if isinstance(node.value, ast.Name) else []) if v is not None]):
                if isinstance(base, ast.Dict) and isinstance(key, ast.Constant):
                    for k, v in zip(base.keys, base.values):
                        if isinstance(k, ast.Constant) and k.value == key.value:
                            r = self.strings(v, depth + 1)
                            if r is None:
                                return None
                            out += r
                elif isinstance(base, (ast.Tuple, ast.List)) and isinstance(key, ast.Constant) and isinstance(key.value, int):
                    r = self.strings(base.elts[key.value], depth + 1) if -len(base.elts) <= key.value < len(base.elts) else None
                    if r is None:
                        return None
                    out += r
                elif isinstance(base, (ast.Dict, ast.Tuple, ast.List)):
                    # computed key / index: any element
                    for e in (base.values if isinstance(base, ast.Dict) else base.elts):
                        r = self.strings(e, depth + 1)
                        if r is None:
                            return None
                        out += r
            return out or None
        return None


def norm_template(fmt):
    """`str.format` holes -> `%s`, so that both formatting styles name the same template."""
    return re.sub(r"\{[^{}]*\}", "%s", fmt)


def call_sites(src=None):
    """([(method, template)] of every `self.add_error(...)` in `SchemaValidator` in source order,
        [(method, line)] of the calls whose message expression is not recognised)."""
    tree = ast.parse(src if src is not None else VALIDATION.read_text())
    cls = [n for n in tree.body if isinstance(n, ast.ClassDef) and n.name == "SchemaValidator"]
    if not cls:
        raise py2lean.Untranslatable("class SchemaValidator not found")
    out, unknown = [], []
    for m in cls[0].body:
        if not isinstance(m, ast.FunctionDef) or m.name == "add_error":
            continue
        env = _Env(tree, cls[0], m)
        for c in ast.walk(m):
            if (isinstance(c, ast.Call) and isinstance(c.func, ast.Attribute) and c.func.attr == "add_error"
                    and isinstance(c.func.value, ast.Name) and c.func.value.id == "self"):
                fmts = env.strings(c.args[0]) if c.args else None
                if not fmts:
                    unknown.append((m.name, c.lineno))
                    continue
                seen = []
                for f in fmts:
                    if f not in seen:
                        seen.append(f)
                        out.append((m.name, norm_template(f), c.lineno, f))
    out.sort(key=lambda t: t[2])
    return [(m, f, raw) for m, f, _, raw in out], unknown


_STATIC_WHY = [None]


def static_rule_table():
    """{rule id: [templates]} from the source text, or None (reason in _STATIC_WHY) when the call sites are
    not all recognised / do not carry exactly the known templates."""
    try:
        sites, unknown = call_sites()
    except Exception as e:  # noqa
        _STATIC_WHY[0] = "%s: %s" % (type(e).__name__, e)
        return None
    if unknown:
        _STATIC_WHY[0] = "add_error with an unrecognised message expression in %s" % ", ".join("%s:%d" % u for u in unknown)
        return None
    known = {(m, norm_template(f)): r for (m, f), r in RULES.items()}
    by_template = {}
    for (m, f), r in known.items():
        by_template.setdefault(f, set()).add(r)
    table = {}
    for m, f, raw in sites:
        if (m, f) in known:
            rule = known[(m, f)]
        elif len(by_template.get(f, ())) == 1:
            rule = next(iter(by_template[f]))        # the same template, emitted from another (renamed / helper) method
        else:
            _STATIC_WHY[0] = "unknown message template %r in %s" % (raw, m)
            return None
        table.setdefault(rule, [])
        if raw not in table[rule]:
            table[rule].append(raw)
    missing = sorted(set(RULES.values()) - set(table) - NOT_MODELLED - FIX_ONLY_RULES)
    if missing:
        _STATIC_WHY[0] = "no call site found for rule(s) %s" % ", ".join(missing)
        return None
    _STATIC_WHY[0] = None
    return table


# ---- dynamic attribution (fallback) -------------------------------------------------------------

def _single_violation(rule, k):
    """A description (gen/schema.py format) in which exactly ONE rule instance is violated: `rule`.
    `k` in (0, 1) varies every name and type expression that ends up in the message."""
    sfx = "ab"[k]
    t1 = [("named", "Int"), ("list", ("nonNull", ("named", "Float")))][k]
    t2 = [("named", "String"), ("nonNull", ("named", "Boolean"))][k]
    E, In, I, O, U = "En" + sfx, "In" + sfx, "If" + sfx, "Ob" + sfx, "Un" + sfx
    fn, own, x = "f" + sfx, "own" + sfx, "x" + sfx

    def F(name, t, args=None, **kw):
        d = {"name": name, "type": t, "args": args or [], "deprecated": None, "desc": None}
        d.update(kw)
        return d

    def A(name, t):
        return {"name": name, "type": t, "default": None, "desc": None}
    N = lambda n: ("named", n)  # noqa
    wrap = (lambda t: t) if k == 0 else (lambda t: ("list", t))
    d = {"directives": [], "query": "Query", "mutation": None, "subscription": None, "types": [
        {"kind": "enum", "name": E, "desc": None, "values": [{"name": "V", "deprecated": None, "desc": None}]},
        {"kind": "input", "name": In, "desc": None, "fields": [A("i", N("Int"))]},
        {"kind": "interface", "name": I, "desc": None, "fields": [F(fn, t1, [A(x, t1)])]},
        {"kind": "object", "name": O, "desc": None, "interfaces": [I], "fields": [F(fn, t1, [A(x, t1)]), F(own, N("Int"), [A("p", N("Int"))])]},
        {"kind": "union", "name": U, "desc": None, "members": [O]},
        {"kind": "object", "name": "Query", "desc": None, "interfaces": [],
         "fields": [F("o", N(O)), F("u", N(U)), F("e", N(E), [A("i", N(In))])]},
    ]}
    T = {t["name"]: t for t in d["types"]}
    q = T["Query"]

    def fresh(t):
        d["types"].append(t)
        if t["kind"] == "input":
            q["fields"].append(F("r" + sfx, N("Int"), [A("i", N(t["name"]))]))
        else:
            q["fields"].append(F("r" + sfx, N(t["name"])))
    of, oown = T[O]["fields"]
    if rule == "invalidName":
        T[O]["fields"].append(F("__" + sfx, N("Int")))
    elif rule == "invalidTypeName":
        fresh({"kind": "object", "name": "__T" + sfx, "desc": None, "interfaces": [], "fields": [F("a", N("Int"))]})
    elif rule == "noQuery":
        d["query"] = None
    elif rule == "queryNotObject":
        d["query"] = I
    elif rule == "mutationNotObject":
        d["mutation"] = E
    elif rule == "subscriptionNotObject":
        d["subscription"] = U
    elif rule == "dirDupArg":
        d["directives"].append({"name": "d" + sfx, "locations": ["FIELD"], "desc": None, "args": [A(x, N("Int")), A("y", N("Int")), A(x, N("Int"))]})
    elif rule == "dirArgNotInput":
        d["directives"].append({"name": "d" + sfx, "locations": ["FIELD"], "desc": None, "args": [A(x, wrap(N(O)))]})
    elif rule == "noFields":
        fresh({"kind": "object", "name": "Em" + sfx, "desc": None, "interfaces": [], "fields": []})
    elif rule == "dupField":
        T[O]["fields"].append(F(own, N("Int"), [A("p", N("Int"))]))
    elif rule == "fieldNotOutput":
        T[O]["fields"].append(F("g" + sfx, wrap(N(In))))
    elif rule == "dupArg":
        oown["args"].append(A("p", N("Int")))
    elif rule == "argNotInput":
        oown["args"].append(A(x, wrap(N(O))))
    elif rule == "resMissingParam":
        oown["resolver"] = "root, ctx, info"
    elif rule == "resPosOnly":
        oown["resolver"] = "root, ctx, info, p=None, /"
    elif rule == "resNeedsDefault":
        oown["resolver"] = "root, ctx, info, p"
    elif rule == "resPositional":
        oown["args"] = []
        oown["resolver"] = ["root, ctx", "**kw"][k]
    elif rule == "resExtraRequired":
        oown["resolver"] = "root, ctx, info, p=None, zz%s=None, *, kw%s" % (sfx, sfx)
    elif rule == "resCollides":
        oown["args"] = [A(["info", "ctx"][k], N("Int"))]
        oown["resolver"] = "root, ctx, info, **kw"
    elif rule == "argDefault":
        a = A(x, [N("Int"), ("nonNull", N("Int"))][k]); a["default"] = "1"; a["default_py"] = ["no", None][k]
        oown["args"] = [a]
        oown["name"] = own
    elif rule == "dirArgDefault":
        a = A(x, [N("Int"), ("nonNull", N("Int"))][k]); a["default"] = "1"; a["default_py"] = ["no", None][k]
        d["directives"].append({"name": "d" + sfx, "locations": ["FIELD"], "desc": None, "args": [a]})
    elif rule == "inputFieldDefault":
        a = A("o" + sfx, [N("Int"), ("nonNull", N("Int"))][k]); a["default"] = "1"; a["default_py"] = ["no", None][k]
        T[In]["fields"].append(a)
    elif rule == "enumValueNone":
        T[E]["values"].append({"name": "N" + sfx, "deprecated": None, "desc": None, "py_value": None})
    elif rule == "resNotCallable":
        oown["resolver"] = "!not-callable"
        oown["name"] = own + "x" * k
    elif rule == "notInterface":
        fresh({"kind": "object", "name": "Im" + sfx, "desc": None, "interfaces": [O],
               "fields": [F(fn, t1, [A(x, t1)]), F(own, N("Int"), [A("p", N("Int"))])]})
    elif rule == "dupInterface":
        T[O]["interfaces"] = [I, I]
    elif rule == "ifaceFieldMissing":
        T[O]["fields"] = [oown]
    elif rule == "ifaceFieldType":
        of["type"] = t2
    elif rule == "ifaceArgMissing":
        of["args"] = []
    elif rule == "ifaceArgType":
        of["args"] = [A(x, t2)]
    elif rule == "extraRequiredArg":
        of["args"].append(A("z" + sfx, [("nonNull", N("Int")), ("nonNull", ("list", N("String")))][k]))
    elif rule == "unionEmpty":
        fresh({"kind": "union", "name": "Eu" + sfx, "desc": None, "members": []})
    elif rule == "unionMemberNotObject":
        T[U]["members"].append(E)
    elif rule == "unionDup":
        T[U]["members"].append(O)
    elif rule == "enumEmpty":
        fresh({"kind": "enum", "name": "Ee" + sfx, "desc": None, "values": []})
    elif rule == "inputFieldNotInput":
        T[In]["fields"].append(A("o" + sfx, wrap(N(O))))
    else:
        return None
    return d


def _segments(msg):
    return re.split(r'("[^"]*")', msg)


def _learn(m1, m2):
    """(regex, template with %s) from two messages of the same call site whose operands all differ.
    Quoted segments are operands; literal text must agree; a diverging tail (lists of varying length) is left open."""
    a, b = _segments(m1), _segments(m2)
    rx, tpl = "^", ""
    for i in range(max(len(a), len(b))):
        if i >= len(a) or i >= len(b):
            rx += ".*"
            break
        x, y = a[i], b[i]
        if i % 2 == 1:
            rx += '"(.*)"'
            tpl += '"%s"'
        elif x == y:
            rx += re.escape(x)
            tpl += x.replace("%", "%%")
        else:
            n = 0
            while n < min(len(x), len(y)) and x[n] == y[n]:
                n += 1
            rx += re.escape(x[:n]) + ".*"
            tpl += x[:n].replace("%", "%%") + "%s"
            break
    return rx + "$", tpl


_DYNAMIC = {}


def dynamic_rule_table():
    """Learn, for every rule the model can emit, the shape of the message the REAL validator produces when
    exactly that rule is violated (two instances per rule with different subjects).
    Returns ({rule: [template]}, [(rule, compiled regex)], notes)."""
    key = str(REPO)
    if key in _DYNAMIC:
        return _DYNAMIC[key]
    from corr import C13 as harness        # builder of live schemas (lazy: C13 imports this module)
    from py_gql.schema.validation import validate_schema
    from py_gql.exc import SchemaValidationError
    rules = sorted(set(RULES.values()) - NOT_MODELLED)
    table, rxs, notes = {}, [], []
    for rule in rules:
        msgs = []
        for k in (0, 1):
            desc = _single_violation(rule, k)
            try:
                schema = harness.build_code(desc)
                try:
                    validate_schema(schema)
                    msgs.append([])
                except SchemaValidationError as e:
                    msgs.append([str(x) for x in e.errors])
            except Exception as e:  # noqa
                msgs.append(None)
                notes.append("dynamic attribution: instance of %s not usable (%s)" % (rule, type(e).__name__))
        if None in msgs or not msgs[0] or len(msgs[0]) != len(msgs[1]):
            notes.append("dynamic attribution: no message learned for rule %s (the single-violation instances give %r)"
                         % (rule, [None if m is None else len(m) for m in msgs]))
            continue
        learned = []
        for m1, m2 in zip(*msgs):
            r = _learn(m1, m2)
            if r not in learned:
                learned.append(r)
        for rx, tpl in learned:
            rxs.append((rule, rx))
            table.setdefault(rule, []).append(tpl)
    # one shape = one rule (identical call sites of different rules cannot be told apart: keep the first, note it)
    seen, uniq = {}, []
    for rule, rx in rxs:
        if rx in seen:
            if seen[rx] != rule:
                notes.append("dynamic attribution: rules %s and %s produce messages of the same shape" % (seen[rx], rule))
            continue
        seen[rx] = rule
        uniq.append((rule, re.compile(rx, re.S)))
    _DYNAMIC[key] = (table, uniq, notes)
    return _DYNAMIC[key]


def extraction_mode():
    return "static" if static_rule_table() is not None else "dynamic"


def rule_table():
    """{rule id: [templates]} of the working tree (static when the call sites are recognised, else learned)."""
    t = static_rule_table()
    return t if t is not None else dynamic_rule_table()[0]


def fix_applied():
    try:
        return input_names_checked() and not name_classes()[4]
    except Exception:  # noqa
        return True


def input_names_checked():
    fn = py2lean.find_function(VALIDATION.read_text(), "validate_input_fields", cls="SchemaValidator")
    return any(isinstance(c, ast.Call) and isinstance(c.func, ast.Attribute) and c.func.attr == "check_valid_name"
               for c in ast.walk(fn))


def matchers():
    """[(rule id, compiled regex)] used ONLY to attribute a real message to the call site that raised it."""
    t = static_rule_table()
    if t is None:
        return dynamic_rule_table()[1]
    out = []
    for rule, fmts in t.items():
        for fmt in fmts:
            parts = re.split(r"%[sr]|\{[^{}]*\}", fmt)
            out.append((rule, re.compile("^" + "(.*)".join(re.escape(p) for p in parts) + "$", re.S)))
    return out


def name_classes():
    """Character classes of VALID_NAME_RE from the compiled pattern: (pattern, forbidden prefix, start, cont, ends with `$`)."""
    import re._parser as sre
    from re._constants import AT, AT_BEGINNING, AT_END, AT_END_STRING, ASSERT_NOT, IN, LITERAL, RANGE, MAX_REPEAT, MAXREPEAT
    mod = {}
    exec(compile(ast.Module(body=[n for n in ast.parse(VALIDATION.read_text()).body
                                  if isinstance(n, ast.Assign) and getattr(n.targets[0], "id", "") == "VALID_NAME_RE"],
                            type_ignores=[]), str(VALIDATION), "exec"), {"re": re}, mod)
    pat = mod["VALID_NAME_RE"]
    if pat.flags & ~re.UNICODE:
        raise py2lean.Untranslatable("VALID_NAME_RE has flags")
    p = list(sre.parse(pat.pattern))

    def cls(items):
        out = []
        for k, v in items:
            if k is LITERAL:
                out.append((v, v))
            elif k is RANGE:
                out.append(tuple(v))
            else:
                raise py2lean.Untranslatable("character class item %r" % (k,))
        return out
    try:
        ok = (p[0] == (AT, AT_BEGINNING) and p[1][0] is ASSERT_NOT and p[1][1][0] == 1
              and all(k is LITERAL for k, _ in p[1][1][1]) and p[2][0] is IN and p[3][0] is MAX_REPEAT
              and p[3][1][0] == 0 and p[3][1][1] is MAXREPEAT and len(p[3][1][2]) == 1 and p[3][1][2][0][0] is IN
              and p[4] in ((AT, AT_END), (AT, AT_END_STRING)) and len(p) == 5)
    except Exception:
        ok = False
    if not ok:
        raise py2lean.Untranslatable("VALID_NAME_RE is not ^(?!lit)[class][class]*$ : %r" % pat.pattern)
    return pat.pattern, [v for _, v in p[1][1][1]], cls(p[2][1]), cls(p[3][1][2][0][1]), p[4] == (AT, AT_END)


def replace_flags():
    """Shape of `Schema._replace_types_and_directives` in the working tree:
    (accumulates, atomic, directives_bust).
      accumulates      the type loop assigns `busted_cache = busted_cache or ...` (ledger T3 fix)
      atomic           every `raise` is also performed by loops that run BEFORE the first statement that
                       mutates `self.types` / `self.directives` (proposed fix C13-T3b)
      directives_bust  the directive loop assigns `busted_cache` too
    """
    fn = py2lean.find_function(SCHEMA.read_text(), "_replace_types_and_directives", cls="Schema")

    def mutates(node):
        for n in ast.walk(node):
            tgts = []
            if isinstance(n, ast.Assign):
                tgts = n.targets
            elif isinstance(n, ast.Delete):
                tgts = n.targets
            elif isinstance(n, ast.Call) and isinstance(n.func, ast.Attribute) and n.func.attr in ("pop", "update", "clear", "setdefault"):
                tgts = [ast.Subscript(value=n.func.value)]
            for t in tgts:
                if isinstance(t, ast.Subscript) and isinstance(t.value, ast.Attribute) and t.value.attr in ("types", "directives"):
                    return t.value.attr
        return None

    def iterates(loop):
        src = ast.dump(loop.iter)
        return "types" if "'types'" in src else ("directives" if "'directives'" in src else None)
    loops = [n for n in fn.body if isinstance(n, ast.For)]
    if not loops:
        raise py2lean.Untranslatable("_replace_types_and_directives has no loops")
    first_mut = next((i for i, l in enumerate(loops) if mutates(l)), None)
    if first_mut is None:
        raise py2lean.Untranslatable("_replace_types_and_directives mutates nothing")
    pre = loops[:first_mut]
    mut = loops[first_mut:]

    def raises(ls, what):
        return sum(1 for l in ls if iterates(l) == what for n in ast.walk(l) if isinstance(n, ast.Raise))
    atomic = (raises(pre, "types") >= raises(mut, "types") > 0) and (raises(pre, "directives") >= raises(mut, "directives"))

    def busted_assign(loop):
        out = []
        for n in ast.walk(loop):
            if isinstance(n, ast.Assign) and getattr(n.targets[0], "id", None) == "busted_cache":
                out.append(n.value)
        return out
    tl = [l for l in mut if iterates(l) == "types"]
    dl = [l for l in mut if iterates(l) == "directives"]
    if len(tl) != 1 or len(dl) != 1:
        raise py2lean.Untranslatable("expected one mutating loop over types and one over directives")
    ta = busted_assign(tl[0])
    if len(ta) != 1:
        raise py2lean.Untranslatable("type loop: expected one assignment to busted_cache")

    def is_acc(v):
        return (isinstance(v, ast.BoolOp) and isinstance(v.op, ast.Or)
                and isinstance(v.values[0], ast.Name) and v.values[0].id == "busted_cache")
    da = busted_assign(dl[0])
    return is_acc(ta[0]), atomic, bool(da) and all(is_acc(v) for v in da)


def specified_directive_names():
    import importlib.util
    src = (REPO / "src/py_gql/schema/directives.py").read_text()
    tree = ast.parse(src)
    names = []
    for n in ast.walk(tree):
        if isinstance(n, ast.Call) and getattr(n.func, "id", "") == "Directive" and n.args and isinstance(n.args[0], ast.Constant):
            names.append(n.args[0].value)
    if sorted(names) != ["deprecated", "include", "skip"]:
        raise py2lean.Untranslatable("specified directives changed: %r" % names)
    return names


def _method(name):
    return py2lean.find_function(VALIDATION.read_text(), name, cls="SchemaValidator")


def _continue_follows(fn, template_part, nth=1):
    """Is the nth `add_error` call whose message contains `template_part` immediately followed (same block) by `continue`?"""
    count = 0
    for node in ast.walk(fn):
        for field in ("body", "orelse"):
            block = getattr(node, field, None)
            if not isinstance(block, list):
                continue
            for i, st in enumerate(block):
                if (isinstance(st, ast.Expr) and isinstance(st.value, ast.Call) and isinstance(st.value.func, ast.Attribute)
                        and st.value.func.attr == "add_error" and template_part in ast.dump(st.value)):
                    count += 1
                    if count == nth:
                        return i + 1 < len(block) and isinstance(block[i + 1], ast.Continue)
    raise py2lean.Untranslatable("add_error(%r) #%d not found in %s" % (template_part, nth, fn.name))


def validator_config():
    """Shape of the validator as read from the source (each flag = one decision of the code):
       mask_type_name   `continue` after "Invalid type name" (the type's members are not examined)
       mask_duplicate   `continue` after the four "Duplicate ..." errors of fields / arguments / input fields / directive arguments
       mask_impl_type   `continue` after the interface field type error (argument checks skipped)
       precise_resolver the resolver-signature rule follows the call `resolver(root, ctx, info, **arguments)` exactly
       extra_arg_required  additional object field arguments are tested with `arg.required`
       subscription_checked  `field.subscription_resolver` goes through the resolver-signature rule
       catches_type_error  a non-callable resolver does not make validation raise
    """
    call = _method("__call__")
    dups = [(_method("validate_directives"), "Duplicate argument"), (_method("validate_fields"), "Duplicate field"),
            (_method("validate_fields"), "Duplicate argument"), (_method("validate_input_fields"), "Duplicate field")]
    dflags = [_continue_follows(fn, part) for fn, part in dups]
    if len(set(dflags)) != 1:
        raise py2lean.Untranslatable("the duplicate-member branches differ: %r" % dflags)
    impl = _method("validate_implementation")
    vra = _method("_validate_resolver_arguments")
    vf = _method("validate_fields")
    extra_required = None
    for n in ast.walk(impl):
        if isinstance(n, ast.If) and "is of required type" in ast.dump(n):
            t = n.test
            if isinstance(t, ast.Attribute) and t.attr == "required":
                extra_required = True
            elif isinstance(t, ast.Call) and getattr(t.func, "id", "") == "isinstance" and "NonNullType" in ast.dump(t):
                extra_required = False
    if extra_required is None:
        raise py2lean.Untranslatable("test guarding the extra required argument error not recognised")
    catches = False
    for n in ast.walk(vra):
        if isinstance(n, ast.ExceptHandler) and n.type is not None and "TypeError" in ast.dump(n.type):
            catches = True
    return {
        "mask_type_name": _continue_follows(call, "Invalid type name"),
        "mask_duplicate": dflags[0],
        "mask_impl_type": _continue_follows(impl, "expects type", 1),
        "precise_resolver": "collides with a positional" in ast.dump(vra),
        "extra_arg_required": extra_required,
        "subscription_checked": "subscription_resolver" in ast.dump(vf),
        "catches_type_error": catches,
        # the resolver-signature rule runs for interface types too unless guarded by isinstance(composite_type, ObjectType)
        "iface_resolver_checked": not any(
            isinstance(n, ast.Assign) and "ObjectType" in ast.dump(n.value) and "isinstance" in ast.dump(n.value)
            and getattr(n.targets[0], "id", "") == "is_resolved" for n in ast.walk(vf)) and
            not any(isinstance(n, ast.If) and "_validate_resolver_arguments" in ast.dump(n) and "ObjectType" in ast.dump(n.test) for n in ast.walk(vf)),
        "not_callable_reported": "is not callable" in ast.dump(vra),
        "defaults_checked": "_default_value_error" in ast.dump(vf),
        "enum_none_reported": "cannot have None" in ast.dump(_method("validate_enum_values")),
    }


def cache_tracks_arguments():
    """`Schema._current_resolvers` (what validate() compares with what it validated) mentions the fields' arguments (fix C13-HHH3)"""
    try:
        fn = py2lean.find_function(SCHEMA.read_text(), "_current_resolvers", cls="Schema")
    except py2lean.Untranslatable:
        return False
    return any(isinstance(n, ast.Attribute) and n.attr == "arguments" for n in ast.walk(fn))


def cache_tracks_structure():
    """`Schema._current_resolvers` covers what the validator READS, not only resolvers and arguments: root types, names,
    interfaces, union members, enum values, directive locations (fix C13-S12)"""
    try:
        fn = py2lean.find_function(SCHEMA.read_text(), "_current_resolvers", cls="Schema")
    except py2lean.Untranslatable:
        return False
    attrs = {n.attr for n in ast.walk(fn) if isinstance(n, ast.Attribute)} | \
            {n.value for n in ast.walk(fn) if isinstance(n, ast.Constant) and isinstance(n.value, str)}
    return {"query_type", "mutation_type", "subscription_type", "name", "interfaces", "types", "values", "locations",
            "fields", "arguments", "directives", "type"} <= attrs


def cache_and_signature_flags():
    """(cache_tracks_assignments, outer_signature):
       Schema.validate() does more than test `self._is_valid is None` before trusting the cached verdict (fix C13-HH1);
       `_validate_resolver_arguments` inspects the callable itself, `signature(resolver, follow_wrapped=False)` (fix C13-HH2)."""
    fn = py2lean.find_function(SCHEMA.read_text(), "validate", cls="Schema")
    ifs = [n for n in ast.walk(fn) if isinstance(n, ast.If)]
    if not ifs:
        raise py2lean.Untranslatable("Schema.validate has no test of the cached verdict")
    t = ifs[0].test
    legacy = (isinstance(t, ast.Compare) and isinstance(t.left, ast.Attribute) and t.left.attr == "_is_valid"
              and len(t.ops) == 1 and isinstance(t.ops[0], ast.Is) and isinstance(t.comparators[0], ast.Constant)
              and t.comparators[0].value is None)
    vra = _method("_validate_resolver_arguments")
    outer = None
    for n in ast.walk(vra):
        if isinstance(n, ast.Call) and getattr(n.func, "id", "") == "signature":
            outer = any(k.arg == "follow_wrapped" and isinstance(k.value, ast.Constant) and k.value.value is False for k in n.keywords)
    if outer is None:
        raise py2lean.Untranslatable("call of inspect.signature not found in _validate_resolver_arguments")
    return (not legacy), outer


def lean_str(s):
    return '"' + s.replace("\\", "\\\\").replace('"', '\\"').replace("\n", "\\n") + '"'


def extract(ctx=None):
    files = {}
    errors = []
    for part in (_extract_subtype, _extract_tables):
        try:
            files.update(part(ctx))
        except Exception as e:  # noqa
            errors.append(e)
    if errors:
        # what could be generated is written anyway (a stale table must not add a second, unrelated, broken
        # obligation); the failure itself is reported by the framework
        import common
        for rel, content in files.items():
            common.write_if_changed(common.LEAN / rel, content)
        raise errors[0]
    return files


def _extract_subtype(ctx=None):
    src = SCHEMA.read_text()
    step, _ = py2lean.translate_step(
        src, "is_subtype", "isSubtypeStep", {"is_subtype": "recSub"}, cls="Schema", skip_self=True,
        extra_calls={"is_possible_type": ("isPossible", 2)},
        isinstance_extra={"GraphQLAbstractType": "isAbstract", "ObjectType": "isObject"},
        extra_params="(isAbstract isObject : Ty → Bool) (isPossible : Ty → Ty → Bool)")
    sub = "\n".join([py2lean.header("src/py_gql/schema/schema.py (Schema.is_subtype)"), "import PyGqlModel.Ty",
                     "set_option linter.unusedVariables false", "namespace PyGql.Generated.Subtype", "open PyGql", "",
                     "/-- one unfolding of `Schema.is_subtype(type_, super_type)`; `isinstance(·, GraphQLAbstractType)`,",
                     "    `isinstance(·, ObjectType)` and `self.is_possible_type` are parameters -/",
                     step, "end PyGql.Generated.Subtype", ""])
    return {"PyGqlModel/Generated/Subtype.lean": sub}


def _extract_tables(ctx=None):
    pattern, forb, start, cont, dollar = name_classes()

    def pred(ranges):
        return " || ".join(("c == %d" % a) if a == b else ("(%d ≤ c && c ≤ %d)" % (a, b)) for a, b in ranges) or "false"
    table = rule_table()
    if ctx is not None:
        ctx.extra["extraction"] = extraction_mode()
        if extraction_mode() == "dynamic":
            ctx.notes.append("message templates not recognised statically (%s): attribution learned from single-violation schemas" % _STATIC_WHY[0])
            ctx.notes.extend(dynamic_rule_table()[2])
    tl = [py2lean.header("src/py_gql/schema/validation.py (VALID_NAME_RE, add_error call sites)"),
          "namespace PyGql.Generated.SchemaValidTables", "",
          "def validNamePattern : String := %s" % lean_str(pattern),
          "/-- the negative look-ahead `(?!..)` -/",
          "def nameForbiddenPrefix : List Nat := [%s]" % ", ".join(map(str, forb)),
          "def nameStart (c : Nat) : Bool := %s" % pred(start),
          "def nameCont (c : Nat) : Bool := %s" % pred(cont),
          "/-- the pattern ends with `$` (which also matches before one trailing newline) instead of `\\Z` -/",
          "def nameDollarQuirk : Bool := %s" % ("true" if dollar else "false"), "",
          "/-- (rule id, format strings of its `add_error` call sites) -/",
          "def ruleFormats : List (String × List String) := ["]
    tl.append(",\n".join("  (%s, [%s])" % (lean_str(r), ", ".join(lean_str(f) for f in fs)) for r, fs in table.items()))
    acc, atomic, dbust = replace_flags()
    tl += ["]", "",
           "/-- `_replace_types_and_directives`: `busted_cache = busted_cache or ...` in the type loop (T3 fix) -/",
           "def replaceAccumulates : Bool := %s" % ("true" if acc else "false"),
           "/-- `_replace_types_and_directives` performs every refusal before the first mutation (fix C13-T3b) -/",
           "def replaceAtomic : Bool := %s" % ("true" if atomic else "false"),
           "/-- a replaced / added / removed directive busts the caches (fix C13-T3b) -/",
           "def replaceDirectivesBust : Bool := %s" % ("true" if dbust else "false"),
           "def specifiedDirectives : List String := [%s]" % ", ".join(lean_str(n) for n in specified_directive_names()),
           "",
           "/-- shape of `SchemaValidator` (see `validator_config` in harness/corr/C13_extract.py) -/"] + [
           "def cfg%s : Bool := %s" % ("".join(w.capitalize() for w in k.split("_")), "true" if v else "false")
           for k, v in validator_config().items()] + [
           "/-- `Schema.validate()` only trusts the cached verdict for the resolver callables it was computed with (fix C13-HH1) -/",
           "def cfgCacheTracksAssignments : Bool := %s" % ("true" if cache_and_signature_flags()[0] else "false"),
           "/-- the cached verdict also stands for the ARGUMENTS of every field it was computed with (fix C13-HHH3) -/",
           "def cfgCacheTracksArguments : Bool := %s" % ("true" if cache_tracks_arguments() else "false"),
           "/-- the cached verdict stands for everything the validator reads: root types, names, members, directives (fix C13-S12) -/",
           "def cfgCacheTracksStructure : Bool := %s" % ("true" if cache_tracks_structure() else "false"),
           "/-- the resolver-signature rule inspects the callable itself, not what it `functools.wraps` (fix C13-HH2) -/",
           "def cfgOuterSignature : Bool := %s" % ("true" if cache_and_signature_flags()[1] else "false"),
           "", "/-- the proposed fix C13-S4-S6 is present in the working tree -/",
           "def fixS4S6 : Bool := %s" % ("true" if fix_applied() else "false"),
           "end PyGql.Generated.SchemaValidTables", ""]
    return {"PyGqlModel/Generated/SchemaValidTables.lean": "\n".join(tl)}

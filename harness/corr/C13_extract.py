# -*- coding: utf-8 -*-
"""
C13 — extraction from /repo's working tree (run on every check):

* `Schema.is_subtype` -> Lean step functional (py2lean) in Generated/Subtype.lean,
* `VALID_NAME_RE` -> character classes (parsed with `re._parser`) and
  the per-call-site error format strings of `SchemaValidator` (rule table)
  in Generated/SchemaValidTables.lean.
"""
import ast
import re

from common import REPO
import py2lean

VALIDATION = REPO / "src/py_gql/schema/validation.py"
SCHEMA = REPO / "src/py_gql/schema/schema.py"

# rule id (= constructor of `SchemaValid.Rule`)  <-  (method, format string). A format string that the
# source no longer has / a new one that is not listed here = the source changed shape (broken obligation).
RULES = {
    ("check_valid_name", 'Invalid name "%s".'): "invalidName",
    ("__call__", 'Invalid type name "%s"'): "invalidTypeName",
    ("validate_root_types", "Must provide Query type"): "noQuery",
    ("validate_root_types", 'Query must be ObjectType but got "%s"'): "queryNotObject",
    ("validate_root_types", 'Mutation must be ObjectType but got "%s"'): "mutationNotObject",
    ("validate_root_types", 'Subscription must be ObjectType but got "%s"'): "subscriptionNotObject",
    ("validate_directives", "Expected Directive but got %r"): "notDirective",
    ("validate_directives", 'Duplicate argument "%s" on directive "@%s"'): "dirDupArg",
    ("validate_directives", 'Expected input type for argument "%s" on directive "@%s" but got "%s"'): "dirArgNotInput",
    ("validate_fields", 'Type "%s" must define at least one field'): "noFields",
    ("validate_fields", 'Duplicate field "%s" on "%s"'): "dupField",
    ("validate_fields", 'Expected output type for field "%s" on "%s" but got "%s"'): "fieldNotOutput",
    ("validate_fields", 'Duplicate argument "%s" on "%s"'): "dupArg",
    ("validate_fields", 'Expected input type for argument "%s" on "%s" but got "%s"'): "argNotInput",
    ("_validate_resolver_arguments", 'Missing resolver parameter for argument "%s" on "%s"'): "resMissingParam",
    ("_validate_resolver_arguments", 'Resolver parameter for argument "%s" on "%s" must not be positional only'): "resPosOnly",
    ("_validate_resolver_arguments", 'Resolver parameter for optional argument "%s" on "%s" must have a default'): "resNeedsDefault",
    ("_validate_resolver_arguments", 'Resolver for "%s" must accept 3 positional parameters, found (%s)'): "resPositional",
    ("_validate_resolver_arguments", 'Required resolver parameter "%s" on "%s" does not match any known argument or expected positional parameter'): "resExtraRequired",
    ("validate_interfaces", 'Type "%s" can only implement interface types but got "%s"'): "notInterface",
    ("validate_interfaces", 'Type "%s" mut only implement interface "%s" once'): "dupInterface",
    ("validate_implementation", 'Interface field "%s" is not implemented by type "%s"'): "ifaceFieldMissing",
    ("validate_implementation", 'Interface field "%s" expects type "%s" but "%s" is type "%s"'): "ifaceFieldType",
    ("validate_implementation", 'Interface field argument "%s.%s" is not provided by "%s"'): "ifaceArgMissing",
    ("validate_implementation", 'Interface field argument "%s.%s" expects type "%s" but "%s.%s" is type "%s"'): "ifaceArgType",
    ("validate_implementation", 'Object field argument "%s.%s" is of required type "%s" but is not provided by interface field "%s"'): "extraRequiredArg",
    ("validate_union_members", 'UnionType "%s" must at least define one member'): "unionEmpty",
    ("validate_union_members", 'UnionType "%s" expects object types but got "%s"'): "unionMemberNotObject",
    ("validate_union_members", 'UnionType "%s" can only include type "%s" once'): "unionDup",
    ("validate_enum_values", 'EnumType "%s" must at least define one value'): "enumEmpty",
    ("validate_enum_values", 'Enum "%s" expects value to be EnumValue but got "%s"'): "enumNotValue",
    ("validate_input_fields", 'Type "%s" must define at least one field'): "noFields",
    ("validate_input_fields", 'Duplicate field "%s" on "%s"'): "dupField",
    ("validate_input_fields", 'Expected input type for field "%s" on "%s" but got "%s"'): "inputFieldNotInput",
}
# call sites that only exist once the proposed fix C13-S4-S6 is applied (their absence = unfixed tree)
FIX_ONLY = {("validate_interfaces", 'Type "%s" can only implement interface types but got "%s"')}
# unreachable through `Schema()` (construction raises first); not produced by the model
NOT_MODELLED = {"notDirective", "enumNotValue"}


def _const_str(node):
    """String value of a (possibly implicitly concatenated / `%`-formatted) message expression."""
    if isinstance(node, ast.Constant) and isinstance(node.value, str):
        return node.value
    if isinstance(node, ast.BinOp) and isinstance(node.op, ast.Mod):
        return _const_str(node.left)
    if isinstance(node, ast.BinOp) and isinstance(node.op, ast.Add):
        l, r = _const_str(node.left), _const_str(node.right)
        return None if l is None or r is None else l + r
    return None


def call_sites(src=None):
    """[(method, format string)] of every `self.add_error(...)` in `SchemaValidator`, in source order."""
    tree = ast.parse(src if src is not None else VALIDATION.read_text())
    cls = [n for n in tree.body if isinstance(n, ast.ClassDef) and n.name == "SchemaValidator"]
    if not cls:
        raise py2lean.Untranslatable("class SchemaValidator not found")
    out = []
    for m in cls[0].body:
        if not isinstance(m, ast.FunctionDef):
            continue
        for c in ast.walk(m):
            if (isinstance(c, ast.Call) and isinstance(c.func, ast.Attribute) and c.func.attr == "add_error"
                    and isinstance(c.func.value, ast.Name) and c.func.value.id == "self"):
                if m.name == "add_error":
                    continue
                fmt = _const_str(c.args[0]) if c.args else None
                if fmt is None:
                    raise py2lean.Untranslatable("add_error in %s with a non-literal message" % m.name)
                out.append((m.name, fmt, c.lineno))
    out.sort(key=lambda t: t[2])
    return [(m, f) for m, f, _ in out]


def rule_table():
    """{rule id: [format strings]} of the working tree; raises when the call sites changed shape."""
    sites = call_sites()
    unknown = [s for s in sites if s not in RULES]
    if unknown:
        raise py2lean.Untranslatable("unknown add_error call sites: %r" % unknown)
    missing = [s for s in RULES if s not in sites and s not in FIX_ONLY]
    if missing:
        raise py2lean.Untranslatable("add_error call sites disappeared: %r" % missing)
    table = {}
    for s in sites:
        table.setdefault(RULES[s], [])
        if s[1] not in table[RULES[s]]:
            table[RULES[s]].append(s[1])
    return table


def fix_applied():
    return all(s in call_sites() for s in FIX_ONLY) and input_names_checked() and not name_classes()[4]


def input_names_checked():
    fn = py2lean.find_function(VALIDATION.read_text(), "validate_input_fields", cls="SchemaValidator")
    return any(isinstance(c, ast.Call) and isinstance(c.func, ast.Attribute) and c.func.attr == "check_valid_name"
               for c in ast.walk(fn))


def matchers():
    """[(rule id, compiled regex)] used ONLY to attribute a real message to the call site that raised it."""
    out = []
    for rule, fmts in rule_table().items():
        for fmt in fmts:
            parts = re.split(r"%[sr]", fmt)
            out.append((rule, re.compile("^" + "(.*)".join(re.escape(p) for p in parts) + "$", re.S)))
    return out


def name_classes():
    """Character classes of VALID_NAME_RE from the compiled pattern: (pattern, forbidden prefix, start, cont, ends with `$`)."""
    import re._parser as sre
    from re._constants import AT, AT_BEGINNING, AT_END, AT_END_STRING, ASSERT_NOT, IN, LITERAL, RANGE, MAX_REPEAT, MAXREPEAT
    mod = {}
    exec(compile(ast.Module(body=[n for n in ast.parse(VALIDATION.read_text()).body
                                  if isinstance(n, ast.Assign) and getattr(n.targets[0], "id", "") == "VALID_NAME_RE"],
                            type_ignores=[]), str(VALIDATION), "exec"), {"re": re}, mod)
    pat = mod["VALID_NAME_RE"]
    if pat.flags & ~re.UNICODE:
        raise py2lean.Untranslatable("VALID_NAME_RE has flags")
    p = list(sre.parse(pat.pattern))

    def cls(items):
        out = []
        for k, v in items:
            if k is LITERAL:
                out.append((v, v))
            elif k is RANGE:
                out.append(tuple(v))
            else:
                raise py2lean.Untranslatable("character class item %r" % (k,))
        return out
    try:
        ok = (p[0] == (AT, AT_BEGINNING) and p[1][0] is ASSERT_NOT and p[1][1][0] == 1
              and all(k is LITERAL for k, _ in p[1][1][1]) and p[2][0] is IN and p[3][0] is MAX_REPEAT
              and p[3][1][0] == 0 and p[3][1][1] is MAXREPEAT and len(p[3][1][2]) == 1 and p[3][1][2][0][0] is IN
              and p[4] in ((AT, AT_END), (AT, AT_END_STRING)) and len(p) == 5)
    except Exception:
        ok = False
    if not ok:
        raise py2lean.Untranslatable("VALID_NAME_RE is not ^(?!lit)[class][class]*$ : %r" % pat.pattern)
    return pat.pattern, [v for _, v in p[1][1][1]], cls(p[2][1]), cls(p[3][1][2][0][1]), p[4] == (AT, AT_END)


def replace_flags():
    """Shape of `Schema._replace_types_and_directives` in the working tree:
    (accumulates, atomic, directives_bust).
      accumulates      the type loop assigns `busted_cache = busted_cache or ...` (ledger T3 fix)
      atomic           every `raise` is also performed by loops that run BEFORE the first statement that
                       mutates `self.types` / `self.directives` (proposed fix C13-T3b)
      directives_bust  the directive loop assigns `busted_cache` too
    """
    fn = py2lean.find_function(SCHEMA.read_text(), "_replace_types_and_directives", cls="Schema")

    def mutates(node):
        for n in ast.walk(node):
            tgts = []
            if isinstance(n, ast.Assign):
                tgts = n.targets
            elif isinstance(n, ast.Delete):
                tgts = n.targets
            elif isinstance(n, ast.Call) and isinstance(n.func, ast.Attribute) and n.func.attr in ("pop", "update", "clear", "setdefault"):
                tgts = [ast.Subscript(value=n.func.value)]
            for t in tgts:
                if isinstance(t, ast.Subscript) and isinstance(t.value, ast.Attribute) and t.value.attr in ("types", "directives"):
                    return t.value.attr
        return None

    def iterates(loop):
        src = ast.dump(loop.iter)
        return "types" if "'types'" in src else ("directives" if "'directives'" in src else None)
    loops = [n for n in fn.body if isinstance(n, ast.For)]
    if not loops:
        raise py2lean.Untranslatable("_replace_types_and_directives has no loops")
    first_mut = next((i for i, l in enumerate(loops) if mutates(l)), None)
    if first_mut is None:
        raise py2lean.Untranslatable("_replace_types_and_directives mutates nothing")
    pre = loops[:first_mut]
    mut = loops[first_mut:]

    def raises(ls, what):
        return sum(1 for l in ls if iterates(l) == what for n in ast.walk(l) if isinstance(n, ast.Raise))
    atomic = (raises(pre, "types") >= raises(mut, "types") > 0) and (raises(pre, "directives") >= raises(mut, "directives"))

    def busted_assign(loop):
        out = []
        for n in ast.walk(loop):
            if isinstance(n, ast.Assign) and getattr(n.targets[0], "id", None) == "busted_cache":
                out.append(n.value)
        return out
    tl = [l for l in mut if iterates(l) == "types"]
    dl = [l for l in mut if iterates(l) == "directives"]
    if len(tl) != 1 or len(dl) != 1:
        raise py2lean.Untranslatable("expected one mutating loop over types and one over directives")
    ta = busted_assign(tl[0])
    if len(ta) != 1:
        raise py2lean.Untranslatable("type loop: expected one assignment to busted_cache")

    def is_acc(v):
        return (isinstance(v, ast.BoolOp) and isinstance(v.op, ast.Or)
                and isinstance(v.values[0], ast.Name) and v.values[0].id == "busted_cache")
    da = busted_assign(dl[0])
    return is_acc(ta[0]), atomic, bool(da) and all(is_acc(v) for v in da)


def specified_directive_names():
    import importlib.util
    src = (REPO / "src/py_gql/schema/directives.py").read_text()
    tree = ast.parse(src)
    names = []
    for n in ast.walk(tree):
        if isinstance(n, ast.Call) and getattr(n.func, "id", "") == "Directive" and n.args and isinstance(n.args[0], ast.Constant):
            names.append(n.args[0].value)
    if sorted(names) != ["deprecated", "include", "skip"]:
        raise py2lean.Untranslatable("specified directives changed: %r" % names)
    return names


def lean_str(s):
    return '"' + s.replace("\\", "\\\\").replace('"', '\\"').replace("\n", "\\n") + '"'


def extract(ctx=None):
    src = SCHEMA.read_text()
    step, _ = py2lean.translate_step(
        src, "is_subtype", "isSubtypeStep", {"is_subtype": "recSub"}, cls="Schema", skip_self=True,
        extra_calls={"is_possible_type": ("isPossible", 2)},
        isinstance_extra={"GraphQLAbstractType": "isAbstract", "ObjectType": "isObject"},
        extra_params="(isAbstract isObject : Ty → Bool) (isPossible : Ty → Ty → Bool)")
    sub = "\n".join([py2lean.header("src/py_gql/schema/schema.py (Schema.is_subtype)"), "import PyGqlModel.Ty",
                     "set_option linter.unusedVariables false", "namespace PyGql.Generated.Subtype", "open PyGql", "",
                     "/-- one unfolding of `Schema.is_subtype(type_, super_type)`; `isinstance(·, GraphQLAbstractType)`,",
                     "    `isinstance(·, ObjectType)` and `self.is_possible_type` are parameters -/",
                     step, "end PyGql.Generated.Subtype", ""])
    pattern, forb, start, cont, dollar = name_classes()

    def pred(ranges):
        return " || ".join(("c == %d" % a) if a == b else ("(%d ≤ c && c ≤ %d)" % (a, b)) for a, b in ranges) or "false"
    table = rule_table()
    tl = [py2lean.header("src/py_gql/schema/validation.py (VALID_NAME_RE, add_error call sites)"),
          "namespace PyGql.Generated.SchemaValidTables", "",
          "def validNamePattern : String := %s" % lean_str(pattern),
          "/-- the negative look-ahead `(?!..)` -/",
          "def nameForbiddenPrefix : List Nat := [%s]" % ", ".join(map(str, forb)),
          "def nameStart (c : Nat) : Bool := %s" % pred(start),
          "def nameCont (c : Nat) : Bool := %s" % pred(cont),
          "/-- the pattern ends with `$` (which also matches before one trailing newline) instead of `\\Z` -/",
          "def nameDollarQuirk : Bool := %s" % ("true" if dollar else "false"), "",
          "/-- (rule id, format strings of its `add_error` call sites) -/",
          "def ruleFormats : List (String × List String) := ["]
    tl.append(",\n".join("  (%s, [%s])" % (lean_str(r), ", ".join(lean_str(f) for f in fs)) for r, fs in table.items()))
    acc, atomic, dbust = replace_flags()
    tl += ["]", "",
           "/-- `_replace_types_and_directives`: `busted_cache = busted_cache or ...` in the type loop (T3 fix) -/",
           "def replaceAccumulates : Bool := %s" % ("true" if acc else "false"),
           "/-- `_replace_types_and_directives` performs every refusal before the first mutation (fix C13-T3b) -/",
           "def replaceAtomic : Bool := %s" % ("true" if atomic else "false"),
           "/-- a replaced / added / removed directive busts the caches (fix C13-T3b) -/",
           "def replaceDirectivesBust : Bool := %s" % ("true" if dbust else "false"),
           "def specifiedDirectives : List String := [%s]" % ", ".join(lean_str(n) for n in specified_directive_names()),
           "", "/-- the proposed fix C13-S4-S6 is present in the working tree -/",
           "def fixS4S6 : Bool := %s" % ("true" if fix_applied() else "false"),
           "end PyGql.Generated.SchemaValidTables", ""]
    return {"PyGqlModel/Generated/Subtype.lean": sub, "PyGqlModel/Generated/SchemaValidTables.lean": "\n".join(tl)}

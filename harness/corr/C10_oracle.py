# -*- coding: utf-8 -*-
"""
C10 — the statement itself, on the Python side: `WellFormed` of a response dictionary
(June-2018 spec §7.1), strict-JSON serialisability, locations inside the submitted
text, and the wire encoding shared with the Lean driver (floats as {"$float": ...}).
"""
import json
import math
import re
from collections.abc import Mapping as _Mapping

PART_OF_RUN = False

# GraphQL spec 2.1.4 LineTerminator: LF | CR (not followed by LF) | CR LF
LINE_TERMINATOR = re.compile("\r\n|\n|\r")


def spec_lines(text):
    return LINE_TERMINATOR.split(text)


def enc(v):
    """wire form of a response value: floats -> {"$float": "nan"|"inf"|"-inf"|repr}; lone surrogates -> U+FFFD"""
    if v is None or isinstance(v, (bool, int)):
        return v
    if isinstance(v, float):
        if v != v:
            return {"$float": "nan"}
        if v in (float("inf"), float("-inf")):
            return {"$float": "inf" if v > 0 else "-inf"}
        return {"$float": repr(v)}
    if isinstance(v, str):
        return clean(v)
    if isinstance(v, (list, tuple)):
        return [enc(x) for x in v]
    if isinstance(v, _Mapping):     # dict, OrderedDict, MappingProxyType, custom Mapping (resolver-supplied extensions)
        return {clean(str(k)): enc(x) for k, x in v.items()}
    return {"$nonjson": type(v).__name__}


def clean(s):
    return "".join("�" if 0xD800 <= ord(c) <= 0xDFFF else c for c in s)


def cps(text):
    return [ord(c) for c in text]


def strict_json_problems(result):
    """the statement: response() serialises to strict JSON and json() parses back"""
    out = []
    try:
        resp = result.response()
    except Exception as e:  # noqa
        return None, [("response-raises:" + type(e).__name__, repr(e))]
    try:
        s = json.dumps(resp, allow_nan=False)
    except ValueError:
        out.append(("non-finite-float-in-response", "json.dumps(response, allow_nan=False) fails"))
        s = None
    except TypeError as e:
        out.append(("non-json-value-in-response", str(e)))
        s = None
    try:
        txt = result.json()

        def bad(c):
            raise ValueError("non-strict constant " + c)
        back = json.loads(txt, parse_constant=bad)
        if s is not None and back != json.loads(s):
            out.append(("json-does-not-parse-back", "json() differs from response()"))
    except ValueError as e:
        if not any(p[0] == "non-finite-float-in-response" for p in out):
            out.append(("json-not-strict", str(e)))
    except TypeError as e:
        if not out:
            out.append(("non-json-value-in-response", str(e)))
    return resp, out


def is_int(v):
    return isinstance(v, int) and not isinstance(v, bool)


def well_formed(resp, text, col_key="column"):
    """
    list of (signature, detail) violations of the response format (spec §7.1) for a response
    to the request document `text` (None if the document was submitted as an AST).
    """
    bad = []
    if not isinstance(resp, dict):
        return [("response-not-a-map", type(resp).__name__)]
    for k in resp:
        if k not in ("errors", "data", "extensions"):
            bad.append(("response-unknown-key:" + str(k), k))
    if "errors" not in resp and "data" not in resp:
        bad.append(("response-without-data-and-errors", ""))
    if "errors" in resp:
        errs = resp["errors"]
        if not isinstance(errs, list) or not errs:
            bad.append(("errors-not-a-non-empty-list", repr(errs)[:80]))
            errs = []
        lines = spec_lines(text) if text is not None else None
        for e in errs:
            if not isinstance(e, dict):
                bad.append(("error-not-a-map", repr(e)[:80]))
                continue
            if "message" not in e:
                bad.append(("error-without-message", repr(e)[:120]))
            elif not isinstance(e["message"], str):
                bad.append(("error-message-not-a-string", repr(e["message"])[:80]))
            for k in e:
                if k not in ("message", "locations", "path", "extensions"):
                    bad.append(("error-unknown-key:" + str(k), k))
            if "locations" in e:
                locs = e["locations"]
                if not isinstance(locs, list) or not locs:
                    bad.append(("locations-not-a-non-empty-list", repr(locs)))
                    locs = []
                for loc in locs:
                    if not isinstance(loc, dict) or not is_int(loc.get("line")):
                        bad.append(("location-without-line", repr(loc)))
                        continue
                    others = sorted(k for k in loc if k != "line")
                    if others != [col_key]:
                        if others == ["columne"]:
                            bad.append(("syntax-error-location-key:columne", repr(loc)))
                            col = loc["columne"]
                        else:
                            bad.append(("location-keys:" + ",".join(others), repr(loc)))
                            continue
                    else:
                        col = loc[col_key]
                    if not is_int(col):
                        bad.append(("location-column-not-int", repr(loc)))
                        continue
                    line = loc["line"]
                    if line < 1 or col < 1:
                        bad.append(("location-not-1-based", repr(loc)))
                    elif lines is not None:
                        if line > len(lines):
                            bad.append(("location-outside-document:line", "%r in %d lines" % (loc, len(lines))))
                        elif col > len(lines[line - 1]) + 1:
                            kind = "lone-cr" if re.search("\r(?!\n)", text) else "column"
                            bad.append(("location-outside-document:" + kind, "%r, line has %d chars" % (loc, len(lines[line - 1]))))
            if "path" in e:
                p = e["path"]
                if not isinstance(p, list) or not p or not all(isinstance(x, str) or is_int(x) for x in p):
                    bad.append(("path-not-keys-and-indices", repr(p)))
            if "extensions" in e and not isinstance(e["extensions"], dict):
                bad.append(("error-extensions-not-a-map", repr(e["extensions"])[:80]))
    if "extensions" in resp and not isinstance(resp["extensions"], dict):
        bad.append(("extensions-not-a-map", ""))
    return bad


def data_at(data, path):
    cur = data
    for seg in path:
        if cur is None:
            return ("above-null",)
        try:
            cur = cur[seg]
        except (KeyError, IndexError, TypeError):
            return ("missing",)
    return ("value", cur)


def nonfinite_in(v):
    if isinstance(v, float):
        return not math.isfinite(v)
    if isinstance(v, (list, tuple)):
        return any(nonfinite_in(x) for x in v)
    if isinstance(v, dict):
        return any(nonfinite_in(x) for x in v.values())
    return False

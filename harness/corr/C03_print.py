# -*- coding: utf-8 -*-
"""
C03 (document part) -- `ASTPrinter` on whole documents: print o parse is the identity.

* DIRECT ORACLE on the real code (independent of the model), for every accepted text x and every indentation setting
  (0, 1, 2, 4, 8, TAB, "  TAB"; include_descriptions on):
      t  = parse(x, no_location=True)          p = ASTPrinter(indent)(t)  -- raises nothing, same text twice
      t2 = parse(p, no_location=True)          -- accepted
      t2 == t   (Node.__eq__: every attribute but `source`; `loc` is None on both sides)
      ASTPrinter(indent)(t2) == p
  and the same for the entry points parse_value / parse_type.
* HISTORIES: sequences of `py_gql.lang.print_ast` / `ASTPrinter(...)` calls in ONE process with varying (indent,
  include_descriptions) on several documents: every output equals the same call in isolation (fresh ASTPrinter, Lean
  model) and -- descriptions on -- re-parses to the tree: printing is a function of its arguments, not of the history.
* CORRESPONDENCE: the Lean pipeline text -> `Lex.lexAll` -> `Parse.parseDocument` -> `Print.printDocument` (driver op
  "print_parse") against `ASTPrinter(indent, include_descriptions)(parse(text))` -- exact string equality (code points),
  both values of include_descriptions.

Inputs: grammar-directed documents (gen/document.py: executable AND type-system, fragment variables) whose string tokens
are replaced by rich contents, rendered with random ignored runs; templates that put one string 0..3 selection sets
deep / in every description position / in variable and argument defaults / in directive arguments; the fixtures of
/repo/tests/fixtures (whole, random subsets of their definitions, token-level mutants); corpus/C03/print_*.json.
"""
import json

from corr import C01_lex as L
from corr import C03_strings as S
from gen import document as gd
from common import REPO, CORPUS

PROPERTY = "C03"
PART = "C03_print"
RULE = ("documents: grammar derivations (executable + type-system + fragment variables) with rich string contents, string "
        "templates (depth 0..3, every description / default / directive-argument position), fixtures + subsets + token "
        "mutants, corpus; x indent in {0,1,2,4,8,TAB,'  TAB'} x include_descriptions; distinct = distinct (text, indent); "
        "non-trivial = accepted document whose printed form differs from the submitted text")
ASSUMPTIONS = [
    "indent strings are over {space, tab}; integers >= 0",
    "documents are re-parsed with the flags they were parsed with (allow_type_system, experimental_fragment_variables)",
]
TRUSTED = ["token-level shrinker and tree differ of corr/C03_print.py (signatures only)"]

INDENTS = S.INDENTS
FLAGS = dict(allow_type_system=True, experimental_fragment_variables=True, no_location=True)
MEMBER_KINDS = ("FieldDefinition", "InputValueDefinition", "EnumValueDefinition")


# ---------------------------------------------------------------------------------------------
# real side

def real_parse(text, entry="document"):
    from py_gql.lang import parse
    from py_gql.lang.parser import parse_value, parse_type
    from py_gql.exc import GraphQLSyntaxError
    try:
        if entry == "value":
            return ("ok", parse_value(text, no_location=True))
        if entry == "type":
            return ("ok", parse_type(text, no_location=True))
        return ("ok", parse(text, **FLAGS))
    except GraphQLSyntaxError:
        return ("syntax", None)
    except Exception as e:  # noqa
        return ("internal:" + type(e).__name__, None)


def real_print(node, indent, desc=True):
    from py_gql.lang.printer import ASTPrinter
    try:
        return ("ok", ASTPrinter(indent=indent, include_descriptions=desc)(node))
    except Exception as e:  # noqa
        return ("raises", type(e).__name__)


def strip_member_descriptions(node):
    """a deep copy without the descriptions of fields, arguments, input fields and enum values (finding R4)"""
    from py_gql.lang import ast as A

    def go(n):
        if isinstance(n, list):
            for x in n:
                go(x)
        elif isinstance(n, A.Node):
            if type(n).__name__ in MEMBER_KINDS:
                n.description = None
            for a in n.__slots__:
                if a not in ("source", "loc"):
                    go(getattr(n, a))
    c = node.deepcopy()
    go(c)
    return c


def tree_diff(a, b, path="", last=""):
    """first difference of two to_dict() trees: '<Kind>.<attr>:<how>'"""
    if type(a) != type(b):
        return last + ":type"
    if isinstance(a, dict):
        if a.get("__kind__") != b.get("__kind__"):
            return last + ":kind"
        for k in a:
            if k in ("loc", "source"):
                continue
            r = tree_diff(a[k], b.get(k), path, "%s.%s" % (a.get("__kind__", "?"), k))
            if r:
                return r
        return None
    if isinstance(a, list):
        if len(a) != len(b):
            return last + ":len"
        for x, y in zip(a, b):
            r = tree_diff(x, y, path, last)
            if r:
                return r
        return None
    return None if a == b else last + ":val"


def def_kinds(node):
    ds = getattr(node, "definitions", None)
    if ds is None:
        return type(node).__name__
    ks = []
    for d in ds:
        k = type(d).__name__
        if k not in ks:
            ks.append(k)
    return "+".join(sorted(ks)[:3])


def oracle(text, indent, entry="document", tree=None):
    """None if the property holds for (text, indent) on the real code (or the text is rejected), else (class, info)"""
    if tree is None:
        r = real_parse(text, entry)
        if r[0] != "ok":
            return None
        tree = r[1]
    t = tree
    p = real_print(t, indent)
    if p[0] != "ok":
        return ("print-raises:" + p[1], {})
    if real_print(t, indent) != p:
        return ("nondeterministic", {})
    r2 = real_parse(p[1], entry)
    if r2[0] != "ok":
        return ("reparse-" + r2[0], {"printed": p[1]})
    t2 = r2[1]
    if not (t2 == t):
        if t2 == strip_member_descriptions(t):
            d = tree_diff(t.to_dict(), t2.to_dict()) or "?"
            return ("member-description-dropped:" + d.split(".")[0], {"printed": p[1]})
        d = tree_diff(strip_member_descriptions(t).to_dict(), t2.to_dict()) or tree_diff(t.to_dict(), t2.to_dict()) or "?"
        return ("tree-differs:" + d, {"printed": p[1]})
    p2 = real_print(t2, indent)
    if p2 != p:
        return ("unstable", {"printed": p[1]})
    return None


# ---------------------------------------------------------------------------------------------
# shrinking (token level)

def toks_of(text):
    try:
        return gd.tokens_of_text(text)
    except Exception:  # noqa
        return None


def shrink_text(text, bad, budget=400):
    """ddmin over the token list (rendered with single spaces); `bad(text)` = still failing in the same way"""
    toks = toks_of(text)
    if toks is None:
        return text
    cur = toks
    if not bad(gd.render(cur)):
        return text
    n = 2
    steps = 0
    while len(cur) >= 2 and steps < budget:
        chunk = max(1, len(cur) // n)
        reduced = False
        for i in range(0, len(cur), chunk):
            cand = cur[:i] + cur[i + chunk:]
            steps += 1
            if cand and bad(gd.render(cand)):
                cur = cand
                n = max(n - 1, 2)
                reduced = True
                break
            if steps >= budget:
                break
        if not reduced:
            if chunk == 1:
                break
            n = min(len(cur), n * 2)
    # simplify string contents
    for i, t in enumerate(cur):
        if t[0] in ("String", "BlockString") and steps < budget:
            for repl in (['""', '"a"'] if t[0] == "String" else ['"""a"""']):
                cand = cur[:i] + [(t[0], repl)] + cur[i + 1:]
                steps += 1
                if bad(gd.render(cand)):
                    cur = cand
                    break
    return gd.render(cur)


_shrunk = {}
_corr_shrinks = [0]


def report_property(ctx, text, indent, entry, res):
    cls = res[0].split(":")[0]
    # the same failure class is shrunk at most 3 times per run; afterwards it is only counted
    seen = _shrunk.setdefault(res[0], [])
    total = sum(len(v) for v in _shrunk.values())
    if not seen and (total >= 25 or ctx.out_of_time()):
        ctx.fail(res[0] + ":unshrunk", "print o parse is not the identity on the real code: " + res[0],
                 {"part": PART, "text": L.cps(text), "indent": indent if isinstance(indent, int) else L.cps(indent), "entry": entry})
        return
    if len(seen) >= 2 or (seen and res[0].startswith("member-description-dropped")):
        ctx.fail(seen[0], "print o parse is not the identity on the real code: " + res[0], {})
        return

    exact = res[0].startswith("member-description-dropped")

    def bad(x):
        r = oracle(x, indent, entry)
        return r is not None and (r[0] == res[0] if exact else r[0].split(":")[0] == cls)
    small = shrink_text(text, bad)
    r = oracle(small, indent, entry) or res
    pr = real_parse(small, entry)
    kinds = def_kinds(pr[1]) if pr[0] == "ok" else "?"
    sig = r[0] if r[0].startswith(("member-description-dropped", "tree-differs")) else "%s:%s" % (r[0], kinds)
    if oracle(small, 2, entry) is None:
        sig += ":indent-specific"
    seen.append(sig)
    ctx.fail(sig, "print o parse is not the identity on the real code: " + r[0],
             {"part": PART, "text": L.cps(small), "indent": indent if isinstance(indent, int) else L.cps(indent), "entry": entry,
              "printed": L.cps(r[1].get("printed", "")) if r[1].get("printed") is not None else None})


# ---------------------------------------------------------------------------------------------
# model side

def indent_json(indent):
    return {"w": indent} if isinstance(indent, int) else {"s": L.cps(indent)}


def model_requests(cases):
    return [{"op": "print_parse", "text": L.cps(text), "indent": indent_json(indent), "desc": desc, "entry": entry,
             "ts": True, "fv": True} for text, indent, desc, entry in cases]


def check_corr(ctx, cases):
    """cases: (text, indent, include_descriptions, entry) -- all accepted by the real parser"""
    if not ctx.model_ok or not cases:
        return
    ans = ctx.driver.ask(model_requests(cases))
    for (text, indent, desc, entry), a in zip(cases, ans):
        t = real_parse(text, entry)
        if t[0] != "ok":
            continue
        p = real_print(t[1], indent, desc)
        impl = ("ok", L.cps(p[1])) if p[0] == "ok" else ("raises", None)
        model = ("ok", a.get("text")) if a.get("ok") else ("rejects", a.get("stage"))
        ctx.stat("corr")
        if impl != model:
            small = text
            _corr_shrinks[0] += 1
            if _corr_shrinks[0] > 40:
                ctx.fail("corr:print:unshrunk", "model printer and ASTPrinter differ (further cases, not shrunk)", {}, kind="correspondence")
                continue
            if len(text) < 4000 and _corr_shrinks[0] <= 4 and not ctx.out_of_time():
                def bad(x):
                    tt = real_parse(x, entry)
                    if tt[0] != "ok":
                        return False
                    pp = real_print(tt[1], indent, desc)
                    aa = ctx.driver.ask(model_requests([(x, indent, desc, entry)]))[0]
                    return (("ok", L.cps(pp[1])) if pp[0] == "ok" else ("raises", None)) != \
                        (("ok", aa.get("text")) if aa.get("ok") else ("rejects", aa.get("stage")))
                small = shrink_text(text, bad, budget=150)
            tt = real_parse(small, entry)
            pp = real_print(tt[1], indent, desc) if tt[0] == "ok" else ("?", "")
            aa = ctx.driver.ask(model_requests([(small, indent, desc, entry)]))[0]
            ctx.fail("corr:print:%s:%s" % (def_kinds(tt[1]) if tt[0] == "ok" else "?", "desc" if desc else "nodesc"),
                     "model printer and ASTPrinter differ",
                     {"part": PART, "text": L.cps(small), "indent": indent if isinstance(indent, int) else L.cps(indent),
                      "entry": entry, "desc": desc, "impl": L.cps(pp[1]) if pp[0] == "ok" else pp[1],
                      "model": aa.get("text") if aa.get("ok") else aa}, kind="correspondence")


# ---------------------------------------------------------------------------------------------
# generators

def quoted_lexeme(v):
    out = ['"']
    for c in v:
        o = ord(c)
        if c == '"':
            out.append('\\"')
        elif c == "\\":
            out.append("\\\\")
        elif c == "\n":
            out.append("\\n")
        elif o < 32 or c in "\r":
            out.append("\\u%04x" % o)
        else:
            out.append(c)
    return "".join(out) + '"'


def block_lexeme(raw, rng=None):
    raw = "".join(c for c in raw if c >= " " or c in "\t\n")
    esc = raw.replace('"""', '\\"""')
    if esc.endswith('"') or esc.endswith("\\"):
        esc += "\n" if (rng is None or rng.random() < 0.5) else " "
    return '"""' + esc + '"""'


BLOCK_CHARS = ["a", "b", " ", " ", "\t", "\n", "\n", '"', "\\", "\xe9", "\U0001F600", '"""', "  ", "#", ","]
BLOCK_EDGE = ["", "a", " a", "  a", "\ta", "a\\", " a\\", 'a"', ' a"', '"', '""', '"""', ' """', 'a\nb', 'a\n b', ' a\nb', '  a\n b',
              "a\n\nb", "a\n \nb", "a\n  b\n c", "\n a\n  b\n", "   a\n   b", " \n a", "a\n\t\n\tb", "a\n \t \nb", 'a\n"', "a\n\\", ' \\"""',
              "\U0001F600", "a\n   ", "  \n  \n a\n  \n"]


def rich_string(rng, kind):
    if kind == "String":
        if rng.random() < 0.5:
            v = rng.choice(S.EDGE_VALUES)
        else:
            v = "".join(rng.choice(list("ab \t\"\\\n/#,{}") + ["\xe9", "\U0001F600", "\x01", "\x7f", " ", "\ud800"])
                        for _ in range(rng.choice([0, 1, 2, 4, 8])))
        return ("String", quoted_lexeme(v))
    if rng.random() < 0.5:
        raw = rng.choice(BLOCK_EDGE)
    else:
        raw = "".join(rng.choice(BLOCK_CHARS) for _ in range(rng.choice([0, 1, 2, 4, 8, 14])))
    return ("BlockString", block_lexeme(raw, rng))


def enrich(rng, toks, p=0.6):
    out = []
    for t in toks:
        if t[0] in ("String", "BlockString") and rng.random() < p:
            out.append(rich_string(rng, rng.choice(["String", "BlockString"])))
        else:
            out.append(t)
    return out


def gen_doc_text(rng):
    mode = rng.choice(["exec", "ts", "mixed", "mixed"])
    toks = gd.gen_document(rng, size=rng.randint(1, 4), executable=mode != "ts", type_system=mode != "exec",
                           fragment_variables=rng.random() < 0.3, max_depth=rng.choice([1, 2, 3]))
    toks = enrich(rng, toks)
    return gd.render(toks, rng if rng.random() < 0.7 else None), mode


TEMPLATES = [
    "{ f(a: %s) }", "{ g { f(a: %s) } }", "{ g { g { f(a: %s) } } }", "{ g { g { g { f(a: %s) @d(x: %s) } } } }",
    "{ f @d(a: [%s, {k: %s}]) }", "query Q($v: S = %s @d(a: %s)) { a }", "query ($v: S = [%s]) @d(a: %s) { ... on T @e(a: %s) { a } ...F @g(a: %s) }",
    "fragment F($v: S = %s) on T @d(a: %s) { a }", "mutation @d(a: %s) { a }", "subscription S { a(b: {c: {d: %s}}) }",
    "%s scalar S @d(a: %s)", "%s type T implements I & J @d(a: %s) { %s f(%s a: S = %s @d(a: %s), b: I): T @d(a: %s) }",
    "type T { f(a: S = %s): T g(a: S): T }", "%s interface I { %s f: T @d(a: %s) }", "%s union U @d(a: %s) = | A | B",
    "%s enum E { %s A @d(a: %s) B }", "%s input I { %s a: S = %s @d(a: %s) b: [S!]! = [%s] }",
    "%s directive @d(%s a: S = %s, b: T) on FIELD | QUERY", "schema @d(a: %s) { query: Q }", "extend schema @d(a: %s)",
    "extend type T @d(a: %s) { f(a: S = %s): T }", "extend enum E { A @d(a: %s) }", "extend input I { a: S = %s }",
    "extend interface I { f(a: S = {k: [%s]}): T }", "extend scalar S @d(a: %s)", "extend union U @d(a: %s) = A",
    "%s type T { %s f(%s a: S = %s): T } %s enum E { %s A } { f(a: %s) }",
]


def gen_template_text(rng):
    tpl = rng.choice(TEMPLATES)
    n = tpl.count("%s")
    return tpl % tuple(rich_string(rng, rng.choice(["String", "BlockString", "BlockString"]))[1] for _ in range(n))


_fixture_cache = {}


def fixture_definitions():
    """[(fixture name, [definition source texts])]"""
    if "defs" in _fixture_cache:
        return _fixture_cache["defs"]
    from py_gql.lang import parse
    out = []
    for p in sorted((REPO / "tests" / "fixtures").glob("*.graphql")):
        text = p.read_text()
        if not text.strip():
            continue
        try:
            doc = parse(text, allow_type_system=True, experimental_fragment_variables=True)
        except Exception:  # noqa
            continue
        out.append((p.name, text, [text[d.loc[0]:d.loc[1]] for d in doc.definitions]))
    _fixture_cache["defs"] = out
    return out


def gen_fixture_text(rng):
    name, _text, defs = rng.choice(fixture_definitions())
    k = rng.randint(1, min(4, len(defs)))
    chosen = [rng.choice(defs) for _ in range(k)]
    text = "\n".join(chosen)
    if len(text) > 6000:
        text = min(chosen, key=len)
    if rng.random() < 0.6:
        toks = toks_of(text)
        if toks:
            for _ in range(rng.randint(1, 3)):
                i = rng.randrange(len(toks))
                op = rng.random()
                if toks[i][0] in ("String", "BlockString") or op < 0.2:
                    if toks[i][0] in ("String", "BlockString"):
                        toks[i] = rich_string(rng, rng.choice(["String", "BlockString"]))
                elif op < 0.5:
                    del toks[i]
                elif op < 0.7:
                    toks.insert(i, toks[i])
                else:
                    j = rng.randrange(len(toks))
                    toks[i], toks[j] = toks[j], toks[i]
                if not toks:
                    break
            if toks:
                text = gd.render(toks, rng if rng.random() < 0.5 else None)
    return text


def gen_value_text(rng):
    toks = enrich(rng, gd.gen_value(rng, const=rng.random() < 0.3, max_depth=rng.choice([1, 2, 3])), 0.7)
    return gd.render(toks, rng if rng.random() < 0.5 else None)


def corpus_texts():
    out = []
    for p in sorted((CORPUS / "C03").glob("print_*.json")):
        try:
            dd = json.loads(p.read_text())
        except Exception:  # noqa
            continue
        for x in dd.get("texts", []):
            if isinstance(x, dict):
                out.append((L.from_cps(x["text"]) if isinstance(x["text"], list) else x["text"], x.get("entry", "document")))
            else:
                out.append((L.from_cps(x) if isinstance(x, list) else x, "document"))
    return out


# ---------------------------------------------------------------------------------------------

def process(ctx, texts, all_indents=True):
    """texts: [(text, entry, source)]; the direct oracle for every indent + the correspondence"""
    rng = ctx.rng
    corr = []
    for text, entry, src in texts:
        if ctx.out_of_time():
            break
        r = real_parse(text, entry)
        ctx.count()
        if r[0] != "ok":
            ctx.stat("rejected:" + src)
            if r[0].startswith("internal"):
                ctx.stat("parser-" + r[0])
            continue
        ctx.stat("accepted:" + src)
        if entry == "document":
            for d in r[1].definitions:
                ctx.stat("def:" + type(d).__name__)
                vds = getattr(d, "variable_definitions", None) or []
                if vds and type(d).__name__ == "FragmentDefinition":
                    ctx.stat("pos:fragment-variable-definitions")
                if any(vd.directives for vd in vds):
                    ctx.stat("pos:variable-definition-directives:" + type(d).__name__)
        indents = INDENTS if all_indents else [2, rng.choice(INDENTS)]
        for ind in indents:
            res = oracle(text, ind, entry, tree=r[1])
            ctx.stat("oracle")
            if res is not None:
                report_property(ctx, text, ind, entry, res)
        p = real_print(r[1], 2)
        if p[0] == "ok" and p[1] != text:
            for ind in indents:
                ctx.nontrivial((text, repr(ind)))
        ci = [2, rng.choice(INDENTS)] if len(text) < 3000 else [2]
        for ind in ci:
            corr.append((text, ind, True, entry))
        if rng.random() < 0.25:
            corr.append((text, rng.choice(INDENTS), False, entry))
    check_corr(ctx, corr)


# ---------------------------------------------------------------------------------------------
# DEEP NESTING (hunt C03/1): one stream per recursive position of the grammar, depths 50 .. 1000.  The parser accepts
# more levels than the printer can print (the printer spends more Python frames per level): `print_ast` raises
# RecursionError on a parser-produced tree.  The boundary is measured on every run and recorded in the evidence
# (`deep_nesting`); where both sides succeed the round trip and the correspondence with the model are checked as usual.

DEEP_DEPTHS = (50, 100, 150, 200, 250, 300, 400, 1000)
# depths at which printing MUST work (about half of the smallest failing depth measured on /repo HEAD: selection sets and
# inline fragments fail from ~170 levels, object values ~200, list values ~250, list types ~300): a RecursionError there is
# NOT the known scale limit R7 but a regression, and gets its own signature (a VIOLATION, never a KNOWN-FINDING)
DEEP_MUST_WORK = 100
DEEP_POSITIONS = {
    "selection-set": ("document", lambda n: "{a" * n + "}" * n),
    "inline-fragment": ("document", lambda n: "{" + "...{" * n + "a" + "}" * n + "}"),
    "list-value": ("value", lambda n: "[" * n + "1" + "]" * n),
    "object-value": ("value", lambda n: "{a:" * n + "1" + "}" * n),
    "list-type": ("type", lambda n: "[" * n + "Int" + "]" * n),
    "argument-value": ("document", lambda n: "{a(x:" + "[{b:" * (n // 2) + "1" + "}]" * (n // 2) + ")}"),
    "variable-type": ("document", lambda n: "query($v:" + "[" * n + "Int" + "]" * n + "){a}"),
    "variable-default": ("document", lambda n: "query($v:Int=" + "[" * n + "1" + "]" * n + "){a}"),
    "fragment-definition": ("document", lambda n: "fragment F($v:Int=" + "[" * (n // 2) + "1" + "]" * (n // 2) + ") on T" + "{a" * (n // 2) + "}" * (n // 2)),
}


def tree_eq_iter(a, b):
    """structural equality of two trees without recursion (Node.__eq__ recurses)"""
    from py_gql.lang import ast as A
    stack = [(a, b)]
    while stack:
        x, y = stack.pop()
        if isinstance(x, A.Node):
            if type(x) is not type(y):
                return False
            for k in x.__slots__:
                if k not in ("source", "loc"):
                    stack.append((getattr(x, k), getattr(y, k)))
        elif isinstance(x, (list, tuple)):
            if not isinstance(y, (list, tuple)) or len(x) != len(y):
                return False
            stack.extend(zip(x, y))
        elif x != y:
            return False
    return True


def deep_case(text, entry):
    """'ok' | 'parse:<why>' | 'print:<Exc>' | 'reparse:<why>' | 'differs' for one deeply nested text (indent 2)"""
    r = real_parse(text, entry)
    if r[0] != "ok":
        return "parse:" + r[0].replace("internal:", "")
    p = real_print(r[1], 2)
    if p[0] != "ok":
        return "print:" + p[1]
    r2 = real_parse(p[1], entry)
    if r2[0] != "ok":
        return "reparse:" + r2[0].replace("internal:", "")
    return "ok" if tree_eq_iter(r[1], r2[1]) else "differs"


def run_deep(ctx):
    table = {}
    corr = []
    for pos, (entry, mk) in DEEP_POSITIONS.items():
        row = table.setdefault(pos, {})
        reported = set()
        for n in DEEP_DEPTHS:
            text = mk(n)
            out = deep_case(text, entry)
            row[str(n)] = out
            ctx.count()
            ctx.stat("deep:%s:%s" % (pos, out.split(":")[0]))
            detail = {"part": PART, "text": L.cps(text), "indent": 2, "entry": entry, "position": pos, "depth": n, "outcome": out}
            if out == "ok":
                ctx.nontrivial(("deep", pos, n))
                if n <= 100:
                    corr.append((text, 2, True, entry))
            elif out.startswith("parse:"):
                continue                      # not a parser-produced tree (C01: P1 for RecursionError)
            elif out in ("print:RecursionError", "reparse:RecursionError") and n <= DEEP_MUST_WORK:
                ctx.fail("%s:RecursionError:shallow-nesting:%s" % ("print-raises" if out.startswith("print") else "reparse-raises", pos),
                         "print_ast / the re-parse raises RecursionError on a parser-produced tree only %d levels deep "
                         "(the known scale limit R7 starts at ~170 levels)" % n, detail)
            elif out in ("print:RecursionError", "reparse:RecursionError"):
                sig = "%s:RecursionError:depth:%s" % ("raises" if out.startswith("print") else "reparse-raises", pos)
                if sig not in reported:
                    reported.add(sig)
                    ctx.fail(sig, "print_ast cannot print a tree the parser produced: the printer needs more Python frames per "
                             "nesting level than the parser (%s at depth %d)" % (out, n), detail)
            else:
                ctx.fail("deep:%s:%s" % (out, pos), "deeply nested document: print o parse is not the identity (%s)" % out, detail)
    ctx.extra["deep_nesting"] = table
    check_corr(ctx, corr)


# ---------------------------------------------------------------------------------------------
# HISTORIES: sequences of print calls in one process (public `py_gql.lang.print_ast` and the class `ASTPrinter`) with
# varying (indent, include_descriptions) on several documents.  Every output must be what the SAME call gives in
# isolation (a freshly constructed ASTPrinter; the Lean model), and -- with descriptions on -- must re-parse to the tree.

HISTORY_DOCS = [
    '"""T desc""" type T { f: Int }  "d" directive @x(a: Int = 1) on FIELD | QUERY',
    '"s" scalar S  """\n multi\n  line\n""" enum E { A B }  """u""" union U = A | B',
    '{ a { b(x: """blk\n  more""", y: "q") } }  fragment F on T { c }',
    '""" lead""" input I { a: Int = 1 }  """i""" interface N { f(a: S = "x"): T }  extend type T @d',
    'query Q($v: Int = 1) @live { a }  "x" type A  query { s }',
    'schema { query: Q }  """d1""" type Q { a: Int }  extend schema @s',
    'query Q($v: Int = 1 @a @b(x: [1]), $w: [T!]! @c) { a }  fragment F($x: Int = 2 @d, $y: S @e(k: {a: 1})) on T @f { b }',
]


def fresh_printer_state():
    """re-execute py_gql.lang.printer (and the package re-export) so that module-level state starts empty"""
    import importlib
    import py_gql.lang.printer as P
    import py_gql.lang as Lg
    importlib.reload(P)
    importlib.reload(Lg)


def history_call(api, tree, indent, desc):
    """('ok', text) / ('raises', cls) of one call through the named API"""
    try:
        if api == "print_ast":
            import py_gql.lang as Lg
            return ("ok", Lg.print_ast(tree, indent=indent, include_descriptions=desc))
        if api == "print_ast_default":           # the defaults of the public entry point
            import py_gql.lang as Lg
            return ("ok", Lg.print_ast(tree))
        from py_gql.lang.printer import ASTPrinter
        return ("ok", ASTPrinter(indent=indent, include_descriptions=desc)(tree))
    except Exception as e:  # noqa
        return ("raises", type(e).__name__)


def run_history(docs, calls):
    """returns [(call, out, isolated, roundtrip_ok)] -- `isolated` = a fresh ASTPrinter with the call's own arguments"""
    trees = []
    for t in docs:
        r = real_parse(t)
        trees.append(r[1] if r[0] == "ok" else None)
    rows = []
    for api, di, indent, desc in calls:
        tree = trees[di]
        if tree is None:
            continue
        eff_indent, eff_desc = (2, True) if api == "print_ast_default" else (indent, desc)
        out = history_call(api, tree, indent, desc)
        iso = real_print(tree, eff_indent, eff_desc)
        rt = True
        if out[0] == "ok" and eff_desc:
            r2 = real_parse(out[1])
            rt = r2[0] == "ok" and (r2[1] == tree or r2[1] == strip_member_descriptions(tree))
        rows.append(((api, di, indent, desc), out, iso, rt, (eff_indent, eff_desc)))
    return rows


def history_failure(rows):
    """index and class of the first call whose output is not the isolated one / does not round-trip"""
    for i, (call, out, iso, rt, _eff) in enumerate(rows):
        if out[0] != "ok":
            return i, "raises:" + out[1]
        if not rt:
            return i, "roundtrip-lost"
        if out != iso:
            return i, "output-depends-on-earlier-calls"
    return None


def gen_history(rng, ndocs):
    calls = []
    for _ in range(rng.randint(3, 9)):
        api = rng.choice(["print_ast", "print_ast", "print_ast", "ASTPrinter", "print_ast_default"])
        indent = rng.choice([0, 1, 2, 2, 4, 4, 8]) if api != "ASTPrinter" or rng.random() < 0.6 else rng.choice(["\t", "  \t", " "])
        calls.append((api, rng.randrange(ndocs), indent, rng.random() < 0.6))
    return calls


def check_history(ctx, docs, calls, shrink=True):
    fresh_printer_state()
    rows = run_history(docs, calls)
    ctx.count(len(rows))
    ctx.stat("history")
    ctx.stat("history-calls", len(rows))
    bad = history_failure(rows)
    if bad is not None:
        cur = list(calls[: bad[0] + 1])
        if shrink:
            i = 0
            while i < len(cur) - 1:                      # drop earlier calls while the last one still fails
                cand = cur[:i] + cur[i + 1:]
                fresh_printer_state()
                b2 = history_failure(run_history(docs, cand))
                if b2 is not None and b2[0] == len(cand) - 1:
                    cur = cand
                else:
                    i += 1
            fresh_printer_state()
        rows2 = run_history(docs, cur) if shrink else rows
        b3 = history_failure(rows2) or bad
        api = cur[-1][0]
        ctx.fail("history:%s:%s" % (api, b3[1]),
                 "a print call gives another text / loses content depending on the calls made before it in the same process",
                 {"part": PART, "kind": "history", "docs": [L.cps(d) for d in docs],
                  "calls": [[a, di, ind if isinstance(ind, int) else L.cps(ind), de] for a, di, ind, de in cur]})
        fresh_printer_state()
        return
    # model: every call equals the pure Lean printer on the same arguments
    if ctx.model_ok:
        reqs, keep = [], []
        for (call, out, iso, rt, eff) in rows:
            reqs.append({"op": "print_parse", "text": L.cps(docs[call[1]]), "indent": indent_json(eff[0]), "desc": eff[1],
                         "entry": "document", "ts": True, "fv": True})
            keep.append((call, out))
        for (call, out), a in zip(keep, ctx.driver.ask(reqs)):
            ctx.stat("history-corr")
            if not a.get("ok") or out[0] != "ok" or L.cps(out[1]) != a.get("text"):
                ctx.fail("corr:history:%s" % call[0], "model printer and the call inside a history differ",
                         {"part": PART, "kind": "history", "docs": [L.cps(d) for d in docs],
                          "calls": [[c[0], c[1], c[2] if isinstance(c[2], int) else L.cps(c[2]), c[3]] for c, _o in keep]},
                         kind="correspondence")
                break


def run_histories(ctx):
    rng = ctx.rng
    docs = list(HISTORY_DOCS)
    # the adversarial orders first: descriptions OFF, then ON, same indent, through each API
    for api in ("print_ast", "ASTPrinter"):
        for ind in (2, 4):
            check_history(ctx, docs, [(api, 0, ind, False), (api, 0, ind, True), (api, 1, ind, True)])
            check_history(ctx, docs, [(api, 1, ind, True), (api, 1, ind, False), (api, 3, ind, True), ("print_ast_default", 0, 2, True)])
    check_history(ctx, docs, [("print_ast", 0, 2, False), ("print_ast_default", 0, 2, True)])
    check_history(ctx, docs, [("print_ast", 2, 0, True), ("print_ast", 2, 8, True), ("print_ast", 2, 0, True)])
    n = ctx.n(60, 600)
    for i in range(n):
        if ctx.out_of_time():
            break
        if i % 10 == 0:
            extra = []
            for _ in range(2):
                t, _m = gen_doc_text(rng)
                if real_parse(t)[0] == "ok" and len(t) < 1500:
                    extra.append(t)
            docs = list(HISTORY_DOCS) + extra
        check_history(ctx, docs, gen_history(rng, len(docs)))
    fresh_printer_state()


def run(ctx):
    rng = ctx.rng
    _shrunk.clear()
    _corr_shrinks[0] = 0
    t_end = ctx.time_left()
    run_histories(ctx)
    run_deep(ctx)
    process(ctx, [(t, e, "corpus") for t, e in corpus_texts()])
    # whole fixtures (one pass, all indents for the small ones)
    for name, text, defs in fixture_definitions():
        if ctx.out_of_time():
            break
        big = len(text) > 50000
        if big and ctx.tier == "quick":
            continue
        process(ctx, [(text, "document", "fixture")], all_indents=not big)
    rounds = ctx.n(30, 300)
    for i in range(rounds):
        if ctx.time_left() < 0.3 * t_end or ctx.out_of_time():
            ctx.notes.append("C03_print: stopped after %d/%d rounds (time)" % (i, rounds))
            break
        batch = []
        for _ in range(40):
            t, mode = gen_doc_text(rng)
            batch.append((t, "document", "gen-" + mode))
        for _ in range(40):
            batch.append((gen_template_text(rng), "document", "template"))
        for _ in range(15):
            batch.append((gen_fixture_text(rng), "document", "fixture-mutant"))
        for _ in range(15):
            batch.append((gen_value_text(rng), "value", "value"))
        for _ in range(5):
            batch.append((gd.render(gd.gen_type(rng)), "type", "type"))
        process(ctx, batch)
    ctx.sample({"text": "query @live { a }", "printed": real_print(real_parse("query @live { a }")[1], 2)[1]})
    run_indent_domain(ctx)


# the `indent` ARGUMENT outside the sampled settings (print_parse_every_indent_arg quantifies over every int and every
# string over {space, tab}): negative ints (printed like 0), odd and large widths, mixed strings.  Deterministic block
# (no rng), run LAST so that it does not move the random streams of the blocks above.
EXTRA_INDENTS = [-3, -1, 3, 5, 7, 16, 33, " ", " \t ", "\t\t", "\t  ", "  \t  \t"]
INDENT_PROBE_TEXTS = [
    ("query Q($v: [Int!] = [1, 2] @d) @live { a: b(x: {k: \"s\", l: [true, null]}) @skip(if: $v) { ...F ... on T { c } } }\n"
     "fragment F on T { d(t: \"\"\"\n  block\n    deeper\n  \"\"\") }", "document"),
    ('"""\ndescribed\n  type\n"""\ntype T implements I & J @d(a: 1) { "f" f(a: Int = 3 @x, "b" b: [S!]! = ["q"]): T @deprecated }\n'
     'extend schema @e { subscription: T }\nenum E { A B @d }\ninput In { a: In = {a: null} }\nunion U @d = | T | V\n'
     'directive @d("x" a: Int) on FIELD | QUERY', "document"),
    ('{ a(s: """  lead\n\n   more "\\""" quotes\\\n""") }', "document"),
]


def run_indent_domain(ctx):
    cases = []
    for text, entry in INDENT_PROBE_TEXTS:
        r = real_parse(text, entry)
        ctx.count()
        if r[0] != "ok":
            ctx.stat("indent-domain:probe-rejected")
            continue
        for ind in EXTRA_INDENTS:
            res = oracle(text, ind, entry, tree=r[1])
            ctx.stat("oracle")
            ctx.stat("indent-domain:%s" % ("int<0" if isinstance(ind, int) and ind < 0 else "int" if isinstance(ind, int) else "str"))
            if res is not None:
                report_property(ctx, text, ind, entry, res)
            ctx.nontrivial((text, repr(ind)))
            cases.append((text, ind, True, entry))
        # a negative width prints exactly like 0 (ASTPrinter.__init__: `indent * " "`)
        if real_print(r[1], -2) != real_print(r[1], 0):
            ctx.fail("indent-domain:negative-width-differs-from-zero", "a negative indent width does not print like 0",
                     {"part": PART, "text": L.cps(text), "indent": -2, "entry": entry}, kind="correspondence")
    check_corr(ctx, cases)


def replay(ctx, data):
    inp = data.get("input") or {}
    if inp.get("part") not in (None, PART):
        return True
    text = L.from_cps(inp.get("text", []))
    ind = inp.get("indent", 2)
    if isinstance(ind, list):
        ind = L.from_cps(ind)
    entry = inp.get("entry", "document")
    before = len(ctx.found)
    ctx.model_ok = ctx.driver.available()
    if inp.get("kind") == "history":
        docs = [L.from_cps(d) for d in inp.get("docs", [])]
        calls = [(a, di, i2 if isinstance(i2, int) else L.from_cps(i2), bool(de)) for a, di, i2, de in inp.get("calls", [])]
        check_history(ctx, docs, calls, shrink=False)
        return not [f for f in ctx.found[before:] if f["kind"] == "property"]
    res = oracle(text, ind, entry)
    if res is not None:
        report_property(ctx, text, ind, entry, res)
    if real_parse(text, entry)[0] == "ok":
        check_corr(ctx, [(text, ind, bool(inp.get("desc", True)), entry)])
    return not [f for f in ctx.found[before:] if f["kind"] == "property"]

# -*- coding: utf-8 -*-
"""
C07 — TREE stream: resolver calls anywhere in the response tree.

Schema: interface `TNode { g(x: T = d0): String  child: TNode  kids: [TNode] }` implemented by `TA` and `TB`, which give `g`
DIFFERENT argument sets, python names and defaults; `Query { root: TNode  roots: [TNode] }`. Every resolver (including
`child` / `kids` / `root`) records (response path, parent type, field, kwargs), in call order. What a resolver returns is a
fixed function `rule(parent type, field, depth)` that the Lean side receives as a table, so the model's `executeTree`
(PyGqlModel/CoerceExec.lean) predicts the complete event sequence: calls with their kwargs, field errors, request errors.

Direct oracle (the statement): every recorded call's kwargs conform to the definition ITS parent type gives the field; a
selection whose arguments must be rejected (null through a defaulted nullable variable at a non-null argument) never runs,
at whatever depth, while its siblings do; rejected variables: nothing runs.
"""
import json

from corr import C07_universe as U
from corr.C07_universe import N, L, NN, ty_str, ty_json, nullable

MAXD = 7


def rule(ty, field, depth):
    """what the resolver of `ty.field` returns when the response path has `depth` segments"""
    if field == "root":
        return {"obj": "TA"}
    if field == "roots":
        return {"objs": ["TA", None, "TB"]}
    if field == "child":
        if depth >= 5:
            return None
        return {"obj": "TB" if ty == "TA" else "TA"}
    if field == "kids":
        if depth >= 4:
            return {"objs": []}
        return {"objs": ["TB", "TA"]}
    if field == "g":
        return "raised" if (ty == "TB" and depth == 4) else "leaf"
    return None


class TreeWorld:
    def __init__(self, C07, reg, t, defaults):
        from py_gql.exc import ResolverError
        from py_gql.schema import Argument, Field, InterfaceType, ListType, ObjectType, Schema, String
        self.C07 = C07
        base = C07.World(reg, [[C07.arg("x", N("Int"))]])
        self.types = base.types
        self.base = base
        self.reg = reg
        self.calls = []
        d0, da, db = defaults
        self.specs = {
            "TNode": [C07.arg("x", t, d0)],
            "TA": [C07.arg("x", t, da, "xa"), C07.arg("a_extra", N("Int"), [5], "extra_a")],
            "TB": [C07.arg("b_extra", L(N("String")), None, "extra_b"), C07.arg("x", t, db, "xb")],
        }

        def mkargs(spec):
            out = []
            for a in spec:
                kw = {}
                if a["default"] is not None:
                    kw["default_value"] = a["default"][0]
                out.append(Argument(a["name"], base.ty_py(a["type"]), python_name=a["py"], **kw))
            return out

        def rec(tyname, field):
            def r(root, ctx, info, **kw):
                self.calls.append((list(info.path), tyname, field, kw))
                out = rule(tyname, field, len(info.path))
                if out == "raised":
                    raise ResolverError("nope")
                if out == "leaf":
                    return "s"
                if out is None:
                    return None
                if "obj" in out:
                    return {"__typename__": out["obj"]}
                return [None if x is None else {"__typename__": x} for x in out["objs"]]
            return r

        iface = InterfaceType("TNode", lambda: [Field("g", String, args=mkargs(self.specs["TNode"])), Field("child", iface), Field("kids", ListType(iface))])
        objs = []
        for name in ("TA", "TB"):
            objs.append(ObjectType(name, (lambda name=name: [
                Field("g", String, args=mkargs(self.specs[name]), resolver=rec(name, "g")),
                Field("child", iface, resolver=rec(name, "child")),
                Field("kids", ListType(iface), resolver=rec(name, "kids"))]), interfaces=[iface]))
        self.schema = Schema(query_type=ObjectType("Query", [Field("root", iface, resolver=rec("Query", "root")),
                                                               Field("roots", ListType(iface), resolver=rec("Query", "roots"))]), types=objs)
        self.schema.validate()

    def argtable(self):
        sw = self.C07.spec_wire
        out = [{"ty": "Query", "field": "root", "argdefs": []}, {"ty": "Query", "field": "roots", "argdefs": []}]
        for name in ("TA", "TB"):
            out += [{"ty": name, "field": "g", "argdefs": sw(self.specs[name])}, {"ty": name, "field": "child", "argdefs": []},
                    {"ty": name, "field": "kids", "argdefs": []}]
        return out

    def world_table(self):
        out = []
        for ty, fields in (("Query", ["root", "roots"]), ("TA", ["g", "child", "kids"]), ("TB", ["g", "child", "kids"])):
            for f in fields:
                for d in range(1, MAXD + 3):
                    r = rule(ty, f, d)
                    out.append({"ty": ty, "field": f, "depth": d, "r": "null" if r is None else r})
        return out


def gen_tree(rng, reg, t, spec_i, state, depth):
    """random sub-selection forest under a TNode position: [(sel wire, text)]"""
    sels = []
    n = rng.randint(1, 3)
    for _ in range(n):
        kind = rng.choice(["g", "g", "child", "kids"]) if depth < 3 else "g"
        key = "k%d" % state["n"]
        state["n"] += 1
        if kind == "g":
            args, atext = gen_g_args(rng, reg, t, spec_i, state, key)
            sels.append(({"key": key, "field": "g", "args": [[n_, U.lit_wire(l)] for n_, l in args], "sub": []},
                         "%s: g%s" % (key, atext)))
        else:
            sub = gen_tree(rng, reg, t, spec_i, state, depth + 1)
            sels.append(({"key": key, "field": kind, "args": [], "sub": [s for s, _ in sub]},
                         "%s: %s { %s }" % (key, kind, " ".join(tx for _, tx in sub))))
    return sels


def gen_g_args(rng, reg, t, spec_i, state, key):
    a = spec_i[0]
    good = [j for j in U.values_for(reg, t, rng, 2, False, 6) if j is not None and U.must_accept(reg, t, j) and not U.has_boundary(j)]
    mode = rng.choice(["lit", "var", "var-null", "var-absent", "omit", "lit-null"])
    if not good and mode in ("lit", "var", "var-null"):
        mode = "omit"
    if (mode in ("omit", "var-absent")) and t[0] == "nonNull" and a["default"] is None:
        mode = "lit" if good else "skip"
    if mode == "lit-null" and t[0] == "nonNull":
        mode = "lit" if good else "skip"
    vn = "v%d" % len(state["vardefs"])
    if mode == "skip":
        return [], ""
    if mode == "lit":
        args = [("x", U.ast_of_json(reg, t, rng.choice(good)))]
    elif mode == "lit-null":
        args = [("x", ("null",))]
    elif mode == "var":
        state["vardefs"].append((vn, t, None)); state["variables"].append((vn, rng.choice(good))); args = [("x", ("var", vn))]
    elif mode == "var-null":
        state["vardefs"].append((vn, nullable(t), U.ast_of_json(reg, t, rng.choice(good)))); state["variables"].append((vn, None))
        args = [("x", ("var", vn))]
        if t[0] == "nonNull":
            state["expect_reject"].append(key)
    elif mode == "var-absent":
        state["vardefs"].append((vn, nullable(t), None)); args = [("x", ("var", vn))]
    else:
        args = []
    return args, ("(" + ", ".join("%s: %s" % (n_, U.render_lit(l)) for n_, l in args) + ")") if args else ""


def run(ctx, C07):
    from py_gql import graphql_blocking
    from py_gql.exc import ValidationError
    rng = ctx.rng
    quick = ctx.tier == "quick"
    reg = U.fixed_registry()
    names = [x["name"] for x in reg["types"]]
    cands = U.all_types(names, 2)
    for wi in range(ctx.n(5, 16)):
        if ctx.time_left() < (8 if quick else 40):
            ctx.notes.append("tree: stopped at world %d (time)" % wi)
            break
        t = rng.choice(cands)
        defaults = []
        for _k in range(3):
            dv = U.default_for(reg, t, rng, 2)
            defaults.append(None if (dv is U._NO or U.conforms(reg, t, dv) is not None or rng.random() < 0.3) else [dv])
        try:
            tw = TreeWorld(C07, reg, t, defaults)
        except Exception as e:  # noqa
            ctx.stat("tree:schema-refused:%s" % type(e).__name__)
            continue
        items, metas = [], []
        for _q in range(ctx.n(8, 25)):
            state = {"n": 0, "vardefs": [], "variables": [], "expect_reject": []}
            roots = []
            for rf in rng.sample(["root", "roots"], rng.randint(1, 2)):
                key = "r%d" % state["n"]
                state["n"] += 1
                sub = gen_tree(rng, reg, t, tw.specs["TNode"], state, 1)
                roots.append(({"key": key, "field": rf, "args": [], "sub": [s for s, _ in sub]}, "%s: %s { %s }" % (key, rf, " ".join(tx for _, tx in sub))))
            head = ("query(" + ", ".join("$%s: %s%s" % (n_, ty_str(tt), "" if d is None else " = " + U.render_lit(d)) for n_, tt, d in state["vardefs"]) + ") ") \
                if state["vardefs"] else ""
            doc = head + "{ " + " ".join(tx for _, tx in roots) + " }"
            tw.calls[:] = []
            try:
                r = graphql_blocking(tw.schema, doc, variables=dict(state["variables"]))
                errs, crashed = list(r.errors or []), None
            except Exception as e:  # noqa
                errs, crashed = [], type(e).__name__
            calls = [[p, ty, f, U.pv_canon(U.pv_wire(kw))] for p, ty, f, kw in tw.calls]
            ctx.count()
            validation = any(isinstance(e, ValidationError) for e in errs)
            ctx.stat("tree:%s" % ("crash" if crashed else ("validation" if validation else "executed")))
            detail = {"check": "tree", "reg": U.reg_to_jsonable(reg), "type": ty_str(t), "defaults": [None if d is None else U.pv_wire(d[0]) for d in defaults],
                      "document": doc, "variables": json.dumps(dict(state["variables"])), "expect_reject": state["expect_reject"],
                      "calls": calls, "errors": [str(e)[:100] for e in errs]}
            fails = oracle(C07, tw, reg, calls, state["expect_reject"])
            for sig, what in fails:
                ctx.fail(sig, what, detail)
            if crashed or validation:
                continue
            ctx.nontrivial(("tree", ty_str(t), doc, repr(state["variables"])))
            ctx.stat("tree:depth-of-deepest-call:%d" % max([len(c[0]) for c in calls] + [0]))
            items.append({"op": "tree", "depthFuel": 32, "root": "Query", "argtable": tw.argtable(), "world": tw.world_table(),
                          "vardefs": [{"name": n_, "type": ty_json(tt), "default": None if d is None else U.lit_wire(d)} for n_, tt, d in state["vardefs"]],
                          "variables": [[k_, U.jv_wire(v)] for k_, v in state["variables"]], "sels": [s for s, _ in roots]})
            metas.append((calls, errs, detail))
        if ctx.model_ok and items:
            for it, ans, (calls, errs, detail) in zip(items, C07.ask_model(ctx, reg, items), metas):
                evs = ans.get("events", [])
                mcalls = [[e["call"], e["ty"], e["field"], U.pv_from_model(e["kw"])] for e in evs if isinstance(e, dict) and "call" in e]
                mferr = sorted(json.dumps(e["fieldError"]) for e in evs if isinstance(e, dict) and "fieldError" in e)
                iferr = sorted(json.dumps(list(getattr(e, "path", None) or [])) for e in errs if getattr(e, "path", None))
                if "requestError" in evs:
                    ok = not calls and bool(errs)
                else:
                    ok = mcalls == calls and mferr == iferr and "crash" not in evs
                if not ok:
                    k = next((i for i, (a, b) in enumerate(zip(mcalls, calls)) if a != b), min(len(mcalls), len(calls)))
                    ctx.fail("corr:tree:%s" % ("calls-differ" if mcalls != calls else "field-errors-differ"),
                             "whole-tree trace: model and implementation differ",
                             dict(detail, first_difference=k, model_calls=mcalls[k:k + 2], impl_calls=calls[k:k + 2], model_field_errors=mferr, impl_field_errors=iferr),
                             kind="correspondence")


def oracle(C07, tw, reg, calls, expect_reject):
    out = []
    for p, ty, f, kw in calls:
        if f != "g":
            continue
        r = C07.check_kwargs(reg, tw.specs[ty], kw)
        if r:
            out.append(("nonconforming-argument:%s:tree" % r, "a resolver at depth %d received arguments that do not conform to its own type's definition (%s)" % (len(p), r)))
        if p and p[-1] in expect_reject:
            out.append(("resolver-ran-on-rejected-arguments:nested", "a nested resolver ran although its arguments must be rejected"))
    return out


def replay(ctx, C07, inp):
    from py_gql import graphql_blocking
    reg = U.reg_from_jsonable(inp["reg"])
    t = C07.parse_ty(inp["type"])
    defaults = [None if d is None else [C07.dict_from_wire(d)] for d in inp["defaults"]]
    tw = TreeWorld(C07, reg, t, defaults)
    tw.calls[:] = []
    try:
        graphql_blocking(tw.schema, inp["document"], variables=json.loads(inp["variables"]))
    except Exception:  # noqa
        pass
    calls = [[p, ty, f, U.pv_canon(U.pv_wire(kw))] for p, ty, f, kw in tw.calls]
    return not oracle(C07, tw, reg, calls, inp.get("expect_reject", []))

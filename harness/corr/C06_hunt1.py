# -*- coding: utf-8 -*-
"""
C06 - named probe for two outside reports on the UNCHANGED tree (/tmp/hunt-out/1/C06-1, C06-2): literals at CUSTOM SCALAR
positions of a schema built with the Python API (scalars with their own `parse_literal`, a scalar with `parse` only).
Deterministic: one fixed schema, fixed one-field documents `{ f(<arg>: <literal>) }`, no randomness, < 0.2 s.

Oracle ("Values of Correct Type", 5.6.1: a literal must be compatible with the type expected at its position as per the
coercion rules of that type; for a custom scalar these rules are the library's own literal coercion of that scalar):
the document - which trivially satisfies the 25 other rules - is valid IFF `py_gql.utilities.value_from_ast(literal, type)`
(what execution applies to the literal; its documented rule: scalars with their own parse_literal take every kind of literal,
the specified scalars and scalars relying on `parse` only take Int / Float / String / Boolean literals) accepts the literal.
A case is only asked when executing the un-validated document agrees with that (argument coercion error on the field iff
the literal is rejected); otherwise only a stat is recorded. validate_ast must then report no error / at least one error.

NOT asked (recorded reading, see C06.ASSUMPTIONS): a VARIABLE inside a list literal at a custom scalar
(`query ($v: Int) { j(x: [$v]) }` is rejected by VariablesInAllowedPosition: the items of a list literal at a non-list
position keep the position's type, as in graphql-js).
"""
import json

CASES = [
    # (label, argument, literal, signature feature)
    ("string-at-parse-only-scalar", "s", '"foo"', None),                          # control: valid
    ("list-of-two-at-IntPair", "p", "[1, 2]", "list-literal-at-custom-scalar:items-checked-alone"),
    ("empty-list-at-IntPair", "p", "[]", "list-literal-for-non-list:custom-scalar-rejects-whole-literal"),
    ("list-of-three-at-IntPair", "p", "[1, 2, 3]", "list-literal-for-non-list:custom-scalar-rejects-whole-literal:3"),
    ("object-at-IntPair", "p", "{a: 1}", "object-literal-at-custom-scalar"),    # control: whole literal is checked
    ("list-at-any", "j", '[123, "abc"]', "list-literal-at-custom-scalar:accept-all"),   # pinned by the repo's tests
    ("enum-at-parse-only-scalar", "s", "FOO", "enum-literal-at-scalar-without-parse-literal"),
    ("enum-at-regex-scalar", "r", "FOO", "enum-literal-at-scalar-with-parse-literal"),   # control
    ("enum-at-String", "b", "FOO", "enum-literal-at-String"),                            # control
]


def make_schema():
    from py_gql.lang import ast
    from py_gql.schema import Argument, Field, ObjectType, RegexType, ScalarType, Schema, String

    def parse_pair_literal(node, variables=None):
        if (not isinstance(node, ast.ListValue) or len(node.values) != 2
                or not all(isinstance(v, ast.IntValue) for v in node.values)):
            raise ValueError("IntPair must be a list of two integers")
        return tuple(int(v.value) for v in node.values)

    def parse_pair(value):
        if not isinstance(value, (list, tuple)) or len(value) != 2 or not all(type(v) is int for v in value):
            raise ValueError("IntPair must be a list of two integers")
        return tuple(value)

    def parse_s2(value):
        if not isinstance(value, str):
            raise ValueError("S2 expects a string, got %r" % (value,))
        return value.upper()

    int_pair = ScalarType("IntPair", serialize=list, parse=parse_pair, parse_literal=parse_pair_literal)
    s2 = ScalarType("S2", serialize=str, parse=parse_s2)
    rx = RegexType("Rx", r"^[a-zA-Z]+$")
    anything = ScalarType("Any", serialize=lambda v: v, parse=lambda v: v, parse_literal=lambda node, variables=None: True)
    schema = Schema(ObjectType("Query", [Field(
        "f", String,
        [Argument("p", int_pair), Argument("s", s2), Argument("r", rx), Argument("b", String), Argument("j", anything)],
        resolver=lambda root, ctx, info, **kw: "ok")]))
    schema.validate()
    return schema


def judge(schema, arg, literal):
    """-> (text, coercion accepts?, validate_ast outcome, rules reporting) or None when the case cannot be asked"""
    from py_gql.exc import InvalidValue
    from py_gql.execution import execute
    from py_gql.lang import parse
    from py_gql.utilities import value_from_ast
    from py_gql.validation import validate_ast
    text = "{ f(%s: %s) }" % (arg, literal)
    doc = parse(text)
    node = doc.definitions[0].selection_set.selections[0].arguments[0].value
    arg_type = schema.query_type.field_map["f"].argument_map[arg].type
    try:
        value_from_ast(node, arg_type)
        accepts = True
    except InvalidValue:
        accepts = False
    # cross-check with the execution of the un-validated document
    resp = execute(schema, parse(text)).response()
    exec_accepts = not resp.get("errors") and resp.get("data") == {"f": "ok"}
    exec_rejects = bool(resp.get("errors")) and all("invalid value" in e["message"] for e in resp["errors"])
    if (accepts and not exec_accepts) or (not accepts and not exec_rejects):
        return None
    try:
        errors = validate_ast(schema, parse(text)).errors
        outcome = "errors" if errors else "ok"
        messages = [str(e) for e in errors]
    except Exception as e:  # noqa
        outcome, messages = "raise:" + type(e).__name__, []
    return text, accepts, outcome, messages


def failures(only=None):
    """[(signature, what, detail)] over the fixed cases"""
    schema = make_schema()
    out, asked = [], 0
    for label, arg, literal, feature in CASES:
        if only is not None and label != only:
            continue
        j = judge(schema, arg, literal)
        if j is None:
            out.append((None, label, None))
            continue
        asked += 1
        text, accepts, outcome, messages = j
        detail = {"part": "hunt1", "kind": "custom-scalar-literal", "case": label, "text": text, "schema": "C06_hunt1.make_schema()",
                  "literal_coercion_accepts": accepts, "validate_ast": outcome, "messages": messages}
        if outcome.startswith("raise"):
            out.append(("validation-raises:%s:custom-scalar-literal:%s" % (outcome[6:], label),
                        "validate_ast raises on %s" % text, detail))
        elif accepts and outcome != "ok":
            out.append(("valid-rejected:ValuesOfCorrectTypeChecker:%s" % feature,
                        "`%s`: the scalar's literal coercion accepts the literal (the un-validated document executes without "
                        "error) but validation rejects it: %s" % (text, messages), detail))
        elif not accepts and outcome == "ok":
            out.append(("violation-missed:values_of_correct_type:%s" % feature,
                        "`%s`: the library's literal coercion of the position's scalar rejects the literal for every request "
                        "(argument coercion error on the field) but validation accepts the document" % text, detail))
    return asked, out


def run(ctx):
    try:
        asked, out = failures()
    except Exception as e:  # noqa
        ctx.stat("hunt1:harness-error:" + type(e).__name__)
        return
    ctx.count(asked)
    for sig, what, detail in out:
        if sig is None:
            ctx.stat("hunt1:custom-scalar-literal:not-asked:" + what)
            continue
        ctx.fail(sig, what, detail, kind="property")
    ctx.stat("hunt1:custom-scalar-literal:asked=%d:bad=%d" % (asked, sum(1 for s, _, _ in out if s)))
    for label, arg, literal, _ in CASES:
        ctx.nontrivial(("hunt1", label))


def replay(ctx, data):
    inp = data.get("input", data)
    _, out = failures(only=inp.get("case"))
    bad = [(s, w) for s, w, _ in out if s]
    for s, w in bad:
        print(s, "-", w[:300])
    return not bad

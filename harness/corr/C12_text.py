# -*- coding: utf-8 -*-
"""
C12 (text part) -- the second, total model of the schema printer (`SdlPrintT.printSchemaT`, the one the text-level
theorems `Props/C12_text.lean` are about) against the real `ASTSchemaPrinter`, on every printing call of the C12 streams
that uses `include_custom_schema_directives=False` and `include_introspection=False`:

  * real text == printSchemaT text (exact), and printSchemaT text == text of the first model `SdlPrint.printSchema`;
  * whenever the decidable predicate `printTextWF` holds (descriptions on): the model's own pipeline
    lexAll -> parseDocument(allow_type_system, no_location) on the printed text gives exactly the tree of the document
    the printer denotes (`docToAst (printedDoc s)`) -- the statement `print_schema_text_parses`, evaluated;
  * direct oracle on the real code for the same claim: the real parser accepts the real text;
  * how many printed schemas satisfy `printTextWF` (non-vacuity of the theorem on the stream) is recorded.
Called from corr/C12.py:run (one call).
"""
PART = "C12_text"


def run(ctx, histories, wire_schema):
    if not ctx.model_ok or not ctx.driver.available():
        return
    from py_gql.lang import parse
    reqs, meta = [], []
    seen = set()
    for schemas, hist, outs in histories:
        for (i, o), out in zip(hist, outs):
            if o["include_introspection"] or o["include_custom_schema_directives"] or out[0] != "ok":
                continue
            ind = (" " * o["indent"]) if isinstance(o["indent"], int) else o["indent"]
            key = (out[1], ind, o["include_descriptions"])
            if key in seen:
                continue
            seen.add(key)
            ws = wire_schema(schemas[i][2])
            reqs.append({"op": "printT", "schema": ws["schema"], "indent": ind, "descriptions": o["include_descriptions"]})
            meta.append((schemas[i][1], o, out[1]))
    if not reqs:
        return
    import time as _t
    _t0 = _t.time()
    answers = ctx.driver.ask(reqs)
    ctx.extra["textT_driver_seconds"] = round(_t.time() - _t0, 1)
    n_wf = n_desc = 0
    for (src, o, real), a in zip(meta, answers):
        ctx.count()
        ctx.stat("textT")
        detail = {"part": PART, "source": src, "opts": o, "real": real, "model": a.get("text")}
        if a.get("text") != real:
            ctx.fail("corr:printT:text", "the total model printSchemaT and the implementation print different texts", detail,
                     kind="correspondence")
            continue
        if not a.get("same"):
            ctx.fail("corr:printT:first-model", "the two models of the printer (printSchemaT / printSchema) differ", detail,
                     kind="correspondence")
        if o["include_descriptions"]:
            n_desc += 1
            if a.get("wf"):
                n_wf += 1
                ctx.nontrivial(("textT", real))
                if not a.get("parses"):
                    ctx.fail("corr:printT:textParses", "printTextWF holds but the model's lexer+parser do not return the denoted tree "
                             "(print_schema_text_parses evaluated)", detail, kind="correspondence")
                try:
                    parse(real, allow_type_system=True)
                except Exception as e:  # noqa
                    ctx.fail("text-unparsable:%s:printTextWF" % type(e).__name__,
                             "printTextWF holds but the real parser rejects the real printed text", detail)
    ctx.extra["printTextWF_satisfied"] = "%d of %d printed schemas (descriptions on, no custom directives)" % (n_wf, n_desc)

# -*- coding: utf-8 -*-
"""
C12 (text part) -- the second, total model of the schema printer (`SdlPrintT.printSchemaT`, the one the text-level
theorems `Props/C12_text.lean` are about) against the real `ASTSchemaPrinter`, on every printing call of the C12 streams
that uses `include_custom_schema_directives=False` and `include_introspection=False`:

  * real text == printSchemaT text (exact), and printSchemaT text == text of the first model `SdlPrint.printSchema`;
  * whenever the decidable predicate `printTextWF` holds (descriptions on): the model's own pipeline
    lexAll -> parseDocument(allow_type_system, no_location) on the printed text gives exactly the tree of the document
    the printer denotes (`docToAst (printedDoc s)`) -- the statement `print_schema_text_parses`, evaluated;
  * direct oracle on the real code for the same claim: the real parser accepts the real text;
  * how many printed schemas satisfy `printTextWF` (non-vacuity of the theorem on the stream) is recorded;
  * a fixed corpus of DESCRIPTION SHAPES (`shape_cases`): every layout decision of `print_description` / `print_arguments`
    (the 70-column one-line limit, wrapping at 120 - indent with and without spaces, several lines, first line led by white
    space, closing quote, triple quote inside, final backslash, tabs, blank lines, non-ASCII) at every position a description can
    have (type, field, argument, enum value, input field, directive, directive argument), three indentations.
Called from corr/C12.py:run (one call).
"""
PART = "C12_text"
PRE_QUOTA = 80   # `build` of the converted document is evaluated on the first PRE_QUOTA printed schemas (~30 ms each)

SHAPE_SDL = """
directive @tag(n: Int, m: String) on FIELD
type Query { a(x: Int = 3, y: String): Int  b: String }
enum Color { RED GREEN }
input Filter { color: Color = RED, limit: Int }
"""

BOUNDARY_SDL = """
type Query {
  f(a: Float = 2147483647.0, b: Float = 2147483648.0, c: Float = -2147483648.0, d: Float = -2147483649.0, e: Float = 2147483646.0,
    m: Float = -2147483647.0, g: Int = 2147483647, h: Int = -2147483648, i: Float = 1e21, j: Float = 1.5e-7, n: Float = 3, p: Float = 0.1,
    k: ID = 2147483648, q: [Float!] = [1, 2.5, 1e3]): Int
}
input In { x: Float = 2147483647.0, y: Int = 0, z: ID = 7 }
"""
# an ID numeral beyond 2^53: the printer's f (v + ".0") is NOT Python's repr(float(v)) -- outside CanonDoc, although build never reads f there
BOUNDARY_SDL_BIG_ID = """
type Query { f(l: ID = "9007199254740993", a: Float = 2.5): Int }
"""

SHAPES = [
    "short", "x" * 69, "x" * 70, "x" * 71, "word " * 13 + "w" * 4, "word " * 13 + "w" * 5,
    " ".join("word%d" % i for i in range(40)), "y" * 119, "y" * 130, "ab " * 60, "z" * 111 + " tail end", "z" * 112 + " tail end",
    "two\nlines", "  led by blanks", "  led\n  and more", "\tled by a tab\nnext", "line\n\n  indented\nlast", "a\n  b\n    c",
    'ends with quote"', 'has \"\"\" inside', 'has \"\"\" inside\nand a second line', "ends with backslash\\", "tab\there",
    'say "hi"', "literal \\n backslash-n", "caf\u00e9 \u65e5\u672c", "", " ", "trailing newline\n", "\nleading newline",
    "trailing blanks   ", "  both  ", "  x\n  y", "  Usage:\n    call it\n  twice", " first\n second", "\tx\n\ty", "  x\n\n  y",
    "  x\n  y\nz", "  x\n  ", "a\rb", "a\r\nb", "\rlead", "two\r\n  lines\r", "x" * 64 + '"', "multi\n" + "w" * 125 + "\nend", "q " * 58 + "q", "q " * 59 + "q",
]


def shape_slots(sch):
    q, c, f, d = sch.types["Query"], sch.types["Color"], sch.types["Filter"], sch.directives["tag"]
    return [q, q.fields[0], q.fields[0].arguments[0], q.fields[1], c, c.values[0], f, f.fields[0], d, d.arguments[1]]


def shape_class(d, indent):
    """the class of a description that print -> build does not give back"""
    lines = d.split("\n")
    rest = [l for l in lines[1:] if l.strip(" \t")]
    if "\r" in d:
        return "roundtrip-differs:desc-carriage-return"            # hunt3 C12/3 (fix D3)
    if lines[0][:1] in (" ", "\t") and rest and all(l[:1] in (" ", "\t") for l in rest):
        return "roundtrip-differs:desc-indented-block"             # hunt3 C12/1 (fix D1)
    if any(len(l) > 120 - 2 * len(indent) for l in lines):
        return "H12:description-rewrapped:text-shapes"
    return "roundtrip-differs:H5-text-shapes"


def shape_roundtrip(ctx, src, sch, o, ind, real):
    """direct oracle on the uniform shape schemas: the rebuilt schema has the same descriptions and prints the same text"""
    from py_gql import build_schema
    d = shape_slots(sch)[0].description
    detail = {"part": PART, "source": src, "description": d, "opts": o, "real": real}
    try:
        sch2 = build_schema(real)
    except Exception as e:  # noqa
        why = ("trailing-backslash:H5" if d.endswith("\\") and "\n" not in d else
               "control-character:H5" if any(ord(ch) < 32 and ch not in "\t\n\r" for ch in d) else type(e).__name__ + ":desc")
        ctx.fail("unparsable-output:%s-text-shapes" % why, "the printed text of a description shape is rejected (%s)" % type(e).__name__,
                 detail)
        return
    got = [n.description for n in shape_slots(sch2)]
    if any((g or "") != d for g in got):
        ctx.fail(shape_class(d, ind), "a description is not preserved by to_string + build_schema: %r -> %r" % (d, got[0]), detail)
    elif sch2.to_string(**o) != real:
        ctx.fail("not-a-fixpoint:desc-shapes", "descriptions preserved but the text is not a fixpoint", detail)
    else:
        ctx.nontrivial(("shape-roundtrip", d, ind))


def shape_cases():
    """(source label, Schema) -- `mixed:k` has shape (k + 3j) mod n at position j, `uniform:k` has shape k at every position"""
    from py_gql import build_schema
    n = len(SHAPES)
    for k in range(2 * n):
        sch = build_schema(SHAPE_SDL)
        q, c, f, d = sch.types["Query"], sch.types["Color"], sch.types["Filter"], sch.directives["tag"]
        for j, node in enumerate(shape_slots(sch)):
            node.description = SHAPES[(k + 3 * j) % n] if k < n else SHAPES[k - n]
        yield ("description-shapes:%s:%d" % ("mixed" if k < n else "uniform", k % n), sch)


CUSTOM_SDL = """
directive @tag(name: String, n: Int) on SCHEMA | SCALAR | OBJECT | FIELD_DEFINITION | ARGUMENT_DEFINITION | INTERFACE | UNION | ENUM | ENUM_VALUE | INPUT_OBJECT | INPUT_FIELD_DEFINITION
directive @other(xs: [Int], flag: Boolean, e: E, f: Float) on SCHEMA | SCALAR | OBJECT | FIELD_DEFINITION | ARGUMENT_DEFINITION | INTERFACE | UNION | ENUM | ENUM_VALUE | INPUT_OBJECT | INPUT_FIELD_DEFINITION
"a directive with a decorated argument"
directive @withArg(a: Int = 2 @tag(name: "dir-arg"), "described" b: String @other) on FIELD
schema @tag(name: "schema") @other { query: Query }
scalar S @tag(name: "scalar")
scalar Plain
type Query implements Node @tag(name: "obj") @other(xs: [1, 2], flag: true) {
  id: ID @deprecated @tag
  f(a: Int = 1 @tag(n: 2), "desc" b: String @other(xs: [], e: A, f: 1.5)): Int @deprecated(reason: "x") @tag(name: "f \\"q\\" \\\\ é")
  g(a: Int @tag, b: Int): S @other
  h: Plain @deprecated
}
interface Node @tag { id: ID @tag @other }
union U @tag(name: "u") = Query
enum E @tag { A @tag(name: "a") B @deprecated "described" C @other @deprecated(reason: "gone") }
input In @tag @other { x: Int = 3 @tag(n: 1), y: E = A @other, z: [Int] }
extend type Query @tag(name: "ext")
"""

CUSTOM_OPTS = [True, ["tag"], ["other"], ["nope"], ["deprecated", "tag"]]


def custom_req(ws, o, ind):
    c = o["include_custom_schema_directives"]
    return {"op": "printTA", "schema": ws["schema"], "apps": ws["apps"], "indent": ind, "descriptions": o["include_descriptions"],
            "custom": bool(c), "whitelist": list(c) if isinstance(c, (list, tuple)) else None}


def run_custom(ctx, histories, wire_schema):
    """The total model WITH applied schema directives (`SdlPrintTA.printSchemaTA`, theorem `print_schema_text_parses_custom`)
    against the real printer: every history call with a truthy `include_custom_schema_directives`, plus a fixed corpus
    (`CUSTOM_SDL`: an application at every site the printer visits, @deprecated next to custom directives, extension
    nodes) under `True`, three whitelists, a whitelist that keeps nothing, two indents, descriptions on/off."""
    from py_gql import build_schema
    from py_gql.lang import parse
    reqs, meta, seen = [], [], set()
    try:
        sch = build_schema(CUSTOM_SDL)
        ws = wire_schema(sch)
        for c in CUSTOM_OPTS:
            for indent in (4, "\t"):
                for wd in (True, False):
                    o = dict(indent=indent, include_descriptions=wd, include_introspection=False, include_custom_schema_directives=c)
                    ind = (" " * indent) if isinstance(indent, int) else indent
                    real = sch.to_string(**o)
                    reqs.append(custom_req(ws, o, ind))
                    meta.append(("custom-corpus:%s" % ("all" if c is True else "+".join(c)), o, real, True))
                    ctx.stat("textTA-corpus")
                    if wd:
                        # direct oracle: the applied directives survive print -> build -> print (same text)
                        try:
                            sch2 = build_schema(real)
                            again = sch2.to_string(**o)
                        except Exception as e:  # noqa
                            ctx.fail("rebuild-raises:%s:custom-corpus" % type(e).__name__, "build_schema rejects the printed corpus schema",
                                     {"part": PART, "opts": o, "real": real})
                            continue
                        label = "all" if c is True else "+".join(c)
                        spec = ("include", "skip", "deprecated")
                        want = {p: [a for a in apps if a["name"] not in spec and (c is True or a["name"] in c)] for p, apps in ws["apps"]}
                        got = {p: [a for a in apps if a["name"] not in spec] for p, apps in wire_schema(sch2)["apps"]}
                        want = {p: v for p, v in want.items() if v}
                        got = {p: v for p, v in got.items() if v}
                        if want != got:
                            bad = sorted(p for p in set(want) | set(got) if want.get(p) != got.get(p))
                            ctx.fail("roundtrip-differs:custom-corpus:applications:custom=%s" % label,
                                     "the printed directive applications are not the ones the rebuilt schema carries (first at %r)" % bad[0],
                                     {"part": PART, "opts": o, "real": real, "paths": bad})
                        elif again != real:
                            # a whitelist that filters every node of an element leaves ' ' behind: known finding C12/5
                            ctx.fail(("not-a-fixpoint:custom-corpus:custom=all" if c is True else "not-a-fixpoint:C12-5-custom-corpus"),
                                     "to_string(build(to_string(s))) differs with applied directives", {"part": PART, "opts": o, "real": real, "again": again})
                        else:
                            ctx.nontrivial(("custom-corpus-fixpoint", label, ind))
    except Exception as e:  # noqa
        ctx.fail("internal:custom-corpus:%s" % type(e).__name__, "the applied-directive corpus could not be built / printed",
                 {"part": PART, "error": repr(e)})
    for schemas, hist, outs in histories:
        for (i, o), out in zip(hist, outs):
            if o["include_introspection"] or not o["include_custom_schema_directives"] or out[0] != "ok":
                continue
            ind = (" " * o["indent"]) if isinstance(o["indent"], int) else o["indent"]
            c = o["include_custom_schema_directives"]
            key = (out[1], ind, o["include_descriptions"], repr(c))
            if key in seen:
                continue
            seen.add(key)
            ws = wire_schema(schemas[i][2])
            reqs.append(custom_req(ws, o, ind))
            meta.append((schemas[i][1], o, out[1], False))
    if not reqs:
        return
    answers = ctx.driver.ask(reqs)
    n_wf = n_desc = n_kept = n_block = 0
    for (src, o, real, corpus), a in zip(meta, answers):
        ctx.count()
        ctx.stat("textTA")
        detail = {"part": PART, "source": src, "opts": o, "real": real, "model": a.get("text")}
        if a.get("text") != real:
            ctx.fail("corr:printTA:text", "the total model printSchemaTA and the implementation print different texts", detail,
                     kind="correspondence")
            continue
        if not a.get("same"):
            ctx.fail("corr:printTA:first-model", "the two models of the printer (printSchemaTA / printSchema) differ", detail,
                     kind="correspondence")
        if a.get("buildErased") is False:
            ctx.fail("corr:printTA:buildIgnoresCustom", "the builder model gives different results for the denoted document and for the "
                     "document without its applied custom directives (BuildIgnoresCustomStatement evaluated)", detail, kind="correspondence")
        if o["include_descriptions"]:
            n_desc += 1
            if a.get("wf"):
                n_wf += 1
                n_kept += a.get("kept", 0) > 0
                n_block += bool(a.get("blockOnly"))
                if a.get("kept", 0) > 0:
                    ctx.nontrivial(("textTA", real))
                if not a.get("parses"):
                    ctx.fail("corr:printTA:textParses", "printTextWFA holds but the model's lexer+parser do not return the denoted tree "
                             "(print_schema_text_parses_custom evaluated)", detail, kind="correspondence")
                try:
                    parse(real, allow_type_system=True)
                except Exception as e:  # noqa
                    ctx.fail("text-unparsable:%s:printTextWFA" % type(e).__name__,
                             "printTextWFA holds but the real parser rejects the real printed text", detail)
    ctx.extra["printTextWFA_satisfied"] = ("%d of %d printed schemas (descriptions on, custom directives on); %d of them print at least one "
                                           "application, %d write the schema block only because of a directive node" % (n_wf, n_desc, n_kept, n_block))


def numeral_reprs(real):
    """[[v, repr(float(v))]] for every Int / Float literal of the real printed text (the `rho` of `SdlText.astToDoc`:
    what the AST -> wire conversion computes for `Lit.int v f` / `Lit.float v f`)"""
    from py_gql.lang import parse, ast as _ast
    out, seen, todo = [], set(), []
    try:
        todo = [parse(real, allow_type_system=True)]
    except Exception:  # noqa
        return out
    while todo:
        n = todo.pop()
        if isinstance(n, (list, tuple)):
            todo.extend(n)
        elif isinstance(n, _ast.Node):
            if isinstance(n, (_ast.IntValue, _ast.FloatValue)) and n.value not in seen:
                seen.add(n.value)
                try:
                    out.append([n.value, repr(float(n.value))])
                except Exception:  # noqa
                    pass
            for k in getattr(type(n), "__slots__", ()):
                if k not in ("loc", "source"):
                    todo.append(getattr(n, k, None))
    return out


def run(ctx, histories, wire_schema):
    if not ctx.model_ok or not ctx.driver.available():
        return
    try:
        run_custom(ctx, histories, wire_schema)
    except Exception as e:  # noqa
        ctx.fail("internal:textTA:%s" % type(e).__name__, "the applied-directive text correspondence crashed", {"part": PART, "error": repr(e)})
    from py_gql.lang import parse
    reqs, meta = [], []
    seen = set()
    n_want = n_shape_req = 0
    for schemas, hist, outs in histories:
        for (i, o), out in zip(hist, outs):
            if o["include_introspection"] or o["include_custom_schema_directives"] or out[0] != "ok":
                continue
            ind = (" " * o["indent"]) if isinstance(o["indent"], int) else o["indent"]
            key = (out[1], ind, o["include_descriptions"])
            if key in seen:
                continue
            seen.add(key)
            ws = wire_schema(schemas[i][2])
            n_want += bool(o["include_descriptions"])
            reqs.append({"op": "printT", "schema": ws["schema"], "indent": ind, "descriptions": o["include_descriptions"],
                         "reprs": numeral_reprs(out[1]), "wantPre": bool(o["include_descriptions"]) and n_want <= PRE_QUOTA})
            meta.append((schemas[i][1], o, out[1]))
    try:
        for src, sch in shape_cases():
            ws = wire_schema(sch)
            for indent in (4, 2, "\t"):
                o = dict(indent=indent, include_descriptions=True, include_introspection=False, include_custom_schema_directives=False)
                ind = (" " * indent) if isinstance(indent, int) else indent
                real = sch.to_string(**o)
                n_shape_req += 1
                reqs.append({"op": "printT", "schema": ws["schema"], "indent": ind, "descriptions": True, "reprs": numeral_reprs(real),
                             "wantPre": n_shape_req % 24 == 1})
                meta.append((src, o, real))
                ctx.stat("textT-description-shapes")
                if ":uniform:" in src:
                    shape_roundtrip(ctx, src, sch, o, ind, real)
    except Exception as e:  # noqa
        ctx.fail("internal:shape-corpus:%s" % type(e).__name__, "the description-shape corpus could not be built / printed",
                 {"part": PART, "error": repr(e)})
    # NUMERAL BOUNDARIES (deterministic probe): Float defaults at the edges of the Int range (integral floats inside the OPEN
    # range print as Int literals), Int extremes, exponent forms, big ID numerals -- exact text against both models, and the
    # every-pre-image statement with Python's repr(float(v)) on each numeral
    try:
        from py_gql import build_schema
        for bsrc, bsdl, indent in (("numeral-boundaries", BOUNDARY_SDL, 4), ("numeral-boundaries", BOUNDARY_SDL, "\t"),
                                   ("numeral-boundaries:big-id", BOUNDARY_SDL_BIG_ID, 4)):
            bsch = build_schema(bsdl)
            ws = wire_schema(bsch)
            o = dict(indent=indent, include_descriptions=True, include_introspection=False, include_custom_schema_directives=False)
            ind = (" " * indent) if isinstance(indent, int) else indent
            real = bsch.to_string(**o)
            reqs.append({"op": "printT", "schema": ws["schema"], "indent": ind, "descriptions": True, "reprs": numeral_reprs(real), "wantPre": True})
            meta.append((bsrc, o, real))
            ctx.stat("textT-numeral-boundaries")
    except Exception as e:  # noqa
        ctx.fail("internal:numeral-boundaries:%s" % type(e).__name__, "the numeral-boundary probe could not be built / printed",
                 {"part": PART, "error": repr(e)})
    if not reqs:
        return
    import time as _t
    _t0 = _t.time()
    answers = ctx.driver.ask(reqs)
    ctx.extra["textT_driver_seconds"] = round(_t.time() - _t0, 1)
    n_wf = n_desc = n_shape = n_shape_wf = n_canon = n_pre = n_num = n_off = n_off_wf = 0
    for (src, o, real), a in zip(meta, answers):
        ctx.count()
        ctx.stat("textT")
        detail = {"part": PART, "source": src, "opts": o, "real": real, "model": a.get("text")}
        if a.get("text") != real:
            ctx.fail("corr:printT:text", "the total model printSchemaT and the implementation print different texts", detail,
                     kind="correspondence")
            continue
        if not a.get("same"):
            ctx.fail("corr:printT:first-model", "the two models of the printer (printSchemaT / printSchema) differ", detail,
                     kind="correspondence")
        if not o["include_descriptions"]:
            # `print_schema_text_parses_nodesc` evaluated: descriptions off = the description-free schema, descriptions on
            n_off += 1
            if a.get("wfStrip"):
                n_off_wf += 1
                ctx.nontrivial(("textT-nodesc", real))
                if not a.get("parsesStrip"):
                    ctx.fail("corr:printT:textParsesNoDesc", "printTextWF holds of the description-free schema but the model's lexer+parser "
                             "do not return the tree of its printed document for the text printed with descriptions off "
                             "(print_schema_text_parses_nodesc evaluated)", detail, kind="correspondence")
                try:
                    parse(real, allow_type_system=True)
                except Exception as e:  # noqa
                    ctx.fail("text-unparsable:%s:printTextWF-nodesc" % type(e).__name__,
                             "printTextWF holds of the description-free schema but the real parser rejects the text printed with "
                             "include_descriptions=False", detail)
        if o["include_descriptions"]:
            n_desc += 1
            shape = isinstance(src, str) and src.startswith("description-shapes")
            n_shape += shape
            if a.get("wf"):
                n_wf += 1
                n_shape_wf += shape
                ctx.nontrivial(("textT", real))
                if not a.get("parses"):
                    ctx.fail("corr:printT:textParses", "printTextWF holds but the model's lexer+parser do not return the denoted tree "
                             "(print_schema_text_parses evaluated)", detail, kind="correspondence")
                try:
                    parse(real, allow_type_system=True)
                except Exception as e:  # noqa
                    ctx.fail("text-unparsable:%s:printTextWF" % type(e).__name__,
                             "printTextWF holds but the real parser rejects the real printed text", detail)
                # `text_roundtrip_every_preimage` evaluated with Python's repr(float(.)): when the printer's `f` components are
                # what Python computes on the printed numerals (`canon`), the document the conversion makes of the PARSED tree
                # builds what the printer's own document builds
                if not a.get("preEvaluated"):
                    pass
                elif a.get("canon"):
                    n_canon += 1
                    if a.get("preimage"):
                        n_pre += 1
                        if any(ch.isdigit() for ch in real) and numeral_reprs(real):
                            n_num += 1
                    else:
                        ctx.fail("corr:printT:everyPreimage", "printTextWF and CanonDoc hold but the document converted from the parsed tree "
                                 "(astToDoc) does not build what the printed document builds (text_roundtrip_every_preimage evaluated)",
                                 detail, kind="correspondence")
                else:
                    # outside the theorem's hypothesis; recorded: the conclusion holds anyway when build does not read the differing f
                    ctx.stat("textT-printer-f-differs-from-python-repr:preimage-%s" % ("holds" if a.get("preimage") else "fails"))
                if src == "numeral-boundaries" and not a.get("canon"):
                    ctx.fail("corr:printT:canon:numeral-boundaries", "the printer model's f components differ from Python's repr(float(v)) on "
                             "the numeral-boundary probe", detail, kind="correspondence")
    ctx.extra["nodesc_evaluated"] = "%d of %d schemas printed with include_descriptions=False satisfy printTextWF once stripped" % (n_off_wf, n_off)
    ctx.extra["every_preimage_evaluated"] = ("%d of the printTextWF schemas it was evaluated on (of %d printTextWF schemas) have the printer's f = repr(float(v)) on every printed default "
                                             "(CanonDoc); astToDoc of the parsed tree builds the same schema in %d of them (%d with numerals)"
                                             % (n_canon, n_wf, n_pre, n_num))
    ctx.extra["printTextWF_satisfied"] = ("%d of %d printed schemas (descriptions on, no custom directives); of these %d of %d in "
                                          "the description-shape corpus" % (n_wf, n_desc, n_shape_wf, n_shape))

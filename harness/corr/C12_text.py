# -*- coding: utf-8 -*-
"""
C12 (text part) -- the second, total model of the schema printer (`SdlPrintT.printSchemaT`, the one the text-level
theorems `Props/C12_text.lean` are about) against the real `ASTSchemaPrinter`, on every printing call of the C12 streams
that uses `include_custom_schema_directives=False` and `include_introspection=False`:

  * real text == printSchemaT text (exact), and printSchemaT text == text of the first model `SdlPrint.printSchema`;
  * whenever the decidable predicate `printTextWF` holds (descriptions on): the model's own pipeline
    lexAll -> parseDocument(allow_type_system, no_location) on the printed text gives exactly the tree of the document
    the printer denotes (`docToAst (printedDoc s)`) -- the statement `print_schema_text_parses`, evaluated;
  * direct oracle on the real code for the same claim: the real parser accepts the real text;
  * how many printed schemas satisfy `printTextWF` (non-vacuity of the theorem on the stream) is recorded;
  * a fixed corpus of DESCRIPTION SHAPES (`shape_cases`): every layout decision of `print_description` / `print_arguments`
    (the 70-column one-line limit, wrapping at 120 - indent with and without spaces, several lines, first line led by white
    space, closing quote, triple quote inside, final backslash, tabs, blank lines, non-ASCII) at every position a description can
    have (type, field, argument, enum value, input field, directive, directive argument), three indentations.
Called from corr/C12.py:run (one call).
"""
PART = "C12_text"

SHAPE_SDL = """
directive @tag(n: Int, m: String) on FIELD
type Query { a(x: Int = 3, y: String): Int  b: String }
enum Color { RED GREEN }
input Filter { color: Color = RED, limit: Int }
"""

SHAPES = [
    "short", "x" * 69, "x" * 70, "x" * 71, "word " * 13 + "w" * 4, "word " * 13 + "w" * 5,
    " ".join("word%d" % i for i in range(40)), "y" * 119, "y" * 130, "ab " * 60, "z" * 111 + " tail end", "z" * 112 + " tail end",
    "two\nlines", "  led by blanks", "  led\n  and more", "\tled by a tab\nnext", "line\n\n  indented\nlast", "a\n  b\n    c",
    'ends with quote"', 'has \"\"\" inside', 'has \"\"\" inside\nand a second line', "ends with backslash\\", "tab\there",
    'say "hi"', "literal \\n backslash-n", "caf\u00e9 \u65e5\u672c", "", " ", "trailing newline\n", "\nleading newline",
    "trailing blanks   ", "  both  ", "x" * 64 + '"', "multi\n" + "w" * 125 + "\nend", "q " * 58 + "q", "q " * 59 + "q",
]


def shape_cases():
    """(source label, Schema) -- `mixed:k` has shape (k + 3j) mod n at position j, `uniform:k` has shape k at every position"""
    from py_gql import build_schema
    n = len(SHAPES)
    for k in range(2 * n):
        sch = build_schema(SHAPE_SDL)
        q, c, f, d = sch.types["Query"], sch.types["Color"], sch.types["Filter"], sch.directives["tag"]
        slots = [q, q.fields[0], q.fields[0].arguments[0], q.fields[1], c, c.values[0], f, f.fields[0], d, d.arguments[1]]
        for j, node in enumerate(slots):
            node.description = SHAPES[(k + 3 * j) % n] if k < n else SHAPES[k - n]
        yield ("description-shapes:%s:%d" % ("mixed" if k < n else "uniform", k % n), sch)


def run(ctx, histories, wire_schema):
    if not ctx.model_ok or not ctx.driver.available():
        return
    from py_gql.lang import parse
    reqs, meta = [], []
    seen = set()
    for schemas, hist, outs in histories:
        for (i, o), out in zip(hist, outs):
            if o["include_introspection"] or o["include_custom_schema_directives"] or out[0] != "ok":
                continue
            ind = (" " * o["indent"]) if isinstance(o["indent"], int) else o["indent"]
            key = (out[1], ind, o["include_descriptions"])
            if key in seen:
                continue
            seen.add(key)
            ws = wire_schema(schemas[i][2])
            reqs.append({"op": "printT", "schema": ws["schema"], "indent": ind, "descriptions": o["include_descriptions"]})
            meta.append((schemas[i][1], o, out[1]))
    try:
        for src, sch in shape_cases():
            ws = wire_schema(sch)
            for indent in (4, 2, "\t"):
                o = dict(indent=indent, include_descriptions=True, include_introspection=False, include_custom_schema_directives=False)
                ind = (" " * indent) if isinstance(indent, int) else indent
                reqs.append({"op": "printT", "schema": ws["schema"], "indent": ind, "descriptions": True})
                meta.append((src, o, sch.to_string(**o)))
                ctx.stat("textT-description-shapes")
    except Exception as e:  # noqa
        ctx.fail("internal:shape-corpus:%s" % type(e).__name__, "the description-shape corpus could not be built / printed",
                 {"part": PART, "error": repr(e)})
    if not reqs:
        return
    import time as _t
    _t0 = _t.time()
    answers = ctx.driver.ask(reqs)
    ctx.extra["textT_driver_seconds"] = round(_t.time() - _t0, 1)
    n_wf = n_desc = n_shape = n_shape_wf = 0
    for (src, o, real), a in zip(meta, answers):
        ctx.count()
        ctx.stat("textT")
        detail = {"part": PART, "source": src, "opts": o, "real": real, "model": a.get("text")}
        if a.get("text") != real:
            ctx.fail("corr:printT:text", "the total model printSchemaT and the implementation print different texts", detail,
                     kind="correspondence")
            continue
        if not a.get("same"):
            ctx.fail("corr:printT:first-model", "the two models of the printer (printSchemaT / printSchema) differ", detail,
                     kind="correspondence")
        if o["include_descriptions"]:
            n_desc += 1
            shape = isinstance(src, str) and src.startswith("description-shapes")
            n_shape += shape
            if a.get("wf"):
                n_wf += 1
                n_shape_wf += shape
                ctx.nontrivial(("textT", real))
                if not a.get("parses"):
                    ctx.fail("corr:printT:textParses", "printTextWF holds but the model's lexer+parser do not return the denoted tree "
                             "(print_schema_text_parses evaluated)", detail, kind="correspondence")
                try:
                    parse(real, allow_type_system=True)
                except Exception as e:  # noqa
                    ctx.fail("text-unparsable:%s:printTextWF" % type(e).__name__,
                             "printTextWF holds but the real parser rejects the real printed text", detail)
    ctx.extra["printTextWF_satisfied"] = ("%d of %d printed schemas (descriptions on, no custom directives); of these %d of %d in "
                                          "the description-shape corpus" % (n_wf, n_desc, n_shape_wf, n_shape))

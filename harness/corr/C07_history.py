# -*- coding: utf-8 -*-
"""
C07 — HISTORY stream: schemas are objects with a past.

A schema is USED (its input types coerce values, its fields resolve), then schemas are DERIVED from it
(`transform_schema` with a visibility transform hiding input fields / whole types, the camel-case transform,
the `fields` setter replacing an input type's field list, `clone`), possibly twice, and then the same
correspondence + direct oracles as everywhere else run on the DERIVED schema against ITS OWN declared input
types, read back from the live schema objects (`fields`, `arguments`, `values`): a field that the derived
schema hides is an unknown field there and must be rejected before any resolver runs, python names are the
derived schema's, and values that were fine for the source schema are part of the input stream. Afterwards the
SOURCE schema is checked again against its own declaration (a derivation must not leak backwards).
"""
from corr import C07_universe as U
from corr.C07_universe import N, L, NN


def snake_registry(reg):
    """the same registry with snake_case input field names (so that the camel-case transform renames them)"""
    out = {"types": []}
    for t in reg["types"]:
        if t["kind"] != "input":
            out["types"].append(t)
            continue
        fields = []
        for i, f in enumerate(t["fields"]):
            # declared defaults that are themselves input-object dicts go stale when a derived schema hides one of their
            # fields (then the derived schema violates the premise RegOK): keep leaf / list-of-leaf defaults only
            d = f["default"]
            if d is not None and _has_dict(d[0]):
                d = None
            fields.append(dict(f, name="%s_fld_%d" % (f["name"].lower(), i), default=d))
        out["types"].append(dict(t, fields=fields))
    # defaults are python values keyed by python names: unchanged
    return out


def _has_dict(v):
    if isinstance(v, dict):
        return True
    if isinstance(v, list):
        return any(_has_dict(x) for x in v)
    return False


def ty_of(t):
    from py_gql.schema import ListType, NonNullType
    if isinstance(t, ListType):
        return L(ty_of(t.type))
    if isinstance(t, NonNullType):
        return NN(ty_of(t.type))
    return N(t.name)


def reg_from_schema(schema):
    """registry description of the LIVE schema: what it declares now (never through `field_map`)"""
    from py_gql.schema import EnumType, InputObjectType, ScalarType
    from py_gql.schema.scalars import SPECIFIED_SCALAR_TYPES
    types = [{"name": n, "kind": k} for n, k in U.SCALARS.items()]
    for name, t in schema.types.items():
        if name.startswith("__"):
            continue
        if isinstance(t, ScalarType):
            if t not in SPECIFIED_SCALAR_TYPES:
                impl = {"Even": "even", "Tag": "tagged", "Pos": "pos"}.get(name, "identity")
                types.append({"name": name, "kind": "custom", "impl": impl})
        elif isinstance(t, EnumType):
            types.append({"name": name, "kind": "enum", "values": [[v.name, v.value] for v in t.values]})
        elif isinstance(t, InputObjectType):
            types.append({"name": name, "kind": "input", "fields": [
                {"name": f.name, "py": f.python_name, "type": ty_of(f.type),
                 "default": [f.default_value] if f.has_default_value else None} for f in t.fields]})
    return {"types": types}


def specs_from_schema(schema, n):
    out = []
    for i in range(n):
        fd = schema.query_type.field_map.get("f%d" % i)
        if fd is None:
            out.append(None)
            continue
        out.append([{"name": a.name, "py": a.python_name, "type": ty_of(a.type),
                     "default": [a.default_value] if a.has_default_value else None} for a in fd.arguments])
    return out


def make_plan(rng, schema, steps):
    """concrete, replayable derivation plan for `steps` (every random decision is written down)"""
    from py_gql.schema import EnumType, InputObjectType
    plan = []
    cur = schema
    for step in steps:
        inputs = [t for n, t in cur.types.items() if isinstance(t, InputObjectType)]
        if step == "hide-fields":
            hidden = []
            for t in inputs:
                names = [f.name for f in t.fields]
                hide = [n for n in names if rng.random() < 0.45]
                if len(hide) == len(names):
                    hide = hide[1:]
                hidden += [[t.name, n] for n in hide]
            st = {"op": step, "hidden": hidden}
        elif step == "hide-type":
            cands = sorted(n for n, t in cur.types.items() if isinstance(t, (EnumType, InputObjectType)))
            st = {"op": step, "type": rng.choice(cands)}
        elif step == "setter":
            t = rng.choice(sorted(inputs, key=lambda x: x.name))
            names = [f.name for f in t.fields]
            rng.shuffle(names)
            st = {"op": step, "type": t.name, "keep": names[: max(1, len(names) - rng.randint(0, 2))], "add": rng.random() < 0.6}
        elif step == "extend-enum":
            enums = sorted(n for n, t in cur.types.items() if isinstance(t, EnumType) and not n.startswith("__"))
            st = {"op": step, "type": rng.choice(enums)}
        elif step == "extend-input":
            st = {"op": step, "type": rng.choice(sorted(t.name for t in inputs))}
        elif step == "extend-unrelated":
            st = {"op": step, "n": len(plan)}
        else:
            st = {"op": step}
        plan.append(st)
        cur = apply_plan(cur, [st])
    return plan, cur


def apply_plan(schema, plan):
    from py_gql.schema import InputField, Int
    from py_gql.schema.transforms import CamelCaseSchemaTransform, VisibilitySchemaTransform, transform_schema
    cur = schema
    for st in plan:
        op = st["op"]
        if op == "hide-fields":
            hidden = {tuple(x) for x in st["hidden"]}

            class Hide(VisibilitySchemaTransform):
                def is_input_field_visible(self, typename, fieldname):
                    return (typename, fieldname) not in hidden
            cur = transform_schema(cur, Hide())
        elif op == "hide-type":
            gone = st["type"]

            class HideT(VisibilitySchemaTransform):
                def is_type_visible(self, name):
                    return name != gone
            cur = transform_schema(cur, HideT())
        elif op == "camel":
            cur = transform_schema(cur, CamelCaseSchemaTransform())
        elif op == "setter":
            cur = cur.clone()
            t = cur.types[st["type"]]
            by = {f.name: f for f in t.fields}
            keep = [by[n] for n in st["keep"]]
            if st["add"]:
                keep.append(InputField("added_field", Int, default_value=1, python_name="added_py"))
            t.fields = keep
            cur.validate()
        elif op == "clone":
            cur = cur.clone()
        elif op == "identity-visibility":
            cur = transform_schema(cur, VisibilitySchemaTransform())
        elif op == "extend-unrelated":
            from py_gql.sdl import extend_schema
            cur = extend_schema(cur, "type HistExtra%d { z: Int }" % st["n"])
        elif op == "extend-enum":
            from py_gql.sdl import extend_schema
            cur = extend_schema(cur, "extend enum %s { HIST_EXT }" % st["type"])
        elif op == "extend-input":
            from py_gql.sdl import extend_schema
            cur = extend_schema(cur, "extend input %s { hist_ext: Int = 3 }" % st["type"])
    return cur


def plan_label(plan):
    return "+".join(st["op"] for st in plan)


def use_world(world, reg):
    """the source schema has a past: every input type has coerced something, every field has resolved once"""
    for t in reg["types"]:
        if t["kind"] == "input":
            world.coerce_value(N(t["name"]), {})
            world.value_from_ast(N(t["name"]), ("obj", []), None)
    for i in range(len(world.specs)):
        world.pipeline({"field": i, "vardefs": [], "args": [], "variables": []})


def history_source(reg):
    """the source registry of a history: + an enum whose internal values are falsy / look like None (0, False, "", -1)
    one, and an input object that uses them and the non-identity custom scalars"""
    reg = {"types": list(reg["types"])}
    if U.reg_get(reg, "EZ") is None:
        reg["types"].append({"name": "EZ", "kind": "enum", "values": [["Z", 0], ["F", False], ["EMPTY", ""], ["NEG", -1]]})
        fields = [{"name": "ez_fld_0", "py": "ez_py", "type": N("EZ"), "default": [0]},
                  {"name": "ezs_fld_1", "py": "ezs", "type": L(NN(N("EZ"))), "default": None}]
        if U.reg_get(reg, "Even") is not None:
            fields += [{"name": "ev_fld_2", "py": "even_py", "type": N("Even"), "default": None},
                       {"name": "tg_fld_3", "py": "tg", "type": N("Tag"), "default": None}]
        reg["types"].append({"name": "HZ", "kind": "input", "fields": fields})
    return reg


def replay_world(C07, hist):
    """rebuild (source world with a past) -> derived world from a recorded history"""
    reg = U.reg_from_jsonable(hist["source_reg"])
    specs = [[dict(a, type=U.ty_from_json(a["type"]), default=None if a["default"] is None else [C07.dict_from_wire(a["default"]["v"])]) for a in sp]
             for sp in hist["source_specs"]]
    src = C07.World(reg, specs)
    use_world(src, reg)
    if not hist["plan"]:
        return src, reg, specs
    derived = apply_plan(src.schema, hist["plan"])
    dreg = reference_reg(reg, reg_from_schema(derived))
    dspecs = [sp if sp is not None else [] for sp in specs_from_schema(derived, len(specs))]
    return make_derived_world(C07.World, src, derived, dreg, dspecs), dreg, dspecs


def reference_reg(source_reg, dreg):
    """What the derived schema must behave like. None of the derivations changes an enum's internal values (an `extend enum`
    only ADDS names, whose internal value is the name): the reference keeps the SOURCE's internal value for every enum value
    name the source had — so a derivation that silently rewrites them (resolvers would receive 'RED' instead of 0) shows up as a
    non-conforming resolver argument, with the concrete request."""
    out = {"types": []}
    for t in dreg["types"]:
        if t["kind"] == "enum":
            src = U.reg_get(source_reg, t["name"])
            if src is not None and src["kind"] == "enum":
                old = {n: v for n, v in src["values"]}
                t = dict(t, values=[[n, old[n]] if n in old else [n, v] for n, v in t["values"]])
        out["types"].append(t)
    return out


def declaration_changes(source_reg, dreg):
    """elements that no derivation here is entitled to change: enum internal values; type / default of input fields (matched by
    their python name) -> list of short descriptions"""
    out = []
    for t in dreg["types"]:
        src = U.reg_get(source_reg, t["name"])
        if src is None or src["kind"] != t["kind"]:
            continue
        if t["kind"] == "enum":
            old = {n: v for n, v in src["values"]}
            for n, v in t["values"]:
                if n in old and (type(old[n]) is not type(v) or old[n] != v):
                    out.append("enum-internal-value:%s.%s:%r->%r" % (t["name"], n, old[n], v))
        if t["kind"] == "input":
            oldf = {f["py"]: f for f in src["fields"]}
            for f in t["fields"]:
                o = oldf.get(f["py"])
                if o is not None and (o["type"] != f["type"] or repr(o["default"]) != repr(f["default"])):
                    out.append("input-field:%s.%s" % (t["name"], f["name"]))
            # the CONFIGURED python name (the key resolvers see) of a field that the derivation kept or only renamed
            # (camel-case transform: GraphQL name snake -> camel, python name untouched)
            byname = {}
            for f in src["fields"]:
                byname.setdefault(f["name"], f)
                byname.setdefault(camel(f["name"]), f)
            for f in t["fields"]:
                o = byname.get(f["name"])
                if o is not None and o["py"] != f["py"]:
                    out.append("python-name:%s.%s:%r->%r" % (t["name"], f["name"], o["py"], f["py"]))
    return out


def camel(name):
    """snake_case -> camelCase, written out here (not imported from the code under test)"""
    parts = name.split("_")
    return parts[0] + "".join(x[:1].upper() + x[1:] for x in parts[1:])


def spec_changes(specs, dspecs_raw):
    """python names of the arguments of the fields a derivation kept (matched by position; none of the derivations here
    reorders, adds or removes arguments)"""
    out = []
    for i, (sp, dsp) in enumerate(zip(specs, dspecs_raw)):
        if dsp is None or len(sp) != len(dsp):
            continue
        for a, b in zip(sp, dsp):
            if b["name"] in (a["name"], camel(a["name"])) and a["py"] != b["py"]:
                out.append("arg-python-name:f%d.%s:%r->%r" % (i, b["name"], a["py"], b["py"]))
    return out


def premise_ok(reg, specs):
    for t in reg["types"]:
        if t["kind"] == "input":
            for f in t["fields"]:
                if f["default"] is not None and U.conforms(reg, f["type"], f["default"][0]) is not None:
                    return False
    for sp in specs:
        for a in sp or []:
            if U.reg_get(reg, U.ty_base(a["type"])) is None:
                return False
            if a["default"] is not None and U.conforms(reg, a["type"], a["default"][0]) is not None:
                return False
    return True


def make_derived_world(World, src, schema, reg, specs):
    class DerivedWorld(World):
        def __init__(self):  # noqa
            self.reg, self.specs, self.schema = reg, specs, schema
            self.seen, self.seen_calls, self.seen_typed = src.seen, src.seen_calls, src.seen_typed
            self.abstract = []
            self.types = dict(schema.types)
    return DerivedWorld()


def check_derived(ctx, C07, sid, world, reg, specs, types, in_names, plan, derived, rng, per_type, max_groups, all_args=False):
    """one derived schema: (2) what it declares for the elements the derivation was not entitled to change, (3) the whole
    correspondence + direct oracle against ITS OWN declaration, with the source's values in the stream"""
    label = plan_label(plan)
    ctx.stat("history:%s" % label)
    hist = {"source_reg": U.reg_to_jsonable(reg), "source_specs": [C07.spec_wire(sp) for sp in specs], "plan": plan}
    n_before = len(ctx.found)
    declared = reg_from_schema(derived)
    dspecs_raw = specs_from_schema(derived, len(specs))
    for ch in declaration_changes(reg, declared) + spec_changes(specs, dspecs_raw):
        ctx.fail("derivation-changed-declaration:%s" % ch.split(":")[0],
                 "a derived schema silently changed what an untouched element declares (%s)" % ch,
                 {"check": "declaration", "history": hist, "change": ch})
    dreg = reference_reg(reg, declared)
    if not premise_ok(dreg, dspecs_raw):
        # a declared default (a python value written for the SOURCE type) mentions a field the derived schema hides:
        # the derived schema violates RegOK/ArgsOK (defaults must conform), the statement's premise - not an input of this check
        ctx.stat("history:premise-fails(stale declared default):%s" % label)
    else:
        dspecs = [sp if sp is not None else [] for sp in dspecs_raw]
        dworld = make_derived_world(C07.World, world, derived, dreg, dspecs)
        dnames = [t["name"] for t in dreg["types"]]
        dtypes = [t for t in types if U.ty_base(t) in dnames]
        groups = []
        for si, sp in enumerate(dspecs):
            if dspecs_raw[si] is None:
                continue
            prim = [a for a in sp if a["name"] == "x"]
            if prim and (all_args or U.ty_base(prim[0]["type"]) in in_names or rng.random() < 0.3):
                groups += C07.groups_for_arg(dreg, si, prim[0], rng, per_type, 2, value_regs=(reg,))
        groups = C07.select_groups(groups, rng, max_groups)
        # (3) the derived schema is checked against ITS OWN declaration; values of the source schema are in the stream
        C07.run_world(ctx, dworld, dreg, "hist:%s:%s" % (sid, label), dtypes, dspecs, groups, per_type, 2, 0,
                      value_regs=(reg,), extras=False)
    for f in ctx.found[n_before:]:
        f["detail"]["history"] = hist
        f["signature"] = f["signature"] + ":after:" + label


def strip_defaults(reg):
    """the same registry without declared input-field defaults (so that no derivation can be refused by schema validation
    because of a default: a derivation that rewrites enum internal values must then show at the RESOLVER)"""
    return {"types": [dict(t, fields=[dict(f, default=None) for f in t["fields"]]) if t["kind"] == "input" else t for t in reg["types"]]}


DET_PLANS = [["extend-unrelated"], ["clone"], ["identity-visibility"], ["extend-unrelated", "clone"], ["camel"], ["camel", "extend-unrelated"],
             ["extend-enum"], ["extend-input"], ["hide-type"]]


def det_plan(schema, steps, k):
    """the derivation plan of DET_PLANS entry `steps` with every choice fixed (k-th candidate, sorted by name)"""
    from py_gql.schema import EnumType, InputObjectType
    plan = []
    for step in steps:
        st = {"op": step}
        if step == "extend-enum":
            enums = sorted(n for n, t in schema.types.items() if isinstance(t, EnumType) and not n.startswith("__"))
            st["type"] = enums[k % len(enums)]
        elif step == "extend-input":
            ins = sorted(n for n, t in schema.types.items() if isinstance(t, InputObjectType))
            st["type"] = ins[k % len(ins)]
        elif step == "hide-type":
            st["type"] = "Even"            # a custom scalar: enums and input objects all stay
        elif step == "extend-unrelated":
            st["n"] = len(plan)
        plan.append(st)
    return plan


def det_probe(ctx, C07):
    """DETERMINISTIC block (same in every run, own fixed PRNG): the fixed source WITHOUT declared defaults is built and used,
    then EVERY derivation kind of DET_PLANS is applied once with fixed choices, its declaration is compared (enum internal values,
    python names of input fields and arguments, types/defaults of kept fields) and a fixed set of requests is sent through it
    (every enum / input type as argument of a field with a recording resolver)."""
    import random
    rng = random.Random(20260924)
    reg = strip_defaults(history_source(snake_registry(U.fixed_registry())))
    names = [t["name"] for t in reg["types"]]
    in_names = [t["name"] for t in reg["types"] if t["kind"] == "input"]
    en_names = [n for n in names if U.reg_get(reg, n)["kind"] == "enum"]
    types = [N(n) for n in en_names] + [L(NN(N(n))) for n in en_names] + [N(n) for n in in_names]
    # no argument default mentions an enum value either (an Int default and a python-named second argument stay)
    specs = [[C07.arg("x", t)] for t in types]
    specs[0] = [C07.arg("x", types[0]), C07.arg("y", N("Int"), [9], "y_py")]
    specs[-1] = [C07.arg("y_arg", L(N("Int")), None, "y_py"), C07.arg("x", types[-1])]
    try:
        world = C07.World(reg, specs, [])
    except Exception as e:  # noqa
        ctx.fail("schema-build:%s" % type(e).__name__, "registry could not be built as a py_gql schema",
                 {"reg": U.reg_to_jsonable(reg), "error": str(e)[:300]}, kind="correspondence")
        return
    use_world(world, reg)
    for k, steps in enumerate(DET_PLANS):
        if ctx.time_left() < 10:
            ctx.notes.append("history: deterministic probe stopped before %s (time)" % "+".join(steps))
            break
        try:
            plan = det_plan(world.schema, steps, k)
            derived = apply_plan(world.schema, plan)
        except Exception as e:  # noqa
            # EVERY plan of DET_PLANS is accepted by the unchanged library on this fixed source (no declared default that a
            # derivation could invalidate): a refusal means the derivation produced something the library's own schema
            # validation rejects (rewritten enum internal values, lost python names, ...) - the requests of this probe can
            # no longer be served at all. Reported, not counted.
            sig = "derivation-refused:det:%s:%s" % ("+".join(steps), type(e).__name__)
            ctx.stat("history:" + sig)
            ctx.fail(sig, "the derivation %s of the fixed, valid source schema (accepted by the unchanged library) was refused: %s"
                     % ("+".join(steps), str(e)[:200]),
                     {"check": "derivation-refused", "steps": steps, "k": k, "error": str(e)[:300], "source_reg": U.reg_to_jsonable(reg)})
            continue
        check_derived(ctx, C07, "det-nodefaults", world, reg, specs, types, in_names, plan, derived, rng, 2, 40, all_args=True)


def replay_det_refused(C07, inp):
    """True = the fixed derivation `steps` of the deterministic probe is accepted (as on the unchanged tree)"""
    reg = strip_defaults(history_source(snake_registry(U.fixed_registry())))
    names = [t["name"] for t in reg["types"]]
    in_names = [t["name"] for t in reg["types"] if t["kind"] == "input"]
    en_names = [n for n in names if U.reg_get(reg, n)["kind"] == "enum"]
    types = [N(n) for n in en_names] + [L(NN(N(n))) for n in en_names] + [N(n) for n in in_names]
    specs = [[C07.arg("x", t)] for t in types]
    specs[0] = [C07.arg("x", types[0]), C07.arg("y", N("Int"), [9], "y_py")]
    specs[-1] = [C07.arg("y_arg", L(N("Int")), None, "y_py"), C07.arg("x", types[-1])]
    world = C07.World(reg, specs, [])
    use_world(world, reg)
    try:
        apply_plan(world.schema, det_plan(world.schema, inp["steps"], inp["k"]))
    except Exception:  # noqa
        return False
    return True



def run(ctx, C07):
    rng = ctx.rng
    quick = ctx.tier == "quick"
    sources = [("fixed-snake", history_source(snake_registry(U.fixed_registry())))]
    for i in range(ctx.n(1, 2)):
        sources.append(("rnd-snake%d" % i, history_source(snake_registry(U.gen_registry(rng)))))
    # neutral derivations (the same requests must hand the resolvers the same kwargs) first, then the ones that change the declaration
    neutral = [["extend-unrelated"], ["clone"], ["identity-visibility"], ["extend-unrelated", "clone"]]
    plans = [["hide-fields"], ["camel"], ["setter"], ["camel", "hide-fields"], ["hide-fields", "setter"], ["hide-type"], ["clone", "hide-fields"],
             ["hide-fields", "hide-fields"], ["extend-enum"], ["extend-input"], ["extend-unrelated", "hide-fields"], ["camel", "extend-unrelated"]]
    det_probe(ctx, C07)
    for sid, reg in sources:
        if ctx.time_left() < (12 if quick else 60):
            ctx.notes.append("history: stopped before %s (time)" % sid)
            break
        names = [t["name"] for t in reg["types"]]
        in_names = [t["name"] for t in reg["types"] if t["kind"] == "input"]
        types = [N(n) for n in in_names] + [NN(N(n)) for n in in_names] + [L(N(n)) for n in in_names[:3]] + [L(NN(N(in_names[0])))] \
            + [N(n) for n in names if U.reg_get(reg, n)["kind"] == "enum"]
        # (1) the source schema is built and USED: every input type coerces values, fields resolve
        res = C07.run_registry(ctx, reg, "hist:%s" % sid, types, per_type=4 if quick else 8, depth=2,
                               max_cases=120 if quick else 400, n_abstract=0, n_trace=0, leaf_defaults_only=True)
        if res is None:
            continue
        world, specs = res
        chosen = rng.sample(neutral, 2 if quick else 3) + rng.sample(plans, 2 if quick else 4)
        for steps in chosen:
            if ctx.out_of_time():
                break
            plan = derived = None
            for _try in range(5):
                try:
                    plan, derived = make_plan(rng, world.schema, steps)
                except Exception as e:  # noqa: a derivation that does not yield a valid schema is not a history
                    ctx.stat("history:derivation-refused:%s:%s" % ("+".join(steps), type(e).__name__))
                    plan = derived = None
                    continue
                if premise_ok(reg_from_schema(derived), specs_from_schema(derived, len(specs))):
                    break
            if derived is None:
                continue
            check_derived(ctx, C07, sid, world, reg, specs, types, in_names, plan, derived, rng,
                          4 if quick else 8, 150 if quick else 400)
        # (4) and the source again, against its own declaration
        groups = []
        for si, sp in enumerate(specs):
            prim = [a for a in sp if a["name"] == "x"]
            if prim and U.ty_base(prim[0]["type"]) in in_names:
                groups += C07.groups_for_arg(reg, si, prim[0], rng, 3, 2)
        n_before = len(ctx.found)
        C07.run_world(ctx, world, reg, "hist:%s:source-again" % sid, types[:len(in_names)], specs, C07.select_groups(groups, rng, 80 if quick else 300),
                      3, 2, 0, extras=False)
        for f in ctx.found[n_before:]:
            f["signature"] = f["signature"] + ":source-after-derivations"

# -*- coding: utf-8 -*-
"""
C17 — subscriptions map each source event to one isolated result, in order.

Real ``py_gql.execution.subscribe`` on a private asyncio loop.  The source stream is an
instrumented async iterator (or async generator) whose every ``__anext__`` waits on a gate the
harness opens, so delays between events are controlled and consumption is observable.

* DIRECT ORACLE (= the statement): exactly one result per event, in order; the stream ends
  when the source ends; the k-th result equals executing the selection with the k-th event as
  root on a FRESH executor (``graphql_blocking`` on a twin schema whose query type is the
  subscription type); the k-th error list only mentions event k; refusals raise the documented
  exception class before the subscription resolver's stream is consumed.
* CORRESPONDENCE: the Lean model (lean/PyGqlModel/Subscribe.lean) computes the refusal or the
  list of (data, error paths) from the abstract case.
Every wait has a hard timeout: the check cannot hang.
"""
import asyncio
import copy
import json

PROPERTY = "C17"
RULE = ("stream cases = random selection under the subscription field (depth<=2: leaf/object/list fields, sync and async field "
        "resolvers, interface- and union-typed payloads whose implementations Dog/Cat declare the same fields with different argument "
        "defaults, nested and in lists, the runtime type changing between events and inside one event) x source object flavour (async iterator, async generator, async ITERABLE with generator __aiter__, async iterable returning a "
        "separate iterator) x events whose processing raises an UNEXPECTED exception while a sibling field fails later, the consumer "
        "keeps reading x source events that are FALSY values (None, 0, "", {}, [], False) at every position x the resolver of a selected field "
        "re-registered on the schema (register_resolver(allow_override=True)) between events k and k+1 of the open subscription "
        "(k-th result compared with a fresh execution under the resolvers registered at that moment) x operation VARIABLES (declared defaults not sent, explicit null, enum and input-object variables, variables in "
        "@skip/@include of the event selection and in the subscription field's own argument; k-th result compared with the one-event "
        "execution under the same variables) x lazy | eager subscription resolver (takes the head of the backlog when called; refusals "
        "must leave the resolver uncalled and the source untouched, on every runtime class) x stream driven by `async for` | "
        "bare __anext__() pulls | __aiter__() calls interleaved mid-stream | aclose() where offered x event list of length 0..6 (per event: which paths raise ResolverError, which objects are null, list lengths; "
        "the root field itself may fail) x sync|async subscription resolver x iterator class|async generator source x "
        "per-event delays (loop spins before the gate opens) x inline|thread-offloaded blocking resolvers; refusal cases = every "
        "documented refusal x runtimes x (separate root types | ONE object type shared by subscription, query and mutation roots | by "
        "subscription and query roots) incl. `{…}` shorthand and a query picked by operation_name, several root fields spelled through fragment spreads / inline fragments / nested fragments / "
        "aliases / other fields, zero collected fields, operation-selection and variable-coercion failures; accepted single-field "
        "spellings as mergeable duplicates, split selections, fragments, skipped siblings; plus a bounded-exhaustive block over all failure patterns of 3 events x 2 failing fields. "
        "distinct non-trivial = distinct canonical case with >=2 events or a refusal")
ASSUMPTIONS = [
    "the source returned by a subscription resolver is an ASYNC iterable (SubscriptionRuntime.map_stream / AsyncMap are typed for async "
    "iterators); a synchronous iterable or generator as source (AttributeError after the resolver ran) is outside the statement's "
    "'source event stream' (hunt3 C17/4, recorded as known finding A1)",
    "`subscription { __typename }` VALIDATES on every schema (June 2018 rule 5.2.3.1 only counts the collected root fields; the 2021 "
    "edition forbids introspection fields at the subscription root, June 2018 does not) and is then REFUSED by subscribe() with the "
    "documented RuntimeError ('Subscription field __typename should provide a subscription resolver'), before anything is called or "
    "consumed: a refusal of a validated operation that no schema author can avoid; it is the statement's 'field without a subscription "
    "resolver' clause, not a violation (hunt2 C05/3; refusal kind meta-typename-field)",
    "a stream that never ends is reported only after CONFIRMATION: hang = no observable progress (pull, gate, result, resolver call) during N loop iterations of the private single-threaded loop (no wall-clock bound), or for thread-offloaded resolvers no progress for 15 s; the case is then re-run alone with 20x the iteration bound / 90 s without progress; a 300 s wall-clock bound only produces infrastructure notes",
    "the consumer follows the sequential AsyncMap protocol: it awaits one __anext__ at a time (overlapping processing of two events on the shared executor is outside the statement)",
    "the source stream is finite and its items are the events; field resolvers raise only ResolverError",
    "error lists are compared as multisets when field resolvers are asynchronous or thread-offloaded (their completion order is not part of the statement)",
]
TRUSTED = [
    "hand-written model Subscribe.lean of subscribe / create_source_event_stream / execute_subscription_event / AsyncMap (tied by this correspondence only)",
    "asyncio event loop semantics (modelled as a sequential pull protocol)",
]

# Hang detection is PROGRESS based, never "total time > T" (the machine may be heavily loaded):
#   * everything runs on one thread of a private loop: a hang = STALL_ITERS consecutive loop iterations in which nothing observable
#     changed (no pull, no gate, no result, no resolver call, task state) -- independent of wall-clock time and CPU load;
#   * with thread-offloaded resolvers progress depends on worker threads: a hang = no observable change for STALL_SECONDS;
#   * a first-pass hang verdict is only a SUSPICION: the case is re-run alone with bounds x CONFIRM_SCALE (>= 60 s for the
#     wall-clock part) and reported only if it stalls again (otherwise stat "slow-case-not-a-hang");
#   * INFRA_SECONDS only keeps the check from blocking forever: exceeding it is an infrastructure note, not a failure.
STALL_ITERS = 5000
STALL_SECONDS = 15.0
CONFIRM_SCALE = 20
CONFIRM_MIN_SECONDS = 90.0
INFRA_SECONDS = 300.0
REFUSALS = ["multi-field", "no-sub-resolver", "unknown-field", "query-op", "mutation-op", "blocking-runtime", "threadpool-runtime",
            "multi-expanded", "zero-fields", "opsel-unknown", "opsel-ambiguous", "vars", "shorthand-op", "named-query-op", "query-op-missing-var",
            "null-arg-var", "null-include-var", "null-skip-var",
            "meta-schema-field", "meta-type-field", "blocking-runtime-missing-var", "threadpool-runtime-missing-var",
            "mutation-op-unsupported", "meta-typename-field"]
EXPECTED_EXC = {
    "multi-field": "ExecutionError",
    "no-sub-resolver": "RuntimeError",
    "unknown-field": "RuntimeError",
    "query-op": "RuntimeError",
    "mutation-op": "RuntimeError",
    "blocking-runtime": "RuntimeError",
    "threadpool-runtime": "RuntimeError",
    "multi-expanded": "ExecutionError",       # several root fields reached through fragments / inline fragments / aliases
    "zero-fields": "ExecutionError",          # the only root field is skipped
    "opsel-unknown": "InvalidOperationError",
    "opsel-ambiguous": "InvalidOperationError",
    "vars": "VariablesCoercionError",
    "shorthand-op": "RuntimeError",           # `{ … }` is a query
    "named-query-op": "RuntimeError",         # a query picked by operation_name next to a subscription
    "query-op-missing-var": "RuntimeError",   # the operation kind is refused BEFORE its variables are looked at (documented: RuntimeError)
    # a defaulted nullable variable sent as null where a non-null value is needed: the document validates, the variables are accepted,
    # but no source can be created -> refused with the class subscribe uses to refuse a request, not a raw CoercionError / ResolverError
    "null-arg-var": "ExecutionError",         # subscription ($n: Int = 2) { root: evr(n: $n) {…} }   with {"n": null}, evr(n: Int! = 1)
    "null-include-var": "ExecutionError",     # subscription ($u: Boolean = true) { root: ev(n: 5) @include(if: $u) {…} }   with {"u": null}
    "null-skip-var": "ExecutionError",        # … @skip(if: $u) …
    "meta-schema-field": "RuntimeError",      # subscription { root: __schema {…} }: no such field on the subscription root
    "meta-type-field": "RuntimeError",        # subscription { root: __type(name: "Evt") {…} }
    "blocking-runtime-missing-var": "RuntimeError",    # the runtime is refused whatever the variables are
    "threadpool-runtime-missing-var": "RuntimeError",
    "meta-typename-field": "RuntimeError",    # subscription { __typename }: validates (June 2018), the meta field has no subscription resolver
    "mutation-op-unsupported": "RuntimeError",         # a mutation on a schema WITHOUT mutation type is still "not a subscription"
}
LEAF = ("a", "ad", "bad", "badd")
OBJ = ("o", "od")
LST = ("l",)
# abstract-typed payloads: `pet: Animal` (interface), `petu: Pet` (union, selected through `... on Animal`); Dog and Cat implement
# Animal and declare the SAME fields with DIFFERENT argument defaults: voice(loud: Boolean = true|false), vol(n: Int = 1|2)
APET = ("pet", "petu")
ALEAF = ("voice", "voicet", "vol")       # voicet = voice(loud: true)
AOBJ = ("pal",)
ALST = ("pals",)
SPECIES = ("Dog", "Cat")
DRIVES = ("async-for", "anext", "anext-aiter-mid", "aclose-mid")
# source events that are FALSY values (the stream must neither end nor skip on them); below such a root every leaf resolves to 0
FALSY_EVENTS = [None, 0, "", {}, [], False]
FALSY_EVENT = {"id": -1, "val": 0, "fail": [], "null": [], "len": {}, "species": {}}
SWAP_DELTA = 1000      # the re-registered resolver of Evt.a returns val + SWAP_DELTA


def is_event(ev):
    return isinstance(ev, dict) and "id" in ev


def has_animals(sel):
    return any(t["f"] in APET or has_animals(t["sel"]) for t in sel)
# operation VARIABLES (declared with defaults; the request sends a subset): name -> (type, default literal, default value, values a request may send)
VARS = {
    "n": ("Int", "5", 5, [6, 0]),                       # the subscription field's own argument: ev(n: $n)
    "flag": ("Boolean", "true", True, [False, True]),   # vi: a @include(if: $flag)
    "skip": ("Boolean", "false", False, [True, False]),  # vs: a @skip(if: $skip)
    "e": ("Mode", "LOUD", "LOUD", ["QUIET", "LOUD"]),   # enum coerced to its internal value: vm: mode(m: $e)
    "in": ("Opts", "{k: 2}", {"k": 2}, [{"k": 3, "d": 1}, {"k": 4}]),   # input object, its field d has a default: vo: opt(o: $in)
    "nul": ("Int", None, "<absent>", [None, 4]),        # nullable, no default: omitted / explicit null / a value: va: argf(x: $nul)
}
MODE_VALUE = {"LOUD": 7, "QUIET": 3}


def gen_vars(rng):
    send = {}
    for name, (_t, _lit, _dv, choices) in VARS.items():
        if rng.random() < 0.4:
            send[name] = rng.choice(choices)
    return {"send": send}


def effective_vars(case):
    eff = {}
    for name, (_t, _lit, dv, _c) in VARS.items():
        eff[name] = case["vars"]["send"].get(name, dv)
    return eff


def var_fields(case, ev):
    """[(key, value)] of the variable-driven leaves appended to the event selection, per the GraphQL coercion rules"""
    eff = effective_vars(case)
    out = [("vm", MODE_VALUE[eff["e"]]), ("vo", eff["in"]["k"] + eff["in"].get("d", 40))]
    out.append(("va", 9 if eff["nul"] == "<absent>" else (-1 if eff["nul"] is None else eff["nul"])))
    if not eff["skip"]:
        out.append(("vs", ev["val"]))
    if eff["flag"]:
        out.append(("vi", ev["val"]))
    return out


ACC_DEFAULT = [7]      # the default value object of Evt.acc(ids:), reset before every execution (a resolver may have mutated it)
ACC_TEXT = {"literal": "acc: acc(ids: [9])", "default": "acc: acc", "variable": "acc: acc(ids: $ids)"}
ACC_BASE = {"literal": [9], "default": [7], "variable": [8]}
VAR_SEL_TEXT = "vm: mode(m: $e) vo: opt(o: $in) va: argf(x: $nul) vs: a @skip(if: $skip) vi: a @include(if: $flag)"


def animal_value(species, f):
    """what Dog/Cat resolvers return when the argument is left to ITS OWN type's default (voicet: loud given as true)"""
    base = {"Dog": 10, "Cat": 20}[species]
    if f == "voice":
        return base + (1 if species == "Dog" else 0)      # Dog.voice(loud = true), Cat.voice(loud = false)
    if f == "voicet":
        return base + 1
    return 100 * (1 if species == "Dog" else 2) + base       # Dog.vol(n = 1), Cat.vol(n = 2)


# ---------------------------------------------------------------------------------------------
def gen_sel(rng, depth, counter, ctx="evt", animals=0.25):
    out = []
    for _ in range(rng.randint(1, 3)):
        if ctx == "animal":
            if depth > 0 and rng.random() < 0.35:
                f = rng.choice(AOBJ + ALST)
                sel = gen_sel(rng, depth - 1, counter, "animal")
            else:
                f = rng.choice(ALEAF)
                sel = []
        elif rng.random() < animals:
            f = rng.choice(APET)
            sel = gen_sel(rng, max(depth - 1, 0) if depth else 0, counter, "animal")
            if depth == 0:
                sel = [t for t in sel if t["f"] in ALEAF] or [{"k": "kv%d" % counter[0], "f": "voice", "sel": []}]
        elif depth > 0 and rng.random() < 0.4:
            f = rng.choice(OBJ + LST)
            sel = gen_sel(rng, depth - 1, counter, "evt", animals)
        else:
            f = rng.choice(LEAF)
            sel = []
        counter[0] += 1
        out.append({"k": "k%d" % counter[0], "f": f, "sel": sel})
    return out


def walk_event(sel, prefix, ev, out, rng=None):
    """all concrete response paths (with list indices) of a selection instance; with `rng`: also draws list lengths / species"""
    for t in sel:
        p = prefix + (t["k"],)
        ps = "/".join(map(str, p))
        f = t["f"]
        out.append((p, f))
        if f in OBJ:
            walk_event(t["sel"], p, ev, out, rng)
        elif f in APET + AOBJ:
            if rng is not None:
                ev["species"][ps] = rng.choice(SPECIES)
            walk_event(t["sel"], p, ev, out, rng)
        elif f in LST + ALST:
            if rng is not None:
                ev["len"][ps] = rng.choice([0, 1, 2] if f in LST else [0, 1, 2, 3])
            for i in range(ev["len"].get(ps, 1)):
                if f in ALST and rng is not None:
                    ev["species"]["%s/%d" % (ps, i)] = rng.choice(SPECIES)
                walk_event(t["sel"], p + (i,), ev, out, rng)


def gen_event(rng, ident, sel, perr):
    ev = {"id": ident, "val": rng.randint(0, 99), "fail": [], "null": [], "len": {}, "species": {}}
    paths = []
    walk_event(sel, ("root",), ev, paths, rng)
    for p, f in paths:
        ps = "/".join(map(str, p))
        if f in ("bad", "badd") and rng.random() < max(perr, 0.3):
            ev["fail"].append(ps)
        elif rng.random() < perr * 0.5:
            ev["fail"].append(ps)
        elif f in OBJ + LST + APET + AOBJ + ALST and rng.random() < 0.1:
            ev["null"].append(ps)
    if rng.random() < perr * 0.3:
        ev["fail"].append("root")
    return ev


def wrap_root(rng, leaves, depth=2):
    """spell a list of root leaves through fragment spreads / inline fragments (random grouping, order kept)"""
    if depth == 0 or not leaves or rng.random() < 0.25:
        return [{"leaf": x} for x in leaves]
    out = []
    i = 0
    while i < len(leaves):
        n = rng.randint(1, len(leaves) - i)
        grp = leaves[i:i + n]
        i += n
        if rng.random() < 0.7:
            out.append({"frag": wrap_root(rng, grp, depth - 1), "style": rng.choice(["spread", "inline", "inline-untyped"])})
        else:
            out += [{"leaf": x} for x in grp]
    return out


def gen_root(rng, kind, sel):
    """kind 'single' -> spellings that collect exactly the field `root`; 'multi' -> several root fields; 'zero' -> none"""
    if kind == "single":
        base = rng.choice([["R"], ["R", "R"], ["R", "Os"], ["Os", "R", "R"]] + ([["Ra", "Rb"], ["Ra", "Rb", "R"]] if len(sel) >= 2 else []))
    elif kind == "multi":
        base = rng.choice([["R", "O"], ["R", "O2"], ["O2", "R"], ["R", "R", "O"], ["R", "O", "O2"], ["R", "Os", "O2"]])
    else:
        base = rng.choice([["Rs"], ["Os"], ["Rs", "Os"]])
    return wrap_root(rng, base)


def default_root(case):
    r = case["refusal"]
    if r == "multi-field":
        return [{"leaf": "R"}, {"leaf": "O"}]
    if r == "no-sub-resolver":
        return [{"leaf": "N"}]
    if r == "unknown-field":
        return [{"leaf": "U"}]
    if r == "meta-schema-field":
        return [{"leaf": "MS"}]
    if r == "meta-type-field":
        return [{"leaf": "MT"}]
    if r == "meta-typename-field":
        return [{"leaf": "MN"}]
    return [{"leaf": "R"}]


def root_of(case):
    return case.get("root") or default_root(case)


def collected_keys(root):
    """response keys `collect_fields` finds at the root, in order (skipped leaves dropped, duplicates merged)"""
    keys = []

    def walk(nodes):
        for n in nodes:
            if "leaf" in n:
                k = LEAF_KEY[n["leaf"]]
                if k is not None and k not in keys:
                    keys.append(k)
            else:
                walk(n["frag"])
    walk(root)
    return keys


LEAF_KEY = {"R": "root", "Ra": "root", "Rb": "root", "O": "other", "O2": "other2", "Os": None, "Rs": None, "N": "root", "U": "root", "MS": "root", "MT": "root", "MN": "root"}


def gen_case(rng):
    counter = [0]
    if rng.random() < 0.16:
        r = rng.choice(REFUSALS + ["multi-expanded"] * 3)
        sel = gen_sel(rng, 1, counter)
        case = {"kind": "refusal", "refusal": r, "async_sub": rng.random() < 0.5,
                "source": rng.choice(SOURCES), "threads": False, "sel": sel,
                "events": [gen_event(rng, 0, sel, 0.0)], "delays": [0, 0]}
        case["eager_head"] = rng.random() < 0.5
        if r == "mutation-op":
            case["shared_root"] = rng.choice([None, "all"])
        else:
            case["shared_root"] = rng.choice([None, "all", "query"])
        if r == "multi-expanded":
            case["root"] = gen_root(rng, "multi", sel)
        elif r == "zero-fields":
            case["root"] = gen_root(rng, "zero", sel)
        return case
    sel = gen_sel(rng, rng.randint(0, 2), counter)
    perr = rng.choice([0.0, 0.2, 0.5])
    n = rng.choice([0, 1, 2, 2, 3, 3, 4, 5, 6])
    case = {"kind": "stream", "refusal": None, "async_sub": rng.random() < 0.5, "source": rng.choice(SOURCES),
            "threads": rng.random() < 0.06, "sel": sel, "events": [gen_event(rng, i, sel, perr) for i in range(n)],
            "delays": [rng.choice([0, 0, 1, 3]) for _ in range(n + 1)]}
    if rng.random() < 0.35:
        case["root"] = gen_root(rng, "single", sel)
    if rng.random() < 0.25:
        case["shared_root"] = rng.choice(["all", "query"])
    case["drive"] = rng.choice(DRIVES)
    if n >= 2 and rng.random() < 0.08:
        # event c crashes (unexpected exception in one async leaf) while an async sibling fails some loop turns later
        c = rng.randint(0, n - 2)
        counter[0] += 2
        kx, ky = "k%d" % (counter[0] - 1), "k%d" % counter[0]
        sel += [{"k": kx, "f": "ad", "sel": []}, {"k": ky, "f": "badd", "sel": []}]
        for i, e in enumerate(case["events"]):
            e["fail"] = [p for p in e["fail"] if p != "root"]
            e["lag"] = {"root/" + kx: rng.choice([30, 60]), "root/" + ky: rng.choice([30, 60])}
        case["events"][c]["crash"] = ["root/" + kx]
        case["events"][c]["fail"].append("root/" + ky)
        case["events"][c]["lag"] = {"root/" + ky: rng.choice([3, 10, 25])}
        case["drive"] = "anext"
        return case
    if n and not has_animals(sel) and rng.random() < 0.25:
        for i in range(n):
            if rng.random() < 0.4:
                case["events"][i] = copy.deepcopy(rng.choice(FALSY_EVENTS))
    if n >= 2 and rng.random() < 0.25:
        case["swap"] = rng.randint(0, n - 2)       # Evt.a is re-registered between events swap and swap+1
        if not any(t["f"] == "a" for t in sel):
            counter[0] += 1
            sel.append({"k": "k%d" % counter[0], "f": "a", "sel": []})
    if "root" not in case and rng.random() < 0.3:
        case["vars"] = gen_vars(rng)
    case["eager_head"] = rng.random() < 0.3
    if "root" not in case and not case.get("vars") and n >= 2 and rng.random() < 0.15:
        case["acc"] = rng.choice(sorted(ACC_TEXT))
    if n >= 1 and rng.random() < 0.08 and not has_animals(sel):
        # a resolver raises a LIBRARY error while event k is executed: that is the (data null) result of event k, the stream goes on
        k = rng.randrange(n)
        if is_event(case["events"][k]):
            counter[0] += 1
            sel.append({"k": "k%d" % counter[0], "f": "a", "sel": []})
            case["events"][k]["abort"] = ["root/k%d" % counter[0]]
    return case


def render_sel(sel):
    parts = []
    for t in sel:
        f = t["f"]
        sub = ""
        name = f
        if f in OBJ + LST + AOBJ + ALST:
            sub = " { %s }" % (render_sel(t["sel"]) if t["sel"] else ("zz: a" if f in OBJ + LST else "zz: voice"))
        elif f == "pet":
            sub = " { %s }" % render_sel(t["sel"])
        elif f == "petu":      # a union: its fields are reached through ONE fragment on the interface (one field node for Dog and Cat)
            sub = " { ... on Animal { %s } }" % render_sel(t["sel"])
        elif f == "voicet":
            name = "voice(loud: true)"
        parts.append("%s: %s%s" % (t["k"], name, sub))
    return " ".join(parts)


def render_root(case):
    """-> (root selection text, fragment definitions text)"""
    sel = case["sel"]
    arg = "$v" if case["refusal"] in ("vars", "query-op-missing-var", "blocking-runtime-missing-var", "threadpool-runtime-missing-var") else ("$n" if case.get("vars") else "5")
    half = max(1, len(sel) // 2)
    extra = (" " + VAR_SEL_TEXT) if case.get("vars") else ""
    if case.get("acc"):
        extra += " " + ACC_TEXT[case["acc"]]
    r0 = case["refusal"]
    rfield, rdir = "ev(n: %s)" % arg, ""
    if r0 == "null-arg-var":
        rfield = "evr(n: $nn)"
    elif r0 == "null-include-var":
        rdir = " @include(if: $nu)"
    elif r0 == "null-skip-var":
        rdir = " @skip(if: $nu)"
    leaf_text = {
        "R": "root: %s%s { %s%s }" % (rfield, rdir, render_sel(sel), extra),
        "Ra": "root: ev(n: %s) { %s }" % (arg, render_sel(sel[:half])),
        "Rb": "root: ev(n: %s) { %s }" % (arg, render_sel(sel[half:]) or "zz: a"),
        "Rs": "root: ev(n: %s) @skip(if: true) { %s }" % (arg, render_sel(sel)),
        "O": "other: ev(n: 6) { zz: a }",
        "O2": "other2: ev2 { zz: a }",
        "Os": "skipped: ev2 @include(if: false) { zz: a }",
        "N": "root: nosub { %s }" % render_sel(sel),
        "U": "root: nothere { zz: a }",
        "MS": "root: __schema { queryType { name } }",
        "MT": "root: __type(name: \"Evt\") { name }",
        "MN": "root: __typename",
    }
    frags = []

    def walk(nodes):
        parts = []
        for n in nodes:
            if "leaf" in n:
                parts.append(leaf_text[n["leaf"]])
            elif n["style"] == "spread":
                name = "F%d" % len(frags)
                frags.append(None)
                frags[int(name[1:])] = "fragment %s on Subscription { %s }" % (name, walk(n["frag"]))
                parts.append("...%s" % name)
            elif n["style"] == "inline":
                parts.append("... on Subscription { %s }" % walk(n["frag"]))
            else:
                parts.append("... { %s }" % walk(n["frag"]))
        return " ".join(parts)
    body = walk(root_of(case))
    return body, " ".join(frags)


def documents(case):
    """(subscription document text, twin query text with identical columns, operation name, variables)"""
    body, frags = render_root(case)
    r = case["refusal"]
    kw = "subscription"
    if r in ("query-op", "query-op-missing-var"):
        kw = "query       "
    elif r in ("mutation-op", "mutation-op-unsupported"):
        kw = "mutation    "
    decl = "($v: Int!)" if r in ("vars", "query-op-missing-var", "blocking-runtime-missing-var", "threadpool-runtime-missing-var") else ""
    if r == "null-arg-var":
        decl = "($nn: Int = 2)"
    elif r in ("null-include-var", "null-skip-var"):
        decl = "($nu: Boolean = %s)" % ("true" if r == "null-include-var" else "false")
    if case.get("acc") == "variable":
        decl = "($ids: [Int] = [8])"
    if case.get("vars"):
        decl = "(%s)" % ", ".join("$%s: %s%s" % (name, t, "" if lit is None else " = " + lit) for name, (t, lit, _d, _c) in VARS.items())
    tail = (" " + frags) if frags else ""
    if r == "opsel-ambiguous":
        tail += " subscription P { root: ev(n: 1) { zz: a } }"
    if r == "shorthand-op":
        return "{ %s }%s" % (body, tail), "{ %s }%s" % (body, tail)
    if r == "named-query-op":
        kw = "query       "
        tail += " subscription P { root: ev(n: 1) { zz: a } }"
    return "%s Q%s { %s }%s" % (kw, decl, body, tail), "%s Q%s { %s }%s" % ("query       ", decl, body, tail)


def request_extras(case):
    """(operation_name, variables) of the subscribe call"""
    r = case["refusal"]
    opname = {"opsel-unknown": "Missing", "named-query-op": "Q"}.get(r)
    if r == "null-arg-var":
        return opname, {"nn": None}
    if r in ("null-include-var", "null-skip-var"):
        return opname, {"nu": None}
    if case.get("vars"):
        return opname, copy.deepcopy(case["vars"]["send"])
    return opname, ({} if r in ("vars", "query-op-missing-var", "blocking-runtime-missing-var", "threadpool-runtime-missing-var") else None)


# ---------------------------------------------------------------------------------------------
class SubCtx:
    def __init__(self):
        self.progress = 0      # bumped by every field resolver call
        self.loop = None
        self.sub_calls = 0          # invocations of the subscription resolver (sync or async flavour), counted at the call
        self.sub_args = None
        self.source = None
        self.src = None
        self.sources_created = 0    # the resolver got as far as creating / handing out the event source
        self.eager_head = False     # the resolver takes the head of the backlog when it is called


class Source:
    """async iterator with one gate per pull"""

    def __init__(self, events, loop):
        self.events = events
        self.loop = loop
        self.i = 0
        self.pulls = 0
        self.gates = []
        self.heads_taken = 0

    def take_head(self):
        """called by an eager subscription resolver: reserves the head of the backlog (delivered by the first pull)"""
        if self.i < len(self.events):
            self.heads_taken += 1

    def __aiter__(self):
        return self

    async def gate(self):
        self.pulls += 1
        f = self.loop.create_future()
        self.gates.append(f)
        await f

    async def __anext__(self):
        await self.gate()
        if self.i >= len(self.events):
            raise StopAsyncIteration()
        e = self.events[self.i]
        self.i += 1
        return e


def agen_of(src):
    async def gen():
        while True:
            await src.gate()
            if src.i >= len(src.events):
                return
            e = src.events[src.i]
            src.i += 1
            yield e
    return gen()


SOURCES = ("iter", "agen", "aiterable-gen", "aiterable-obj", "iter-init")


def make_source_object(kind, src):
    """what the subscription resolver returns:
    iter           an async ITERATOR object (class with __aiter__ returning self and __anext__)
    agen           an async generator object
    aiterable-gen  an async ITERABLE whose __aiter__ is an async generator method (no __anext__ on the class)
    aiterable-obj  an async ITERABLE whose __aiter__ returns a separate iterator object"""
    if kind == "agen":
        return agen_of(src)
    if kind == "aiterable-gen":
        class Feed:
            async def __aiter__(self):
                while True:
                    await src.gate()
                    if src.i >= len(src.events):
                        return
                    e = src.events[src.i]
                    src.i += 1
                    yield e
        return Feed()
    if kind == "iter-init":
        # an async ITERATOR (has __anext__) whose __aiter__ sets the iteration up: the protocol calls __aiter__ first
        class Feed3:
            def __aiter__(self):
                self.ready = src
                return self

            async def __anext__(self):
                return await self.ready.__anext__()
        return Feed3()
    if kind == "aiterable-obj":
        class Feed2:
            def __aiter__(self):
                return src
        return Feed2()
    return src


_SCHEMAS = {}
_SWAP_FN = {}


def schemas(mode):
    """(subscription schema, twin schema whose QUERY type is the subscription type). mode: 'async' | 'sync'"""
    if mode in _SCHEMAS:
        return _SCHEMAS[mode]
    from py_gql.exc import ResolverError
    from py_gql.schema import Argument, Field, Int, ListType, NonNullType, ObjectType, Schema

    def outcome(root, info):
        tick(info)
        ps = "/".join(str(x) for x in info.path)
        if not (isinstance(root, dict) and "id" in root):
            return ps           # a falsy / foreign event used as root value: nothing fails below it
        if ps in root.get("abort", ()):
            from py_gql.exc import ExecutionError
            raise ExecutionError("fail@%d abort %s" % (root["id"], ps))      # aborts THIS event: its result is data null + this error
        if ps in root.get("stop", ()):
            raise StopAsyncIteration()      # e.g. an exhausted inner iterator: an error of THIS event, not the end of the stream
        if ps in root.get("crash", ()):
            raise ValueError("crash@%d %s" % (root["id"], ps))      # an UNEXPECTED exception: aborts the processing of this event
        if ps in root["fail"]:
            raise ResolverError("fail@%d %s" % (root["id"], ps))
        return ps

    def tick(info):
        c = info._context.context_value
        if isinstance(c, SubCtx):
            c.progress += 1

    def value(root, info, name):
        ps = outcome(root, info)
        if not (isinstance(root, dict) and "id" in root):
            root = FALSY_EVENT
        if name in LEAF:
            return root["val"]
        if ps in root["null"]:
            return None
        if name in OBJ:
            return root
        return [root] * root["len"].get(ps, 1)

    def acc(root, ctx, info, ids=None):
        ids.append(root["val"] if is_event(root) else 0)
        return ids

    def swapped_a(root, ctx, info, **args):
        return value(root, info, "a") + SWAP_DELTA
    _SWAP_FN[mode] = swapped_a

    def mk(name, is_async):
        if is_async:
            async def r(root, ctx, info, **args):
                ps = "/".join(str(x) for x in info.path)
                if is_event(root) and ps in root.get("crash", ()):
                    return value(root, info, name)          # raises at once
                for _ in range(root.get("lag", {}).get(ps, 1) if is_event(root) else 1):
                    await asyncio.sleep(0)                  # controlled lag: this field finishes (or fails) that many loop turns later
                return value(root, info, name)
        else:
            def r(root, ctx, info, **args):
                return value(root, info, name)
        return r

    from py_gql.schema import Boolean, InterfaceType, UnionType

    def animal(root, info, name):
        """root = an animal value {"__typename__", "ev"}; outcomes are looked up in the event like everywhere else"""
        ev = root["ev"]
        ps = outcome(ev, info)
        if ps in ev["null"]:
            return None
        if name == "pal":
            return {"__typename__": ev["species"][ps], "ev": ev}
        return [{"__typename__": ev["species"]["%s/%d" % (ps, i)], "ev": ev} for i in range(ev["len"].get(ps, 1))]

    def voice(root, ctx, info, loud):
        outcome(root["ev"], info)
        return {"Dog": 10, "Cat": 20}[root["__typename__"]] + (1 if loud else 0)

    def vol(root, ctx, info, n):
        outcome(root["ev"], info)
        return 100 * n + {"Dog": 10, "Cat": 20}[root["__typename__"]]

    def build():
        ref = [None]
        aref = [None]

        def animal_fields(loud_default, n_default):
            def fs():
                kw = {} if loud_default is None else {"default_value": loud_default}
                kn = {} if n_default is None else {"default_value": n_default}
                res = {} if loud_default is None else {
                    "voice": voice, "vol": vol,
                    "pal": lambda root, ctx, info: animal(root, info, "pal"),
                    "pals": lambda root, ctx, info: animal(root, info, "pals")}
                return [
                    Field("voice", Int, args=[Argument("loud", Boolean, **kw)], resolver=res.get("voice")),
                    Field("vol", Int, args=[Argument("n", Int, **kn)], resolver=res.get("vol")),
                    Field("pal", lambda: aref[0], resolver=res.get("pal")),
                    Field("pals", lambda: ListType(aref[0]), resolver=res.get("pals")),
                ]
            return fs
        Animal = InterfaceType("Animal", animal_fields(None, None))
        aref[0] = Animal
        Dog = ObjectType("Dog", animal_fields(True, 1), interfaces=[Animal])
        Cat = ObjectType("Cat", animal_fields(False, 2), interfaces=[Animal])
        Pet = UnionType("Pet", [Dog, Cat])

        def pet(root, ctx, info):
            ps = outcome(root, info)
            if ps in root["null"]:
                return None
            return {"__typename__": root["species"][ps], "ev": root}

        from py_gql.schema import EnumType, EnumValue, InputField, InputObjectType
        Mode = EnumType("Mode", [EnumValue("LOUD", value=7), EnumValue("QUIET", value=3)])
        Opts = InputObjectType("Opts", [InputField("k", Int), InputField("d", Int, default_value=40)])

        def evt_fields():
            t = ref[0]
            fs = [Field("pet", Animal, resolver=pet), Field("petu", Pet, resolver=pet),
                  Field("mode", Int, args=[Argument("m", Mode)], resolver=lambda root, ctx, info, m=None: m),
                  Field("opt", Int, args=[Argument("o", Opts)], resolver=lambda root, ctx, info, o=None: o["k"] + o["d"]),
                  Field("argf", Int, args=[Argument("x", Int, default_value=9)],
                        resolver=lambda root, ctx, info, x=None: -1 if x is None else x),
                  # a resolver that MUTATES its list argument (appends the event's value) and returns it
                  Field("acc", ListType(Int), args=[Argument("ids", ListType(Int), default_value=ACC_DEFAULT)], resolver=acc)]
            for name in LEAF:
                fs.append(Field(name, Int, resolver=mk(name, mode == "async" and name.endswith("d"))))
            for name in OBJ:
                fs.append(Field(name, lambda: t, resolver=mk(name, mode == "async" and name.endswith("d"))))
            fs.append(Field("l", lambda: ListType(t), resolver=mk("l", False)))
            return fs
        Evt = ObjectType("Evt", evt_fields)
        ref[0] = Evt

        def root_resolver(event, ctx, info, **args):
            if not (isinstance(event, dict) and "id" in event):
                return event        # None -> null; 0, "", {}, [], False are root values like any other
            if "root" in event["fail"]:
                raise ResolverError("fail@%d root" % event["id"])
            return event

        def open_source(ctx, args):
            ctx.sub_args = args
            ctx.sources_created += 1
            if ctx.eager_head:
                ctx.src.take_head()
            return ctx.source

        async def sub_async(root, ctx, info, **args):
            await asyncio.sleep(0)
            return open_source(ctx, args)

        def sub(root, ctx, info, **args):
            ctx.sub_calls += 1
            if ctx.async_sub:
                return sub_async(root, ctx, info, **args)
            return open_source(ctx, args)
        S = ObjectType("Subscription", [
            Field("ev", Evt, args=[Argument("n", Int)], resolver=root_resolver, subscription_resolver=sub),
            Field("ev2", Evt, resolver=root_resolver, subscription_resolver=sub),
            Field("evr", Evt, args=[Argument("n", NonNullType(Int), default_value=1)], resolver=root_resolver, subscription_resolver=sub),
            Field("nosub", Evt, resolver=root_resolver),
        ])
        return [Dog, Cat], S
    X1, S1 = build()
    X2, S2 = build()
    Qd = ObjectType("Query", [Field("a", Int)])
    Md = ObjectType("Mutation", [Field("a", Int)])
    sub_schema = Schema(query_type=Qd, mutation_type=Md, subscription_type=S1, types=X1)
    twin = Schema(query_type=S2, types=X2)
    # ONE object type serving as subscription root AND query root AND mutation root
    X3, S3 = build()
    shared = Schema(query_type=S3, mutation_type=S3, subscription_type=S3, types=X3)
    # … and as subscription + query root only
    X4, S4 = build()
    shared_q = Schema(query_type=S4, subscription_type=S4, types=X4)
    sub_schema.validate()
    twin.validate()
    shared.validate()
    shared_q.validate()
    _SCHEMAS[mode] = (sub_schema, twin, shared, shared_q)
    return _SCHEMAS[mode]


class Hang(Exception):
    pass


def Raised(cls):
    """stands for 'the k-th __anext__() raised this exception' in a result list"""
    return {"raised": cls}


class InfraBound(Exception):
    """a bound that exists only so that the check cannot block forever"""


def canon_response(resp, sort_errors):
    errs = [{"message": e.get("message"), "path": e.get("path")} for e in resp.get("errors", [])]
    if sort_errors:
        errs.sort(key=lambda e: json.dumps(e, sort_keys=True))
    return {"data": resp.get("data"), "errors": errs}


def run_confirmed(case, ctx=None):
    """run_real, with every hang verdict CONFIRMED by a second, isolated run with much larger (progress based) bounds"""
    saturated = ctx is not None and ctx.extra.get("_confirmed_hangs", 0) >= 3
    # once three hangs are confirmed a further suspicion is never reported: do not wait long to raise it (thread-offloaded cases)
    real = run_real(case, scale=0 if saturated else 1)
    if real["err"] and real["err"].startswith("hang"):
        if saturated:
            # three hangs are already confirmed and reported in this run: do not spend minutes confirming every further one,
            # and do not report an unconfirmed suspicion either
            ctx.stat("hang-suspicion-not-examined")
            real["err"] = "infra:hang suspicion not examined (3 confirmed hangs already reported)"
            return real
        again = run_real(case, scale=CONFIRM_SCALE)
        if again["err"] and again["err"].startswith("hang") and ctx is not None:
            ctx.extra["_confirmed_hangs"] = ctx.extra.get("_confirmed_hangs", 0) + 1
        if again["err"] and again["err"].startswith("hang"):
            return again
        if ctx is not None:
            ctx.stat("slow-case-not-a-hang")
        real = again
    if real["err"] and real["err"].startswith("infra") and ctx is not None and "not examined" not in real["err"]:
        ctx.notes.append("case skipped, infrastructure bound exceeded: %s" % real["err"])
    return real


def run_real(case, scale=1):
    """-> dict(refused=exc class name or None, results=[response dict], pulls, sub_calls, ended, err)"""
    import time as _time
    from py_gql.execution import subscribe
    from py_gql.execution.runtime import AsyncIORuntime, BlockingRuntime, ThreadPoolRuntime
    from py_gql.lang import parse

    case = copy.deepcopy(case)
    ACC_DEFAULT[:] = [7]
    text, _ = documents(case)
    opname, variables = request_extras(case)
    sub_schema = schemas("async")[{"all": 2, "query": 3}.get("query" if case["refusal"] == "mutation-op-unsupported" else case.get("shared_root"), 0)]
    doc = parse(text)
    loop = asyncio.new_event_loop()
    out = {"refused": None, "results": [], "pulls": 0, "sub_calls": 0, "ended": False, "err": None}
    ctx = SubCtx()
    ctx.loop = loop
    ctx.async_sub = case["async_sub"]
    src = Source(case["events"], loop)
    ctx.source = make_source_object(case["source"], src)
    ctx.src = src
    ctx.eager_head = bool(case.get("eager_head"))
    pool_rt = None
    try:
        r = case["refusal"]
        if r in ("blocking-runtime", "blocking-runtime-missing-var"):
            rt = BlockingRuntime()
        elif r in ("threadpool-runtime", "threadpool-runtime-missing-var"):
            rt = pool_rt = ThreadPoolRuntime(max_workers=1)
        else:
            rt = AsyncIORuntime(loop=loop, execute_blocking_functions_in_thread=bool(case["threads"]))

        from py_gql.execution import Instrumentation

        class StageRec(Instrumentation):
            def on_execution_start(self):
                out["exec_hooks"].append("+")

            def on_execution_end(self):
                out["exec_hooks"].append("-")
        out["exec_hooks"] = []
        stage_rec = StageRec()
        results = []
        swap = case.get("swap")
        swapped = [None]
        stage = ["subscribing"]
        stall_iters = STALL_ITERS * max(scale, 1)
        # confirmation: >= 60 s without ANY observable progress; scale 0: the verdict will not be used (see run_confirmed)
        stall_seconds = {0: 1.0, 1: STALL_SECONDS}.get(scale, CONFIRM_MIN_SECONDS)

        async def body():
            try:
                aw = subscribe(sub_schema, doc, context_value=ctx, runtime=rt, operation_name=opname, variables=variables,
                               instrumentation=stage_rec)
                stream = (await aw) if asyncio.iscoroutine(aw) or asyncio.isfuture(aw) else aw
            except Exception as e:  # noqa  (classified by the caller)
                out["refused"] = type(e).__name__
                return
            if case["kind"] == "refusal":
                out["refused"] = None      # accepted although it should have been refused
                return
            stage[0] = "consuming"
            drive = case.get("drive") or "async-for"
            out["closed_after"] = None
            if drive == "async-for":
                async for res in stream:
                    results.append(res)
            else:
                # the documented result is an async ITERATOR: bare `__anext__()` pulls, no `__aiter__()` first
                it = stream
                n = 0
                while True:
                    if drive == "anext-aiter-mid" and n % 2 == 1:
                        it = it.__aiter__()            # must neither restart nor skip
                    if drive == "aclose-mid" and n == max(1, len(case["events"]) // 2) and hasattr(it, "aclose"):
                        await it.aclose()
                        out["closed_after"] = n
                        break
                    try:
                        res = await it.__anext__()
                    except StopAsyncIteration:
                        break
                    except RuntimeError as e:        # StopAsyncIteration raised while processing an event, converted (PEP 479 style)
                        if not isinstance(e.__cause__, StopAsyncIteration):
                            raise
                        res = Raised("error-of-this-event")
                    except ValueError as e:          # the unexpected exception of a crashing event: the consumer keeps reading
                        if not str(e).startswith("crash@"):
                            raise
                        res = Raised(type(e).__name__)
                    results.append(res)
                    n += 1
            out["ended"] = True

        async def main():
            task = asyncio.ensure_future(body())
            delays = list(case["delays"])
            opened = 0
            t0 = last_change = _time.monotonic()
            last = None
            idle = 0
            while not task.done():
                if case["threads"] and len(src.gates) <= opened:
                    await asyncio.sleep(0.0005)        # worker threads need real time
                else:
                    await asyncio.sleep(0)
                if len(src.gates) > opened:
                    if swap is not None and opened == swap + 1 and swapped[0] is None and len(results) >= opened:
                        # events 0..swap are fully processed, event swap+1 is not pulled yet: re-register Evt.a on the OPEN subscription
                        evt = sub_schema.get_type("Evt")
                        swapped[0] = evt.field_map["a"].resolver
                        sub_schema.register_resolver("Evt", "a", _SWAP_FN["async"], allow_override=True)
                    d = delays[opened] if opened < len(delays) else 0
                    for _ in range(d):
                        await asyncio.sleep(0)
                    src.gates[opened].set_result(None)
                    opened += 1
                snap = (src.pulls, len(src.gates), opened, len(results), ctx.sub_calls, stage[0], ctx.progress)
                now = _time.monotonic()
                if snap != last:
                    last, idle, last_change = snap, 0, now
                else:
                    idle += 1
                if case["threads"]:
                    if now - last_change > stall_seconds:
                        task.cancel()
                        raise Hang("no progress for %.0f s while %s (thread-offloaded resolvers)" % (stall_seconds, stage[0]))
                elif idle > stall_iters:
                    task.cancel()
                    raise Hang("no progress during %d loop iterations while %s" % (stall_iters, stage[0]))
                if now - t0 > INFRA_SECONDS:
                    task.cancel()
                    raise InfraBound("%.0f s" % INFRA_SECONDS)
            task.result()
            # responses are rendered AFTER the stream ended: a result sharing state with a later event shows here
            out["results"] = [x if isinstance(x, dict) else x.response() for x in results]
        try:
            loop.run_until_complete(main())
        except Hang as e:
            out["err"] = "hang:%s" % e
        except InfraBound as e:
            out["err"] = "infra:%s" % e
        except Exception as e:  # noqa
            out["err"] = "internal:%s" % type(e).__name__
    finally:
        if "swapped" in dir() and swapped[0] is not None:
            sub_schema.register_resolver("Evt", "a", swapped[0], allow_override=True)
        try:
            for t in asyncio.all_tasks(loop):
                t.cancel()
            loop.run_until_complete(asyncio.sleep(0))
            loop.run_until_complete(loop.shutdown_asyncgens())
            if case["threads"]:
                loop.run_until_complete(loop.shutdown_default_executor())
        except Exception:  # noqa
            pass
        loop.close()
        if pool_rt is not None:
            pool_rt._inner.shutdown(wait=False)
    out["pulls"] = src.pulls
    out["sub_calls"] = ctx.sub_calls
    out["sources_created"] = ctx.sources_created
    out["heads_taken"] = src.heads_taken
    out["sub_args"] = ctx.sub_args
    return out


def expected_results(case):
    """k-th expected response: a FRESH blocking execution of the same selection with the k-th event as root"""
    from py_gql import graphql_blocking
    twin = schemas("sync")[1]
    _, qtext = documents(case)
    out = []
    swap = case.get("swap")
    for k, ev in enumerate(case["events"]):
        ACC_DEFAULT[:] = [7]
        after = swap is not None and k > swap
        if after:
            orig = twin.get_type("Evt").field_map["a"].resolver
            twin.register_resolver("Evt", "a", _SWAP_FN["sync"], allow_override=True)
        try:
            try:
                res = graphql_blocking(twin, qtext, root=copy.deepcopy(ev), variables=request_extras(case)[1])
            except StopAsyncIteration:
                out.append(Raised("error-of-this-event"))
                continue
            except ValueError as e:
                if not str(e).startswith("crash@"):
                    raise
                out.append(Raised(type(e).__name__))
                continue
        finally:
            if after:
                twin.register_resolver("Evt", "a", orig, allow_override=True)
        out.append(res.response())
    return out


# ---------------------------------------------------------------------------------------------
def oracle(case, real):
    bad = []
    hooks = real.get("exec_hooks")
    if hooks is not None and not real["err"] and hooks not in ([], ["+", "-"]):
        return [("subscribe-execution-stage-unpaired:%s" % (case["refusal"] or "stream"),
                 "subscribe() fired the execution hooks %r: a started execution stage must be ended, also when the subscription is refused" % hooks)]
    if real["err"] and real["err"].startswith("infra"):
        return []           # a bound that only keeps the check from blocking forever: an infrastructure note, never a verdict
    if real["err"]:
        k = real["err"].split(":")[0]
        drv = case.get("drive") or "async-for"
        return [("%s:%s%s" % (real["err"] if k == "internal" else k, case["kind"], "" if drv == "async-for" else ":driven-by-" + drv),
                 "subscription run failed: %s (stream driven by %s)" % (real["err"], drv))]
    if case["kind"] == "refusal":
        r = case["refusal"]
        if real["refused"] is None:
            bad.append(("refusal-missing:%s%s%s" % (r, spelling_class(case), ":shared-root-type" if case.get("shared_root") else ""),
                        "%s was accepted%s" % (r, " (subscription root type shared with %s root)" % case["shared_root"] if case.get("shared_root") else "")))
        elif real["refused"] != EXPECTED_EXC[r]:
            bad.append(("refusal-class:%s:%s" % (r, real["refused"]), "%s refused with %s, documented %s" % (r, real["refused"], EXPECTED_EXC[r])))
        if real["pulls"] != 0 or real.get("heads_taken"):
            bad.append(("refusal-consumed:%s" % r, "%s: %d events pulled / %d taken from the source before the refusal"
                        % (r, real["pulls"], real.get("heads_taken", 0))))
        if real["sub_calls"] != 0:
            bad.append(("refusal-side-effect:resolver-called:%s" % r,
                        "%s: the subscription resolver was called %d times (%d sources created) although the request is refused"
                        % (r, real["sub_calls"], real.get("sources_created", 0))))
        return bad
    if real["refused"] is not None:
        return [("stream-refused:%s%s" % (real["refused"], spelling_class(case)), "a valid subscription was refused with %s" % real["refused"])]
    n = len(case["events"])
    got = real["results"]
    if real.get("closed_after") is not None:
        # the stream offered aclose() and was closed after j results: exactly the first j results, nothing pulled beyond j+1
        j = real["closed_after"]
        if len(got) != j:
            return [("result-count:closed", "%d results before aclose() after %d pulls" % (len(got), j))]
        n = j
        case = dict(case, events=case["events"][:j])
        real = dict(real, pulls=n + 1, ended=True) if real["pulls"] <= n + 1 else real
    if not real["ended"]:
        bad.append(("stream-not-ended", "response stream did not end with the source"))
    if len(got) != n:
        bad.append(("result-count:%s" % ("more" if len(got) > n else "fewer"), "%d results for %d events" % (len(got), n)))
        return bad
    if real["pulls"] != n + 1:
        bad.append(("source-pulls:%s" % ("more" if real["pulls"] > n + 1 else "fewer"), "source pulled %d times for %d events" % (real["pulls"], n)))
    want_n = effective_vars(case)["n"] if case.get("vars") else 5
    if real["sub_calls"] != 1 or real.get("sub_args") != {"n": want_n}:
        bad.append(("subscription-resolver-call", "subscription resolver called %d times with %r" % (real["sub_calls"], real.get("sub_args"))))
    want = expected_results(case)
    unordered = bool(case["threads"]) or has_async_field(case["sel"])
    for k in range(n):
        if "raised" in got[k] or "raised" in want[k]:
            if got[k] != want[k]:
                bad.append(("kth-raise:differs", "event %d: stream gave %r, fresh execution gives %r" % (k, got[k], want[k])))
            continue
        g = canon_response(got[k], unordered)
        w = canon_response(want[k], unordered)
        tag = "fail@%d " % (case["events"][k]["id"] if is_event(case["events"][k]) else -1)
        foreign = [e for e in g["errors"] if not (e["message"] or "").startswith(tag)]
        if foreign:
            bad.append(("errors-not-isolated:%s" % ("earlier" if any((e["message"] or "").startswith("fail@") for e in foreign) else "other"),
                        "result %d carries errors that were not raised while processing event %d: %r" % (k, k, foreign)))
        elif g["data"] != w["data"]:
            # is it another event's data?
            others = [j for j in range(n) if j != k and canon_response(want[j], unordered)["data"] == g["data"]]

            def without_acc(d):
                r = (d or {}).get("root")
                return {kk: vv for kk, vv in r.items() if kk != "acc"} if isinstance(r, dict) else r
            if case.get("acc") and without_acc(g["data"]) == without_acc(w["data"]):
                bad.append(("kth-data:argument-values-shared-between-events:%s" % case["acc"],
                            "result %d: acc = %r, a fresh execution of event %d gives %r (the %s argument value mutated by the resolver "
                            "during an earlier event was handed out again)" % (k, (g["data"] or {}).get("root", {}).get("acc"), k,
                                                                               (w["data"] or {}).get("root", {}).get("acc"), case["acc"])))
                continue
            bad.append(("kth-data:%s" % ("other-event" if others else "differs"),
                        "result %d data %r, fresh execution of event %d gives %r" % (k, g["data"], k, w["data"])))
        elif g["errors"] != w["errors"]:
            bad.append(("kth-errors:%s" % ("missing" if len(g["errors"]) < len(w["errors"]) else "differs"),
                        "result %d errors %r, fresh execution gives %r" % (k, g["errors"], w["errors"])))
    return bad


def spelling_class(case):
    """'' for the plain spelling; otherwise how the root selection is written"""
    root = root_of(case)
    if all("leaf" in n for n in root):
        return "" if len(root) <= 1 or case["refusal"] == "multi-field" else ":duplicates-or-aliases"
    return ":through-fragments"


def has_async_field(sel):
    return any(t["f"].endswith("d") or has_async_field(t["sel"]) for t in sel)


# ---------------------------------------------------------------------------------------------
# model
# ---------------------------------------------------------------------------------------------
def event_tree(case, ev, k=0):
    """abstract outcome tree of one event under the root selection (what Subscribe.lean executes)"""
    if ev is None:
        return [{"k": "root", "o": "ret", "c": {"t": "null"}}]       # the root field resolves to null
    if not is_event(ev):
        ev = FALSY_EVENT                                               # 0, "", {}, [], False: a root value like any other
    species = ev.get("species", {})
    bump = SWAP_DELTA if (case.get("swap") is not None and k > case["swap"]) else 0      # Evt.a re-registered before this event

    def nodes(sel, prefix, sp=None):
        out = []
        for t in sel:
            p = prefix + (t["k"],)
            ps = "/".join(map(str, p))
            if ps in ev["fail"]:
                out.append({"k": t["k"], "o": "raise"})
                continue
            f = t["f"]
            dflt_evt = [{"k": "zz", "f": "a", "sel": []}]
            dflt_animal = [{"k": "zz", "f": "voice", "sel": []}]
            if f in LEAF:
                c = {"t": "leaf", "v": ev["val"] + (bump if f == "a" else 0)}
            elif f in ALEAF:
                c = {"t": "leaf", "v": animal_value(sp, f)}
            elif ps in ev["null"]:
                c = {"t": "null"}
            elif f in OBJ:
                c = {"t": "obj", "fs": nodes(t["sel"] or dflt_evt, p)}
            elif f in APET + AOBJ:
                c = {"t": "obj", "fs": nodes(t["sel"] or dflt_animal, p, species[ps])}
            elif f in ALST:
                c = {"t": "list", "items": [{"t": "obj", "fs": nodes(t["sel"] or dflt_animal, p + (i,), species["%s/%d" % (ps, i)])}
                                            for i in range(ev["len"].get(ps, 1))]}
            else:
                c = {"t": "list", "items": [{"t": "obj", "fs": nodes(t["sel"] or dflt_evt, p + (i,))}
                                            for i in range(ev["len"].get(ps, 1))]}
            out.append({"k": t["k"], "o": "ret", "c": c})
        return out
    if "root" in ev["fail"]:
        return [{"k": "root", "o": "raise"}]
    fs = nodes(case["sel"] or [{"k": "zz", "f": "a", "sel": []}], ("root",))
    if case.get("vars"):
        fs += [{"k": kk, "o": "ret", "c": {"t": "leaf", "v": v + (bump if kk in ("vs", "vi") else 0)}} for kk, v in var_fields(case, ev)]
    if case.get("acc"):
        fs.append({"k": "acc", "o": "ret", "c": {"t": "list", "items": [{"t": "leaf", "v": v} for v in ACC_BASE[case["acc"]] + [ev["val"]]]}})
    return [{"k": "root", "o": "ret", "c": {"t": "obj", "fs": fs}}]


def model_root(root):
    out = []
    for n in root:
        if "leaf" in n:
            out.append({"k": LEAF_KEY[n["leaf"]]})
        else:
            out.append({"spread": model_root(n["frag"])})
    return out


def model_request(case):
    r = case["refusal"]
    return {
        "op": "subscribe",
        "operation": {"query-op": "query", "mutation-op": "mutation", "shorthand-op": "query", "named-query-op": "query", "query-op-missing-var": "query", "mutation-op-unsupported": "mutation"}.get(r, "subscription"),
        "root": model_root(root_of(case)),
        "fieldDefined": r not in ("unknown-field", "meta-schema-field", "meta-type-field"),
        "hasSubResolver": r not in ("no-sub-resolver", "meta-typename-field"),
        "streamRuntime": r not in ("blocking-runtime", "threadpool-runtime", "blocking-runtime-missing-var", "threadpool-runtime-missing-var"),
        "opsel": "error" if r in ("opsel-unknown", "opsel-ambiguous") else "ok",
        "vars": "error" if r in ("vars", "query-op-missing-var", "blocking-runtime-missing-var", "threadpool-runtime-missing-var") else "ok",
        "rootCollect": "error" if r in ("null-include-var", "null-skip-var") else "ok",
        "args": "error" if r == "null-arg-var" else "ok",
        "events": [event_tree(case, ev, k) for k, ev in enumerate(case["events"])],
    }


def canon_model_result(resp, sort_errors):
    """real response -> the model's shape: data + list of error paths"""
    errs = [[str(x) for x in (e.get("path") or [])] for e in resp.get("errors", [])]
    if sort_errors:
        errs.sort()
    return {"data": resp.get("data"), "errors": errs}


def compare(case, real, ans):
    if real["err"]:
        return None
    if any(is_event(e) and (e.get("crash") or e.get("abort") or e.get("stop")) for e in case["events"]):
        return None         # an event whose processing raises an unexpected exception has no result: outside the model
    if "refused" not in ans:
        return ("corr:model-error", "model returned %r" % (ans,))
    mref = ans["refused"]
    if (real["refused"] is None) != (mref is None) or (mref is not None and mref != real["refused"]):
        return ("corr:refusal:%s" % (case["refusal"] or "stream"), "refusal differs: real %r, model %r" % (real["refused"], mref))
    if mref is not None:
        if bool(real["sub_calls"]) != bool(ans.get("subResolverCalled")):
            return ("corr:refusal-resolver-called", "subscription resolver called: real %d, model %r" % (real["sub_calls"], ans.get("subResolverCalled")))
        if ans.get("pulls", 0) != real["pulls"]:
            return ("corr:refusal-pulls", "source pulls differ: real %d, model %d" % (real["pulls"], ans.get("pulls", 0)))
        return None
    unordered = bool(case["threads"]) or has_async_field(case["sel"])
    got = [canon_model_result(r, unordered) for r in real["results"]]
    mod = []
    for r in ans["results"]:
        e = [[str(x) for x in p] for p in r["errors"]]
        if unordered:
            e.sort()
        mod.append({"data": r["data"], "errors": e})
    if len(got) != len(mod):
        return ("corr:result-count", "real %d results, model %d" % (len(got), len(mod)))
    for k, (g, m) in enumerate(zip(got, mod)):
        if g != m and case.get("acc"):
            def without_acc(d):
                r = (d or {}).get("root")
                return {kk: vv for kk, vv in r.items() if kk != "acc"} if isinstance(r, dict) else r
            if without_acc(g["data"]) == without_acc(m["data"]) and g["errors"] == m["errors"]:
                return ("kth-data:argument-values-shared-between-events:%s" % case["acc"],
                        "result %d: acc differs from the model: real %r, model %r" % (k, g["data"], m["data"]))
        if g != m:
            return ("corr:result:%s" % ("data" if g["data"] != m["data"] else "errors"), "result %d differs: real %r, model %r" % (k, g, m))
    if ans.get("pulls") != real["pulls"]:
        return ("corr:pulls", "source pulls differ: real %d, model %r" % (real["pulls"], ans.get("pulls")))
    return None


# ---------------------------------------------------------------------------------------------
def shrink(case, failing, budget=40):
    sig = failing(case)
    if sig is None:
        return case, None

    def cands(c):
        for i in range(len(c["events"])):
            d = copy.deepcopy(c); del d["events"][i]
            for j, e in enumerate(d["events"]):
                pass
            yield d
        for i, e in enumerate(c["events"]):
            if not is_event(e):
                continue
            for key in ("fail", "null"):
                for j in range(len(e[key])):
                    d = copy.deepcopy(c); del d["events"][i][key][j]; yield d
        if c["async_sub"]:
            d = copy.deepcopy(c); d["async_sub"] = False; yield d
        if c["source"] != "iter":
            d = copy.deepcopy(c); d["source"] = "iter"; yield d
        if any(c["delays"]):
            d = copy.deepcopy(c); d["delays"] = [0] * len(c["delays"]); yield d
        if len(c["sel"]) > 1:
            for i in range(len(c["sel"])):
                d = copy.deepcopy(c); del d["sel"][i]; yield d
    progress = True
    while progress and budget > 0:
        progress = False
        for d in cands(case):
            budget -= 1
            if budget <= 0:
                break
            try:
                s2 = failing(d)
            except Exception:  # noqa
                s2 = None
            if s2 is not None and s2.split(":")[0] == sig.split(":")[0]:
                case, sig, progress = d, s2, True
                break
    return case, sig


def check_cases(ctx, cases):
    reals = []
    for case in cases:
        real = run_confirmed(case, ctx)
        reals.append(real)
        ctx.count()
        ctx.stat("kind=" + (case["refusal"] or "stream"))
        if case["kind"] == "stream":
            ctx.stat("drive=" + (case.get("drive") or "async-for"))
            if any(f in json.dumps(case["sel"]) for f in ('"pet"', '"petu"')):
                ctx.stat("abstract_payload")
        if case["kind"] == "stream":
            ctx.stat("events=%d" % len(case["events"]))
            ctx.stat("async_sub=%s" % case["async_sub"])
            ctx.stat("source=" + case["source"])
            ctx.stat("failing_events=%d" % sum(1 for e in case["events"] if is_event(e) and e["fail"]))
            if any(not is_event(e) for e in case["events"]):
                ctx.stat("falsy_events")
            if case.get("swap") is not None:
                ctx.stat("resolver_re-registered_mid-stream")
            if case["threads"]:
                ctx.stat("thread_offloaded")
        if case["kind"] == "refusal" or len(case["events"]) >= 2:
            ctx.nontrivial(json.dumps(case, sort_keys=True))
        for sig, what in oracle(case, real):
            def failing(c, want=sig.split(":")[0]):
                for s, _w in oracle(c, run_confirmed(c)):
                    if s.split(":")[0] == want:
                        return s
                return None
            seen = ctx.extra.setdefault("_shrunk", {})
            cls = sig.split(":")[0]
            if cls == "hang" or seen.get("n|" + cls, 0) >= 2:      # shrink the first cases of a failure class only (time)
                ctx.fail(seen.get("sig|" + sig, sig), what, {"case": case})
                continue
            seen["n|" + cls] = seen.get("n|" + cls, 0) + 1
            try:
                small, ssig = shrink(case, failing)
            except Exception:  # noqa  (a shrinker problem must never hide the failure it was shrinking)
                small, ssig = case, sig
            seen["sig|" + sig] = ssig or sig
            ctx.fail(ssig or sig, what, {"case": small})
    if not ctx.model_ok:
        return
    answers = ctx.driver.ask([model_request(c) for c in cases])
    for case, real, ans in zip(cases, reals, answers):
        d = compare(case, real, ans)
        if d:
            ctx.fail(d[0], d[1], {"case": case, "real": {k: real[k] for k in ("refused", "results", "pulls")}, "model": ans}, kind="correspondence")


def exhaustive_cases():
    import itertools
    sel = [{"k": "x", "f": "bad", "sel": []}, {"k": "y", "f": "o", "sel": [{"k": "z", "f": "badd", "sel": []}]}]
    out = []
    for pattern in itertools.product(range(4), repeat=3):
        evs = []
        for i, bits in enumerate(pattern):
            fail = (["root/x"] if bits & 1 else []) + (["root/y/z"] if bits & 2 else [])
            evs.append({"id": i, "val": 10 + i, "fail": fail, "null": [], "len": {}})
        out.append({"kind": "stream", "refusal": None, "async_sub": bool(sum(pattern) % 2), "source": "iter" if pattern[0] % 2 else "agen",
                    "threads": False, "sel": copy.deepcopy(sel), "events": evs, "delays": [pattern[0], pattern[1], pattern[2], 0]})
    for r in REFUSALS:
        if r in ("multi-expanded", "zero-fields"):      # need a root spelling: added below
            continue
        for a in (False, True):
            for s in ("iter", "agen"):
                out.append({"kind": "refusal", "refusal": r, "async_sub": a, "source": s, "threads": False, "sel": copy.deepcopy(sel),
                            "events": [{"id": 0, "val": 1, "fail": [], "null": [], "len": {}}], "delays": [0, 0]})
    for r in REFUSALS:
        if r in ("multi-expanded", "zero-fields"):
            continue
        for shared in ("all", "query"):
            if r == "mutation-op" and shared == "query":
                continue          # no mutation root there: InvalidOperationError comes first
            for a in (False, True):
                out.append({"kind": "refusal", "refusal": r, "async_sub": a, "source": "iter", "threads": False, "sel": copy.deepcopy(sel),
                            "events": [{"id": 0, "val": 1, "fail": [], "null": [], "len": {}}], "delays": [0, 0], "shared_root": shared})
    # abstract payloads: the runtime type changes between events (all Dog/Cat sequences of length 3) and inside one event (pals)
    for via in APET:
        asel = [{"k": "p", "f": via, "sel": [{"k": "v1", "f": "voice", "sel": []}, {"k": "v2", "f": "vol", "sel": []},
                                             {"k": "t", "f": "voicet", "sel": []},
                                             {"k": "ps", "f": "pals", "sel": [{"k": "w", "f": "voice", "sel": []}]},
                                             {"k": "m", "f": "pal", "sel": [{"k": "u", "f": "vol", "sel": []}]}]}]
        n = 0
        for seq in itertools.product(SPECIES, repeat=3):
            n += 1
            evs = []
            for i, sp in enumerate(seq):
                other = SPECIES[1 - SPECIES.index(sp)]
                evs.append({"id": i, "val": i, "fail": ["root/p/v2"] if (n + i) % 5 == 0 else [], "null": [], "len": {"root/p/ps": 2},
                            "species": {"root/p": sp, "root/p/ps/0": other, "root/p/ps/1": sp, "root/p/m": other if i % 2 else sp}})
            out.append({"kind": "stream", "refusal": None, "async_sub": bool(n % 2), "source": "iter" if n % 2 else "agen", "threads": False,
                        "sel": copy.deepcopy(asel), "events": evs, "delays": [0, n % 3, 0, 0], "drive": DRIVES[n % len(DRIVES)]})
    # every way of driving the stream x 0..3 events
    for drive in DRIVES:
        for nev in range(4):
            for a in (False, True):
                out.append({"kind": "stream", "refusal": None, "async_sub": a, "source": "agen" if a else "iter", "threads": False,
                            "sel": copy.deepcopy(sel), "delays": [0] * (nev + 1), "drive": drive,
                            "events": [{"id": i, "val": i, "fail": ["root/x"] if i == 1 else [], "null": [], "len": {}} for i in range(nev)]})
    # a resolver MUTATES its list argument (literal / argument default / variable default): every event starts from the written value
    for kind in sorted(ACC_TEXT):
        for a in (False, True):
            out.append({"kind": "stream", "refusal": None, "async_sub": a, "source": "iter", "threads": False, "sel": copy.deepcopy(sel),
                        "delays": [0] * 4, "drive": "anext" if a else "async-for", "acc": kind,
                        "events": [{"id": i, "val": 20 + i, "fail": [], "null": [], "len": {}} for i in range(3)]})
    # a resolver raises ExecutionError while event k is executed: data-null result for event k, the other events unaffected
    for k in range(3):
        for pathk in ("root/x", "root/y/z"):
            for drive in ("async-for", "anext"):
                evs = [{"id": i, "val": 10 + i, "fail": [], "null": [], "len": {}} for i in range(3)]
                evs[k]["abort"] = [pathk]
                out.append({"kind": "stream", "refusal": None, "async_sub": bool(k % 2), "source": SOURCES[k % len(SOURCES)], "threads": False,
                            "sel": copy.deepcopy(sel), "delays": [0] * 4, "drive": drive, "events": evs})
    # a resolver raises StopAsyncIteration while event k is processed: an error of event k, the stream must go on to the source's end
    for nev in (3, 4):
        for k in range(nev):
            for pathk in ("root/x", "root/y/z"):
                evs = [{"id": i, "val": 10 + i, "fail": [], "null": [], "len": {}} for i in range(nev)]
                evs[k]["stop"] = [pathk]
                out.append({"kind": "stream", "refusal": None, "async_sub": bool(k % 2), "source": SOURCES[(k + nev) % len(SOURCES)],
                            "threads": False, "sel": copy.deepcopy(sel), "delays": [0] * (nev + 1), "drive": "anext", "events": evs})
    # an UNEXPECTED exception while processing event c (its __anext__ raises), a sibling field of the same event fails LATER; the
    # consumer keeps reading: the results of the following events must not carry that late error
    csel = [{"k": "x", "f": "ad", "sel": []}, {"k": "y", "f": "badd", "sel": []}, {"k": "z", "f": "a", "sel": []}]
    for nev in (2, 3, 4):
        for c in range(nev - 1):
            for lag in (5, 25):
                evs = []
                for i in range(nev):
                    e = {"id": i, "val": 10 + i, "fail": [], "null": [], "len": {}, "lag": {"root/x": 60, "root/y": 60}}
                    if i == c:
                        e.update({"crash": ["root/x"], "fail": ["root/y"], "lag": {"root/y": lag}})
                    evs.append(e)
                out.append({"kind": "stream", "refusal": None, "async_sub": bool(c % 2), "source": SOURCES[(nev + c) % len(SOURCES)],
                            "threads": False, "sel": copy.deepcopy(csel), "delays": [0] * (nev + 1), "drive": "anext", "events": evs})
    # every flavour of source object x 0..3 events x drive modes
    for kind in SOURCES:
        for nev in range(4):
            for drive in DRIVES:
                out.append({"kind": "stream", "refusal": None, "async_sub": bool(nev % 2), "source": kind, "threads": False,
                            "sel": copy.deepcopy(sel), "delays": [0, 1, 0, 0, 0], "drive": drive,
                            "events": [{"id": i, "val": i, "fail": ["root/x"] if i == 1 else [], "null": [], "len": {}} for i in range(nev)]})
    # FALSY source events (None, 0, "", {}, [], False) at every position of a 3-event stream, and all-falsy streams
    okev = lambda i: {"id": i, "val": 10 + i, "fail": ["root/x"] if i == 1 else [], "null": [], "len": {}}  # noqa
    n = 0
    for fv in FALSY_EVENTS:
        for pos in range(3):
            n += 1
            evs = [okev(i) for i in range(3)]
            evs[pos] = copy.deepcopy(fv)
            out.append({"kind": "stream", "refusal": None, "async_sub": bool(n % 2), "source": "iter" if n % 2 else "agen", "threads": False,
                        "sel": copy.deepcopy(sel), "delays": [0, n % 2, 0, 0], "drive": DRIVES[n % len(DRIVES)], "events": evs})
        out.append({"kind": "stream", "refusal": None, "async_sub": False, "source": "agen", "threads": False, "sel": copy.deepcopy(sel),
                    "delays": [0] * 4, "drive": "async-for", "events": [copy.deepcopy(fv), copy.deepcopy(fv)]})
    out.append({"kind": "stream", "refusal": None, "async_sub": True, "source": "iter", "threads": False, "sel": copy.deepcopy(sel),
                "delays": [0] * 8, "drive": "anext", "events": copy.deepcopy(FALSY_EVENTS)})
    # the resolver of Evt.a is re-registered on the schema between events k and k+1 of an OPEN subscription
    asel = [{"k": "x", "f": "a", "sel": []}, {"k": "y", "f": "o", "sel": [{"k": "z", "f": "a", "sel": []}, {"k": "w", "f": "bad", "sel": []}]}]
    for nev in (2, 3, 4):
        for k in range(nev - 1):
            for a in (False, True):
                out.append({"kind": "stream", "refusal": None, "async_sub": a, "source": "iter" if a else "agen", "threads": False,
                            "sel": copy.deepcopy(asel), "delays": [0] * (nev + 1), "drive": DRIVES[(nev + k) % len(DRIVES)], "swap": k,
                            "events": [{"id": i, "val": 10 + i, "fail": ["root/y/w"] if i == 1 else [], "null": [], "len": {}} for i in range(nev)]})
    # operations with VARIABLES: nothing sent (all declared defaults), each variable alone (every choice), everything sent
    sends = [{}]
    for name, (_t, _l, _d, choices) in VARS.items():
        sends += [{name: c} for c in choices]
    sends.append({name: c[0] for name, (_t, _l, _d, c) in VARS.items()})
    for n, send in enumerate(sends):
        out.append({"kind": "stream", "refusal": None, "async_sub": bool(n % 2), "source": "iter" if n % 2 else "agen", "threads": False,
                    "sel": copy.deepcopy(sel), "delays": [0, 1, 0, 0], "drive": DRIVES[n % len(DRIVES)], "vars": {"send": send},
                    "eager_head": n % 3 == 0,
                    "events": [{"id": i, "val": 10 + i, "fail": ["root/x"] if i == 1 else [], "null": [], "len": {}} for i in range(3)]})
    # every refusal with an EAGER subscription resolver (takes the head of the backlog when called): nothing may be called / taken
    for r in REFUSALS:
        if r in ("multi-expanded", "zero-fields"):
            continue
        for a in (False, True):
            out.append({"kind": "refusal", "refusal": r, "async_sub": a, "source": "iter", "threads": False, "sel": copy.deepcopy(sel),
                        "events": [{"id": 0, "val": 1, "fail": [], "null": [], "len": {}}], "delays": [0, 0], "eager_head": True})
    ev0 = {"id": 0, "val": 1, "fail": [], "null": [], "len": {}}
    ev1 = {"id": 1, "val": 2, "fail": ["root/x"], "null": [], "len": {}}

    def fr(style, *nodes):
        return {"frag": list(nodes), "style": style}

    def lf(x):
        return {"leaf": x}
    multi = [[fr("spread", lf("R"), lf("O2"))], [fr("inline", lf("R"), lf("O"))], [fr("inline-untyped", lf("O2"), lf("R"))],
             [fr("spread", lf("R"), fr("spread", lf("O2")))], [fr("spread", fr("inline", lf("R")), fr("spread", lf("O")))],
             [lf("R"), fr("spread", lf("O2"))], [lf("R"), lf("O2")], [lf("R"), lf("R"), lf("O")],
             [fr("inline", lf("R"), lf("Os"), lf("O2"))]]
    single = [[lf("R"), lf("R")], [fr("spread", lf("R"))], [fr("inline", lf("R"))], [fr("inline-untyped", lf("R"), lf("R"))],
              [fr("spread", fr("spread", lf("R")))], [lf("Ra"), lf("Rb")], [fr("spread", lf("Ra")), lf("Rb")], [lf("R"), lf("Os")],
              [fr("spread", lf("Os"), lf("R")), lf("R")]]
    zero = [[lf("Rs")], [fr("spread", lf("Rs"), lf("Os"))]]
    for a in (False, True):
        for root in multi:
            out.append({"kind": "refusal", "refusal": "multi-expanded", "async_sub": a, "source": "iter", "threads": False,
                        "sel": copy.deepcopy(sel), "events": [copy.deepcopy(ev0)], "delays": [0, 0], "root": copy.deepcopy(root)})
        for root in zero:
            out.append({"kind": "refusal", "refusal": "zero-fields", "async_sub": a, "source": "agen", "threads": False,
                        "sel": copy.deepcopy(sel), "events": [copy.deepcopy(ev0)], "delays": [0, 0], "root": copy.deepcopy(root)})
        for root in single:
            out.append({"kind": "stream", "refusal": None, "async_sub": a, "source": "iter" if a else "agen", "threads": False,
                        "sel": copy.deepcopy(sel), "events": [copy.deepcopy(ev0), copy.deepcopy(ev1), copy.deepcopy(ev0)],
                        "delays": [0, 1, 0, 0], "root": copy.deepcopy(root)})
    return out


def corpus_cases():
    from common import CORPUS
    d = CORPUS / PROPERTY
    return [json.loads(f.read_text())["case"] for f in sorted(d.glob("*.json"))] if d.exists() else []


def fault_sequences_stage(ctx, only=None):
    """
    FAULT SEQUENCES (deterministic block, every run): sources of length <= 3 over {clean event, event with a ResolverError
    at root.x, event that CRASHES (unexpected ValueError at root.y after root.x recorded a ResolverError), the SOURCE raising
    from __anext__}, all 84 sequences, asyncio runtime, a consumer that keeps calling `__anext__()` after an exception.
    Correspondence: the pulls (result / raised, data, error paths, number of source pulls) against `XStream.drain`
    (SubscribeFaults.lean; theorems `faults_do_not_leak`, `one_pull_per_item`). Direct oracle = the statement: one result
    per surviving event, in order, each carrying only errors raised while processing ITS event (messages are tagged with
    the event's position in the source) and equal to what a single-event subscription of that event yields.
    """
    import itertools
    from py_gql import build_schema
    from py_gql.exc import ResolverError
    from py_gql.execution import subscribe
    from py_gql.execution.runtime import AsyncIORuntime
    from py_gql.lang import parse

    class SourceBoom(Exception):
        pass

    KINDS = ("ok", "fail", "crash", "raise")

    def make(seq):
        schema = build_schema("type R { x: Int y: Int } type Query { a: Int } type Subscription { root: R }")
        pulls = [0]

        class Src:
            def __init__(self):
                self.i = 0

            def __aiter__(self):
                return self

            async def __anext__(self):
                pulls[0] += 1
                if self.i >= len(seq):
                    raise StopAsyncIteration
                pos, kind = seq[self.i]
                self.i += 1
                if kind == "raise":
                    raise SourceBoom("source@%d" % pos)
                return {"root": {"pos": pos, "kind": kind}}

        def res_x(root, c, info):
            if root["kind"] in ("fail", "crash"):
                raise ResolverError("fail@%d" % root["pos"])
            return 10 + root["pos"]

        def res_y(root, c, info):
            if root["kind"] == "crash":
                raise ValueError("crash@%d" % root["pos"])
            return 20 + root["pos"]
        schema.register_resolver("R", "x", res_x)
        schema.register_resolver("R", "y", res_y)
        schema.register_subscription("Subscription", "root", lambda *a, **k: Src())
        return schema, pulls

    def drive(seq):
        loop = asyncio.new_event_loop()
        try:
            schema, pulls = make(seq)

            async def main():
                out = []
                stream = await subscribe(schema, parse("subscription { root { x y } }"),
                                         runtime=AsyncIORuntime(loop=loop, execute_blocking_functions_in_thread=False))
                for _ in range(len(seq) + 2):
                    try:
                        r = await stream.__anext__()
                    except StopAsyncIteration:
                        out.append("stop")
                        break
                    except (SourceBoom, ValueError):
                        out.append("raised")
                        continue
                    out.append({"data": r.data, "errors": [[str(x) for x in (e.path or [])] for e in r.errors],
                                "messages": [e.message for e in r.errors]})
                return out, pulls[0]
            return loop.run_until_complete(asyncio.wait_for(main(), 20))
        finally:
            loop.close()

    def model_item(kind):
        def ev(xfail, with_y):
            fs = [{"k": "x", "o": "raise" if xfail else "ok", "c": {"t": "leaf", "v": 0}}]
            if with_y:
                fs.append({"k": "y", "o": "ok", "c": {"t": "leaf", "v": 0}})
            return [{"k": "root", "o": "ok", "c": {"t": "obj", "fs": fs}}]
        if kind == "raise":
            return {"t": "raise"}
        if kind == "crash":
            return {"t": "crash", "e": ev(True, False)}      # the part executed before the crash: root.x raised ResolverError
        return {"t": "ev", "e": ev(kind == "fail", True)}

    def shape(d):        # the model's leaves carry no values: compare null-ness and keys
        if isinstance(d, dict):
            return {k: shape(v) for k, v in d.items()}
        return None if d is None else 0

    seqs = [list(t) for n in (1, 2, 3) for t in itertools.product(KINDS, repeat=n)]
    if only is not None:
        seqs = [only]
    reqs, reals = [], []
    reported = set()
    for kinds in seqs:
        seq = list(enumerate(kinds))
        try:
            got, npulls = drive(seq)
        except Exception as err:  # noqa
            ctx.fail("c17:faults:internal:%s" % type(err).__name__, "fault sequence %s: %s: %s" % (kinds, type(err).__name__, err),
                     {"probe": "fault-sequences", "only": kinds})
            continue
        ctx.count()
        ctx.nontrivial(("faults",) + tuple(kinds))
        ctx.stat("fault-sequences")
        # direct oracle
        expect_kinds = ["result" if k in ("ok", "fail") else "raised" for k in kinds] + ["stop"]
        got_kinds = ["result" if isinstance(g, dict) else g for g in got]
        bad = None
        if got_kinds != expect_kinds:
            bad = ("result-sequence", "consumer saw %s, expected %s" % (got_kinds, expect_kinds))
        else:
            for pos, (k, g) in enumerate(zip(kinds, got)):
                if not isinstance(g, dict):
                    continue
                foreign = [m for m in g["messages"] if not m.endswith("@%d" % pos)]
                if foreign:
                    bad = ("foreign-errors", "result of event %d carries errors of another event: %s" % (pos, foreign))
                    break
                single, _ = drive([(pos, k)])
                if single[0] != g:
                    bad = ("kth-result", "result of event %d is %s, a single-event subscription of that event yields %s" % (pos, g, single[0]))
                    break
        if bad:
            if bad[0] not in reported:        # sequences come shortest first: the first one of a class is minimal
                reported.add(bad[0])
                ctx.fail("c17:faults:%s:%s" % (bad[0], "+".join(sorted(set(kinds)))), "source %s: %s" % (kinds, bad[1]),
                         {"probe": "fault-sequences", "only": kinds})
            continue
        reqs.append({"op": "faults", "items": [model_item(k) for k in kinds]})
        reals.append((kinds, got, npulls))
    if ctx.model_ok and reqs:
        for (kinds, got, npulls), ans in zip(reals, ctx.driver.ask(reqs)):
            mod = ans.get("pulls", [])
            real = [({"data": shape(g["data"]), "errors": g["errors"]} if isinstance(g, dict) else g) for g in got if g != "stop"]
            modc = [({"data": shape(m["data"]), "errors": [[str(x) for x in p] for p in m["errors"]]} if isinstance(m, dict) else m) for m in mod]
            if real != modc or ans.get("source_pulls") != npulls:
                ctx.fail("corr:faults:%s" % "+".join(sorted(set(kinds))),
                         "fault sequence %s: real %s (%d source pulls), model %s (%s source pulls)" % (kinds, real, npulls, modc, ans.get("source_pulls")),
                         {"probe": "fault-sequences", "only": kinds}, kind="correspondence")
    ctx.extra["fault_sequences"] = ctx.extra.get("fault_sequences", 0) + len(seqs)


def stages(ctx):
    """The stages of the check, each under the wall-clock backstop of C08_world.run_stages: the per-case bounds of this check
    are PROGRESS based (loop spins), so a tree that blocks the calling thread inside one loop iteration (a `Future.result()`
    on the loop's thread, a lock) would otherwise hold the check until the framework's time-out. Such a stage yields
    `c17:never-completes:stage:<name>` and the check finishes."""
    cases = corpus_cases() + exhaustive_cases()

    def exhaustive():
        ctx.extra["exhaustive_block_cases"] = len(cases)
        check_cases(ctx, cases)

    def random_cases():
        n = ctx.n(600, 8000)
        batch = []
        for i in range(n):
            if ctx.time_left() < 15:
                ctx.notes.append("stopped generation early after %d random cases (time budget)" % i)
                break
            batch.append(gen_case(ctx.rng))
            if len(batch) >= 300:
                check_cases(ctx, batch)
                batch = []
        if batch:
            check_cases(ctx, batch)
        c = cases[5]
        ctx.sample({"document": documents(c)[0], "events": c["events"], "results": run_real(c)["results"]})

    return [("fault-sequences", lambda: fault_sequences_stage(ctx)),
            ("exhaustive", exhaustive),
            ("random", random_cases)]


def run(ctx, replaying=None):
    from corr import C08_world as W08
    try:
        W08.run_stages(ctx, "C17", stages(ctx), replaying=replaying)
    finally:
        _cleanup(ctx)


def _cleanup(ctx):
    ctx.extra.pop("_shrunk", None)
    ctx.extra.pop("_confirmed_hangs", None)


def replay(ctx, data):
    if data.get("input", {}).get("probe") == "stage":
        before = len(ctx.found)
        run(ctx, replaying=data["input"].get("stage"))
        return len(ctx.found) == before
    if data.get("input", {}).get("probe") == "fault-sequences":
        before = len(ctx.found)
        fault_sequences_stage(ctx, only=data["input"].get("only"))
        return len(ctx.found) == before
    case = data.get("input", {}).get("case")
    if case is None:
        return True
    return not oracle(case, run_confirmed(case))

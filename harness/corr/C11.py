# -*- coding: utf-8 -*-
"""
C11 — schemas built from SDL contain exactly what the SDL declares.

Direct oracle (independent of the Lean model): a generated declared content `D` is split
arbitrarily into definitions + `extend` blocks, permuted and rendered; `build_schema` must
succeed and the canonical dump of the result must equal the dump of `D` (known by
construction; default literals coerced by the reference coercion `gen.sdl.ref_coerce`).
Hand-written corpus documents are checked against the specification fold `gen.sdl.declared`.
Labelled invalid documents must be rejected with a library schema/SDL error.

Correspondence: the document parsed by the real parser is converted to the small
SDL-definition AST and sent to the Lean model (`PyGqlModel/Sdl.lean: build`); outcomes
(accept / reject / internal) and the canonical dumps must agree.
"""
import contextlib
import itertools
import json

from canon_schema import dump_schema


def canon(d):
    """Canonical text of a dump that keeps CODE POINTS apart: with ensure_ascii an astral character and the two lone
    surrogates its escape is (wrongly) decoded into would both be written as the same \\ud83d\\ude00."""
    return json.dumps(d, sort_keys=True, ensure_ascii=False)

from common import CORPUS
from gen import sdl
from corr import C11_extend
from corr import C11_additional
from corr import C11_inprogress

PROPERTY = "C11"
RULE = ("generated type-system documents: declared content (6 kinds, wrappers, defaults of every input kind, descriptions, "
        "deprecations, custom directives + applications, schema block / default roots, recursive inputs) split arbitrarily over "
        "extend blocks; ALL definition orders for documents of <=4 definitions, sampled orders otherwise; ignore_extensions on/off; "
        "additional_types; 38 labelled single-defect invalid documents; the public extend_schema(build(A), B, strict): generated B (new types, "
        "extensions of old and new types in every order) and a deterministic block of 36 named extension documents x strict/lax (one per "
        "branch of _collect_extensions and per rejection of the extension pass); 39 named additional_types probes (override, last-wins, transitive "
        "closure, specified-name shadowing, extension blocks of supplied types; corr/C11_additional.py); schema directives counted per element "
        "(build_schema and the two-phase build on one Document); 20 named in-progress probes + a targeted stream of mutually recursive input "
        "objects with defaults and extensions, and every batch document, against the exact model of the in-progress bookkeeping "
        "(corr/C11_inprogress.py). non-trivial = distinct document text that was built (>=2 definitions) or rejected after parsing")
ASSUMPTIONS = [
    "type registry and directive registry are compared as sets (sorted by name): the property does not state an order of schema.types",
    "only the class of a rejection is compared (library schema/SDL/syntax error vs anything else), never messages",
    "additional_types are closed: they reference only built-in scalars or other supplied types; a supplied scalar parses literals as the "
    "stand-in scalar does; python_name == name. Outside the model (measured, probe supplied-default-completed-by-other-extension, covered by the "
    "exact model buildP): the stored default VALUES of a supplied type's own fields are completed when ANOTHER supplied input object is extended; "
    "a default written in `extend input <supplied>` that needs a field which another `extend input <supplied>` block adds",
    "exact model buildP (SdlInProgress.lean): the retry of `_default_value` for a default written in an extension block is evaluated by name over "
    "the extended types unless it touches a type in progress; no theorem is about buildP, it is the executable reference for the shapes the "
    "theorems exclude (SelfDefaults / Props/C11_hide.lean)",
    "schema validation (Schema.validate, property C13) is a parameter of the model: documents rejected by validation only are "
    "compared on the builder's result with validation disabled",
    "default literals have acyclic default dependencies (finding S1b otherwise)",
    "'the specification's type-system rules' are those of the June 2018 edition, whose grammar the parser implements (no `repeatable`, no "
    "`interface … implements`, no schema description): the October 2021 rule against input objects that reference themselves through "
    "non-null fields only (`input A { a: A! }`, hunt3 C11/5) is not one of them and such documents are expected to build",
    "public extend_schema: the roots of the schema being extended are KEPT and only `extend schema` adds roots — a new type named Mutation / "
    "Subscription does not become a root (Lean: extend_roots_not_rederived); the generated extension documents use other names, and the "
    "expected content of extend_schema(build(A), B) is the content declared by A followed by B",
    "documents are given as text (str / bytes) or as the parser's output; hand-built Document objects that the grammar cannot produce "
    "(`on FOO`, `Int!!`, an operation kind other than query / mutation / subscription; hunt3 C11/4) are measured every run and recorded as a "
    "known finding",
]
TRUSTED = [
    "gen/sdl.py: ref_coerce (reference literal coercion), declared (specification fold in Python), doc_json (AST -> wire format)",
    "float()/repr() of float literals are computed in Python and shipped with the literal (`f`)",
    "public extend_schema: the live types of the schema being extended are represented in the model by the merged SDL definitions they "
    "were built from (schemas assembled from Python objects are outside the model); `_collect_extensions` is also read directly "
    "(private function) to compare WHAT it keeps with the model's collectExtensions",
]
EXPLANATION = ("model = Sdl.lean (collect, build, extend, type map closure) + SdlAdditional.lean (buildA: what the builder does with "
               "additional_types; the driver's `build`) + SdlExtend.lean (public extend_schema: _collect_extensions strict/lax, new definitions, "
               "roots kept) + SdlInProgress.lean (buildP: the extension pass with the real _extended_cache / _in_progress bookkeeping, driver op "
               "`build_p`); spec = Spec/SdlSpec.lean (Declared, SdlValid), Props/C11_additional.lean (DeclaredWith)")


# ---------------------------------------------------------------------------

def _classes():
    from py_gql.exc import GraphQLSyntaxError, SchemaError, SDLError
    return (SDLError, SchemaError, GraphQLSyntaxError)


def _coarse(e):
    from py_gql.exc import GraphQLSyntaxError, SchemaError, SchemaValidationError, SDLError
    if isinstance(e, GraphQLSyntaxError):
        return "syntax"
    if isinstance(e, SchemaValidationError):
        return "validation"
    if isinstance(e, SchemaError):
        return "schema"
    if isinstance(e, SDLError):
        return "sdl"
    return None


@contextlib.contextmanager
def no_validation():
    from py_gql.schema import Schema
    orig = Schema.validate
    Schema.validate = lambda self: None
    try:
        yield
    finally:
        Schema.validate = orig


def real_build(text, ignore_extensions=False, additional=None, validate=True):
    """('ok', dump) | ('rej', coarse class, ClassName) | ('exc', 'internal:<Class>')"""
    from py_gql import build_schema
    try:
        if validate:
            s = build_schema(text, ignore_extensions=ignore_extensions, additional_types=additional)
        else:
            with no_validation():
                s = build_schema(text, ignore_extensions=ignore_extensions, additional_types=additional)
        return ("ok", dump_schema(s, sort=True))
    except _classes() as e:
        return ("rej", _coarse(e), type(e).__name__)
    except RecursionError:
        return ("exc", "internal:RecursionError")
    except Exception as e:  # noqa
        return ("exc", "internal:" + type(e).__name__)


def diff_path(a, b, path=""):
    """First differing path between two dumps with indices/names abstracted (the failure class)."""
    if type(a) != type(b):
        return path
    if isinstance(a, dict):
        for k in sorted(a):
            if a.get(k) != b.get(k):
                kind = ("(%s)" % a["kind"]) if path.endswith("types[]") and "kind" in a else ""
                return diff_path(a.get(k), b.get(k), path + kind + "." + k)
        return path + ".<keys>"
    if isinstance(a, list):
        if len(a) != len(b):
            return path + "[].<len%s>" % ("+" if len(b) > len(a) else "-")
        for x, y in zip(a, b):
            if x != y:
                return diff_path(x, y, path + "[]")
    return path


def features(items):
    f = set()
    for it in items:
        if it["k"] == "ext":
            f.add("ext")
            f.add("ext-" + it["kind"])
        if it["k"] in ("schema", "schema_ext"):
            f.add(it["k"])
    return f


# ---------------------------------------------------------------------------
# additional types
# ---------------------------------------------------------------------------

def additional_for(ctx, D, items):
    """(live additional types, declared content with the supplied implementations substituted, wire descriptions)."""
    from py_gql.schema import EnumType
    import copy
    D2 = copy.deepcopy(D)
    extended = {i["name"] for i in items if i["k"] == "ext"}
    enums = [t for t in D2["types"] if t["kind"] == "enum" and t["name"] not in extended]
    if not enums:
        return None
    t = ctx.rng.choice(enums)
    # the supplied implementation has internal (Python) values; the document's definition is overridden by it
    vals = [(v["name"], 100 + i) for i, v in enumerate(t["values"])]
    live = EnumType(t["name"], vals, description="supplied")
    t["desc"] = "supplied"
    for i, v in enumerate(t["values"]):
        v["value"] = 100 + i
        v["deprecated"] = None
        v["desc"] = None
    wire = [{"kind": "enum", "name": t["name"], "desc": "supplied", "interfaces": [], "fields": [], "members": [], "input_fields": [],
             "values": [{"name": n, "value": v, "deprecated": None, "desc": None} for n, v in vals]}]
    return [live], D2, wire, t["name"]


def _named(n):
    return {"k": "named", "n": n}


INJECTED_WIRE = [
    {"kind": "scalar", "name": "InjS", "desc": "injected scalar", "interfaces": [], "fields": [], "members": [], "values": [], "input_fields": []},
    {"kind": "enum", "name": "InjE", "desc": None, "interfaces": [], "fields": [], "members": [], "input_fields": [],
     "values": [{"name": "IV0", "value": 10, "deprecated": None, "desc": None}, {"name": "IV1", "value": 11, "deprecated": None, "desc": None}]},
    {"kind": "input", "name": "InjI", "desc": "injected input", "interfaces": [], "fields": [], "members": [], "values": [],
     "input_fields": [{"name": "a", "type": _named("Int"), "has_default": True, "default_value": 1, "desc": None},
                      {"name": "e", "type": _named("InjE"), "has_default": False, "default_value": None, "desc": None}]},
    {"kind": "object", "name": "InjO", "desc": None, "interfaces": [], "members": [], "values": [], "input_fields": [],
     "fields": [{"name": "x", "type": _named("Int"), "args": [], "deprecated": None, "desc": None},
                {"name": "e", "type": _named("InjE"), "args": [], "deprecated": "gone", "desc": None}]},
]


def injected_for(ctx, D, items):
    """Types supplied through `additional_types`, NOT declared in the document and referenced ONLY from `extend` blocks
    (field types, argument types, defaults that must be coerced with the injected enum / input object).
    -> (live types, items + the extension blocks, declared content, wire descriptions)"""
    import copy
    q = D["query"]
    ext_fields = [
        {"name": "inj", "desc": None, "type": _named("InjO"), "dirs": [],
         "args": [{"name": "i", "desc": None, "type": _named("InjI"), "dirs": [],
                   "default": {"k": "obj", "fs": [{"name": "e", "value": {"k": "enum", "v": "IV1"}}]}},
                  {"name": "s", "desc": None, "type": _named("InjS"), "default": None, "dirs": []},
                  {"name": "e", "desc": None, "type": {"k": "nonNull", "t": _named("InjE")}, "default": {"k": "enum", "v": "IV0"}, "dirs": []}]},
        {"name": "injs", "desc": None, "type": {"k": "list", "t": {"k": "nonNull", "t": _named("InjS")}}, "args": [], "dirs": []},
    ]
    blocks = [{"k": "ext", "kind": "object", "name": q, "desc": None, "interfaces": [], "fields": ext_fields, "members": [], "values": [],
               "input_fields": [], "dirs": []}]
    inputs = [t for t in D["types"] if t["kind"] == "input"]
    if inputs and ctx.rng.random() < 0.6:
        t = ctx.rng.choice(inputs)
        blocks.append({"k": "ext", "kind": "input", "name": t["name"], "desc": None, "interfaces": [], "fields": [], "members": [], "values": [],
                       "input_fields": [{"name": "injected", "desc": None, "type": _named("InjI"), "default": None, "dirs": []}], "dirs": []})
    items2 = items + blocks
    # declared content: the document's own content + the supplied types (as the library would dump them)
    D2 = sdl.declared(items2)
    D2["types"] += [
        {"kind": "scalar", "name": "InjS", "desc": "injected scalar", "interfaces": [], "fields": [], "members": [], "values": []},
        {"kind": "enum", "name": "InjE", "desc": None, "interfaces": [], "fields": [], "members": [],
         "values": [{"name": "IV0", "value": 10, "deprecated": None, "desc": None}, {"name": "IV1", "value": 11, "deprecated": None, "desc": None}]},
        {"kind": "input", "name": "InjI", "desc": "injected input", "interfaces": [], "members": [], "values": [],
         "fields": [{"name": "a", "type": ("named", "Int"), "default": "1", "desc": None}, {"name": "e", "type": ("named", "InjE"), "default": None, "desc": None}]},
        {"kind": "object", "name": "InjO", "desc": None, "interfaces": [], "members": [], "values": [],
         "fields": [{"name": "x", "type": ("named", "Int"), "args": [], "deprecated": None, "desc": None},
                    {"name": "e", "type": ("named", "InjE"), "args": [], "deprecated": "gone", "desc": None}]},
    ]
    return _live_additional(INJECTED_WIRE), items2, D2, copy.deepcopy(INJECTED_WIRE)


# ---------------------------------------------------------------------------

class Batch:
    """Collects (document, flags, real outcome) for the model correspondence."""

    def __init__(self):
        self.cases = []

    def add(self, text, items, real, flags=None, wire_additional=None):
        self.cases.append({"text": text, "items": items, "real": real, "flags": flags or {}, "additional": wire_additional or []})


def check_valid(ctx, batch, text, items, expected, what, flags=None, additional=None, wire_additional=None, alt_expected=None):
    kw = dict(flags or {})
    real = real_build(text, additional=additional, **kw)
    batch.add(text, items, real, kw, wire_additional)
    ctx.count()
    ctx.stat("valid:" + real[0])
    detail = {"sdl": text, "flags": kw, "mode": what, "additional": wire_additional or []}
    if real[0] == "ok":
        if canon(real[1]) != canon(expected):
            # since fix C14-T15 every default is evaluated in the EXTENDED types: a value over the un-extended
            # types in the built schema is a plain mismatch again
            p = diff_path(expected, real[1])
            ctx.fail("content-mismatch:%s:%s" % (what, p), "built schema differs from the declared content at " + p,
                     dict(detail, expected=expected, got=real[1]))
            return False
        return True
    if real[0] == "rej":
        # what is left of S8: a default written in a DEFINITION which needs a member that only an `extend` block of
        # the same document declares is refused by the first pass (build_schema_ignoring_extensions)
        if alt_expected is not None and real[1] == "sdl":
            ctx.fail("S8:default-coerced-against-unextended-type",
                     "a default value written in a definition is coerced against the un-extended type definitions", detail)
            return False
        ctx.fail("valid-rejected:%s:%s" % (what, real[2]), "valid document rejected with " + real[2], detail)
    else:
        ctx.fail("%s:valid:%s" % (real[1], what), "valid document raises " + real[1], detail)
    return False


def base_incomplete(items):
    """Without its extensions the document is not a valid schema (some composite type has no members, or a root is missing)."""
    D = sdl.declared(items, base_only=True)
    for t in D["types"]:
        if t["kind"] in ("object", "interface", "input") and not t["fields"]:
            return True
        if t["kind"] == "union" and not t["members"]:
            return True
        if t["kind"] == "enum" and not t["values"]:
            return True
    names = {t["name"] for t in D["types"]}
    full = sdl.declared(items)
    for t in D["types"]:
        # interface implemented through an extension only / fields required by an interface added by extension
        pass
    return D["query"] is None or any(D[k] is not None and D[k] not in names for k in ("query", "mutation", "subscription")) or \
        _iface_gap(D)


def _iface_gap(D):
    by = {t["name"]: t for t in D["types"]}
    for t in D["types"]:
        if t["kind"] == "object":
            have = {f["name"] for f in t["fields"]}
            for i in t["interfaces"]:
                if i in by and any(f["name"] not in have for f in by[i]["fields"]):
                    return True
    return False


def run_generated(ctx, batch):
    n_docs = ctx.n(500, 4000)
    for k in range(n_docs):
        if ctx.time_left() < 18:
            ctx.notes.append("generated documents cut short by the time budget at %d" % k)
            break
        size = ctx.rng.choice([1, 1, 2, 2, 3])
        s8_safe = ctx.rng.random() < 0.6
        D, items = sdl.gen_doc(ctx.rng, size=size, p_ext=ctx.rng.choice([0.0, 0.3, 0.6, 0.9]), s8_safe=s8_safe)
        expected = sdl.expected_dump(D)
        alt = None
        if not s8_safe:
            try:
                sdl.expected_dump(sdl.declared(items, base_only=True))
            except sdl.Invalid:
                alt = "invalid-over-base"    # a default literal of a DEFINITION needs a member that only an extension declares
        feats = features(items)
        for f in feats:
            ctx.stat("feature:" + f)
        ctx.stat("definitions:%d" % min(len(items), 12))
        # definition orders
        if len(items) <= 4:
            orders = [list(p) for p in itertools.permutations(range(len(items)))]
            ctx.stat("orders:exhaustive")
        else:
            orders = [list(range(len(items)))] + [None] * ctx.n(3, 6)
            ctx.stat("orders:sampled")
        first_text = None
        for o in orders:
            its = sdl.permute(ctx.rng, items) if o is None else sdl.reorder(items, o)
            text = sdl.render(its)
            if first_text is None:
                first_text = text
            ok = check_valid(ctx, batch, text, its, expected, "build" if alt is None else "build-s8", alt_expected=alt)
            if "ext" in feats or len(its) > 1:
                ctx.nontrivial(text)
            if not ok:
                break
        # ignore_extensions
        its = sdl.permute(ctx.rng, items)
        text = sdl.render(its)
        baseD = sdl.declared(its, base_only=True)
        real = real_build(text, ignore_extensions=True)
        batch.add(text, its, real, {"ignore_extensions": True})
        ctx.count()
        ctx.stat("ignore_extensions:" + real[0])
        detail = {"sdl": text, "flags": {"ignore_extensions": True}, "mode": "ignore_extensions"}
        try:
            exp = sdl.expected_dump(baseD)
        except sdl.Invalid:
            exp = None        # the definitions alone are not a valid document (a default needs an extension's member)
        if real[0] == "ok":
            if exp is not None and canon(real[1]) != canon(exp):
                p = diff_path(exp, real[1])
                ctx.fail("content-mismatch:ignore_extensions:" + p, "ignore_extensions=True: result differs from the definitions alone at " + p,
                         dict(detail, expected=exp, got=real[1]))
        elif real[0] == "rej":
            if exp is not None and not base_incomplete(its):
                ctx.fail("valid-rejected:ignore_extensions:" + real[2], "definitions alone are valid but rejected", detail)
        else:
            ctx.fail(real[1] + ":ignore_extensions", "ignore_extensions=True raises " + real[1], detail)
        # additional_types
        if s8_safe and ctx.rng.random() < 0.5:
            add = additional_for(ctx, D, items)
            if add:
                live, D2, wire, _ = add
                try:
                    exp2 = sdl.expected_dump(D2)
                except sdl.Invalid:
                    exp2 = None
                if exp2 is not None:
                    its = sdl.permute(ctx.rng, items)
                    check_valid(ctx, batch, sdl.render(its), its, exp2, "additional_types", additional=live, wire_additional=wire)
        # supplied types that only the extension blocks refer to
        if s8_safe and ctx.rng.random() < 0.4:
            live, items2, D3, wire = injected_for(ctx, D, items)
            try:
                exp3 = sdl.expected_dump(D3)
            except sdl.Invalid:
                exp3 = None
            if exp3 is not None:
                its = sdl.permute(ctx.rng, items2)
                ctx.stat("additional_types:referenced-from-extensions-only")
                check_valid(ctx, batch, sdl.render(its), its, exp3, "additional_types-ext-only", additional=live, wire_additional=wire)
        if k < 2:
            ctx.sample({"sdl": first_text[:1500], "definitions": len(items)})


# ---------------------------------------------------------------------------
# extend_schema(base, doc): a document that DEFINES new types / directives and EXTENDS old and new ones
# ---------------------------------------------------------------------------

def real_extend(base_text, ext_text, strict):
    from py_gql import build_schema
    from py_gql.sdl import extend_schema
    try:
        base = build_schema(base_text)
    except Exception as e:  # noqa
        return ("base", type(e).__name__)
    try:
        s = extend_schema(base, ext_text, strict=strict)
        return ("ok", dump_schema(s, sort=True))
    except _classes() as e:
        return ("rej", _coarse(e), type(e).__name__)
    except RecursionError:
        return ("exc", "internal:RecursionError")
    except Exception as e:  # noqa
        return ("exc", "internal:" + type(e).__name__)


def extension_doc(rng, D):
    """(items of a document B for `extend_schema(build(A), B)`, declared content of A followed by B).
    B defines new types and a new directive and extends both the NEW types and types of A."""
    import copy
    D2 = copy.deepcopy(D)
    int_ty, q = {"k": "named", "n": "Int"}, D["query"]

    def tdef(kind, name, **kw):
        d = {"k": "type", "kind": kind, "name": name, "desc": kw.pop("desc", None), "interfaces": [], "fields": [], "members": [], "values": [],
             "input_fields": [], "dirs": []}
        d.update(kw)
        return d

    def fld(name, ty, args=()):
        return {"name": name, "desc": None, "args": list(args), "type": ty, "dirs": []}

    def iv(name, ty):
        return {"name": name, "desc": None, "type": ty, "default": None, "dirs": []}

    def named(n):
        return {"k": "named", "n": n}
    B = [
        tdef("enum", "NewE", values=[{"name": "N0", "desc": None, "dirs": []}], desc="new enum"),
        dict(tdef("enum", "NewE", values=[{"name": "N1", "desc": None, "dirs": []}]), k="ext"),
        tdef("input", "NewI", input_fields=[iv("x", int_ty)]),
        dict(tdef("input", "NewI", input_fields=[iv("e", named("NewE")), iv("self", named("NewI"))]), k="ext"),
        tdef("object", "NewT", fields=[fld("a", int_ty)]),
        dict(tdef("object", "NewT", fields=[fld("b", {"k": "list", "t": named("NewT")}), fld("q", named(q))]), k="ext"),
        dict(tdef("object", "NewT", fields=[fld("c", named("NewE"), [iv("i", named("NewI"))])]), k="ext"),
        tdef("union", "NewU", members=["NewT"]),
        dict(tdef("union", "NewU", members=[q]), k="ext"),
        {"k": "directive", "name": "newd", "desc": None, "args": [iv("a", named("NewE"))], "locations": ["FIELD"]},
        dict(tdef("object", q, fields=[fld("nt", named("NewT")), fld("nu", named("NewU"), [iv("i", named("NewI"))])]), k="ext"),
    ]
    if rng.random() < 0.5:
        B.append(dict(tdef("object", q, fields=[fld("ne", {"k": "nonNull", "t": named("NewE")})]), k="ext"))
    B = sdl.permute(rng, B)
    both = sdl.declared(sdl.items_of_content(D) + B)
    return B, both


EXT_CASES = []      # generated extend_schema cases for the model of the public extend_schema (corr/C11_extend.py)


def run_extend(ctx, batch):
    del EXT_CASES[:]
    n = ctx.n(40, 300)
    for k in range(n):
        if ctx.time_left() < 14:
            ctx.notes.append("extend_schema cases cut short at %d" % k)
            break
        D, items = sdl.gen_doc(ctx.rng, size=ctx.rng.choice([1, 2]), p_ext=ctx.rng.choice([0.0, 0.4]))
        a_items = sdl.permute(ctx.rng, items)
        a_text = sdl.render(a_items)
        B, both = extension_doc(ctx.rng, D)
        try:
            expected = sdl.expected_dump(both)
        except sdl.Invalid:
            continue
        outcomes = set()
        for trial in range(ctx.n(3, 5)):
            order = sdl.permute(ctx.rng, B)
            if trial == 0:
                # every extension block BEFORE the definition it extends
                order = [i for i in order if i["k"] == "ext"] + [i for i in order if i["k"] != "ext"]
            b_text = sdl.render(order)
            strict = bool(ctx.rng.random() < 0.5)
            real = real_extend(a_text, b_text, strict)
            ctx.count()
            ctx.nontrivial(("extend", a_text, b_text))
            first_ext = next((j for j, i in enumerate(order) if i["k"] == "ext" and i["name"].startswith("New")), 99)
            first_def = next((j for j, i in enumerate(order) if i["k"] == "type" and i["name"].startswith("New")), 99)
            ctx.stat("extend_schema:%s:%s" % ("extension-first" if first_ext < first_def else "definition-first", real[0]))
            detail = {"base_sdl": a_text, "ext_sdl": b_text, "strict": strict, "expected": expected}
            if real[0] == "base":
                break
            EXT_CASES.append({"real": real, "detail": {"base_sdl": a_text, "ext_sdl": b_text, "strict": strict},
                              "req": {"op": "extend", "doc": a_items, "ext": order, "strict": strict}})
            if real[0] == "ok":
                batch.add(a_text + "\n" + b_text, sdl.items_of_content(D) + order, real, {})
                if canon(real[1]) != canon(expected):
                    pth = diff_path(expected, real[1])
                    ctx.fail("extend-schema:content-mismatch:" + pth, "extend_schema(build(A), B) differs from the content declared by A and B at " + pth,
                             dict(detail, got=real[1]))
            elif real[0] == "rej":
                ctx.fail("extend-schema:valid-rejected:%s:%s" % (real[2], "extension-first" if first_ext < first_def else "any-order"),
                         "a valid extension document is rejected with " + real[2], detail)
            else:
                ctx.fail("extend-schema:%s" % real[1], "extend_schema raises " + real[1], detail)
            outcomes.add(canon(real[1]) if real[0] == "ok" else str(real))
        if len(outcomes) > 1:
            ctx.stat("extend_schema:order-dependent")
        # hunt3 C11/1: the extension document defines the same NEW type / directive twice — build_schema rejects such
        # a document (`Duplicate type`), extend_schema must too (it kept the last definition)
        import copy as _copy
        news = [i for i in B if i["k"] in ("type", "directive")]
        if news:
            victim = ctx.rng.choice(news)
            dup = _copy.deepcopy(victim)
            if dup["k"] == "type" and ctx.rng.random() < 0.5:
                dup.update(kind="scalar", interfaces=[], fields=[], members=[], values=[], input_fields=[])
            order = sdl.permute(ctx.rng, B)
            order.insert(ctx.rng.randint(0, len(order)), dup)
            strict = bool(ctx.rng.random() < 0.5)
            b_text = sdl.render(order)
            real = real_extend(a_text, b_text, strict)
            ctx.count()
            ctx.stat("extend_schema:duplicate-definition:" + real[0])
            detail = {"base_sdl": a_text, "ext_sdl": b_text, "strict": strict, "duplicated": victim["name"]}
            EXT_CASES.append({"real": real, "detail": dict(detail), "req": {"op": "extend", "doc": a_items, "ext": order, "strict": strict}})
            if real[0] == "ok":
                ctx.fail("extend-schema:invalid-accepted:duplicate-%s-definition" % victim["k"],
                         "extend_schema accepts a document that defines %s twice (the last definition wins)" % victim["name"], detail)
            elif real[0] == "exc":
                ctx.fail("extend-schema:%s:duplicate-definition" % real[1], "extend_schema raises " + real[1], detail)


def run_validation_rules(ctx, batch):
    """Documents whose ONLY defect is a schema-VALIDATION rule (validation enabled): `build_schema` must reject them
    with a library error — a build that succeeds on an invalid document is a C11 failure. The labelled-violation
    injectors are C13's (`corr/C13.py: INJECTIONS`; c13 owns the rule model)."""
    try:
        from corr import C13
    except Exception as e:  # noqa
        ctx.notes.append("C13 injectors not importable (%s): validation-rule documents skipped" % type(e).__name__)
        return
    from gen import schema as gs
    per = ctx.n(4, 20)
    for inj in C13.INJECTIONS:
        if inj.code_only:
            continue
        done = tries = 0
        # the implementation rules have many near-miss variants (nullability / wrapper depth): more cases
        per_inj = per * 4 if inj.name.startswith("iface_") else per
        while done < per_inj and tries < per_inj * 5 and ctx.time_left() > 12:
            tries += 1
            base = C13.base_schema(ctx.rng, ctx.rng.choice([1, 2]))
            try:
                d, labels, code_only = C13.apply_injections(ctx.rng, base, 1, only=inj)
            except Exception:  # noqa  (an injector that does not apply to this base)
                continue
            if not labels or code_only or labels[0][1] is None:
                continue       # not applicable / not expressible in SDL / the change happens to be valid
            try:
                text = gs.to_sdl(d, descriptions=False)
            except Exception:  # noqa
                continue
            done += 1
            real = real_build(text)
            ctx.count()
            ctx.nontrivial(text)
            ctx.stat("validation-rule:%s:%s" % (inj.name, real[2] if real[0] == "rej" else real[0]))
            detail = {"sdl": text, "label": "validation:" + inj.name, "rule": labels[0][1], "flags": {}}
            if real[0] == "ok":
                ctx.fail("invalid-accepted:validation:%s:%s" % (inj.name, labels[0][1]),
                         "a document violating the schema validation rule %s (%s) is built" % (labels[0][1], inj.name), detail)
            elif real[0] == "exc":
                ctx.fail("%s:validation:%s" % (real[1], inj.name), "invalid document (%s) raises %s" % (inj.name, real[1]), detail)


def run_schema_directives(ctx):
    """`schema_directives=[…]`: applications of a schema directive with invalid arguments must be rejected with a library
    schema/SDL error (finding C11/5: `CoercionError` escaped), valid ones must build."""
    from py_gql import build_schema
    from py_gql.sdl import SchemaDirective

    class Limit(SchemaDirective):
        definition = "limit"

        def __init__(self, args):
            self.args = args
    head = "directive @limit(n: Int!, e: E = A, l: [Int!]) on OBJECT | FIELD_DEFINITION | ENUM_VALUE\nenum E { A B }\n"
    good = ["n: 1", "n: 2, e: B", "n: 3, l: [1, 2]", "n: 4, l: 5"]
    bad = ['n: "ten"', "n: null", "e: A", "n: 1, e: NOPE", "n: 1, l: [null]", "n: 1.5", 'n: 1, e: "A"', "n: [1]", "n: {a: 1}", "n: 1, l: [\"x\"]"]
    sites = ["type Query @limit(%s) { q: Int }", "type Query { q: Int @limit(%s) }", "type Query { q: E }\nextend type Query @limit(%s)"]
    for args in good + bad:
        for site in sites:
            text = head + site % args
            ctx.count()
            ctx.nontrivial(text)
            try:
                build_schema(text, schema_directives=[Limit])
                out = ("ok",)
            except _classes() as e:
                out = ("rej", type(e).__name__)
            except RecursionError:
                out = ("exc", "internal:RecursionError")
            except Exception as e:  # noqa
                out = ("exc", "internal:" + type(e).__name__)
            ctx.stat("schema-directive-args:%s:%s" % ("valid" if args in good else "invalid", out[-1]))
            detail = {"sdl": text, "schema_directives": "limit", "label": "schema-directive-arguments"}
            if args in good and out[0] != "ok":
                ctx.fail("schema-directives:valid-rejected:" + out[-1], "a valid schema directive application is rejected", detail)
            if args in bad and out[0] == "ok":
                ctx.fail("schema-directives:invalid-accepted", "invalid schema directive arguments are accepted", detail)
            if out[0] == "exc":
                ctx.fail("schema-directives:%s" % out[1], "schema directive arguments: %s instead of a schema/SDL error" % out[1], detail)


def run_schema_directives_once(ctx):
    """`schema_directives=[…]`: every application of a schema directive written in the SDL is applied EXACTLY ONCE — by
    build_schema, and by the two-phase build the code describes (build_schema(doc, ignore_extensions=True) then
    extend_schema(base, doc, strict=False) with the SAME parsed Document; Lean: two_phase_directives_once). The directive
    appends '!' to the description of the element it is written on, so the number of applications is part of the dumped
    content (descriptions are content of C11). Deterministic, no ctx.rng."""
    from py_gql import build_schema
    from py_gql.lang import parse
    from py_gql.sdl import SchemaDirective, extend_schema

    class Mark(SchemaDirective):
        definition = "mark"

        def _m(self, x):
            x.description = (x.description or "") + "!"
            return x
        on_object = on_field = on_argument = on_interface = on_union = on_enum = on_enum_value = on_input_object = on_input_field = on_scalar = _m

    head = ("directive @mark on OBJECT | FIELD_DEFINITION | ARGUMENT_DEFINITION | INTERFACE | UNION | ENUM | ENUM_VALUE | INPUT_OBJECT | "
            "INPUT_FIELD_DEFINITION | SCALAR\n")
    docs = {
        "object": 'type Query @mark { q: Int }\nextend type Query { x: Int }',
        "field": 'type Query { "d" q: Int @mark }\nextend type Query { x: Int }',
        "argument": 'type Query { q("d" a: Int @mark): Int }\nextend type Query { x: Int }',
        "enum-value": 'type Query { q: E }\nenum E { "d" A @mark B }\nextend enum E { C }',
        "input-field": 'type Query { q(i: I): Int }\ninput I { "d" a: Int @mark }\nextend input I { b: Int }',
        "interface-union-scalar": 'type Query implements N { q: U s: S }\ninterface N @mark { q: U }\nunion U @mark = Query\nscalar S @mark\nextend type Query { x: Int }',
        "extension-block": 'type Query { q: Int }\nextend type Query @mark { "d" x: Int @mark }',
        "extension-and-definition": '"t" type Query @mark { q: Int @mark }\nextend type Query { x(a: Int @mark): Int @mark }\nenum E { A @mark }\nextend enum E @mark { B @mark }',
        "untargeted-type-kept": 'type Query { q: T }\n"t" type T @mark { "d" a: Int @mark }\nextend type Query { x: Int }',
    }

    def marks(dump):
        out = {}

        def put(path, d):
            if d and d.endswith("!"):
                out[path] = len(d) - len(d.rstrip("!"))
        for t in dump["types"]:
            put(t["name"], t.get("desc"))
            for f in t.get("fields", []):
                put("%s.%s" % (t["name"], f["name"]), f.get("desc"))
                for a in f.get("args", []):
                    put("%s.%s.%s" % (t["name"], f["name"], a["name"]), a.get("desc"))
            for f in t.get("input_fields", []):
                put("%s.%s" % (t["name"], f["name"]), f.get("desc"))
            for v in t.get("values", []):
                put("%s.%s" % (t["name"], v["name"]), v.get("desc"))
        return out
    for site, body in docs.items():
        text = head + body
        expected_marks = text.count("@mark") - 1        # every application written (the definition line has one `@mark`)
        for mode in ("build_schema", "two-phase"):
            ctx.count()
            ctx.nontrivial("schema-directives-once:%s:%s" % (site, mode))
            detail = {"sdl": text, "schema_directives": "mark", "mode": mode, "label": "schema-directives-once"}
            try:
                if mode == "build_schema":
                    s = build_schema(text, schema_directives=[Mark])
                else:
                    doc = parse(text, allow_type_system=True)
                    base = build_schema(doc, ignore_extensions=True, schema_directives=[Mark])
                    s = extend_schema(base, doc, strict=False, schema_directives=[Mark])
                got = marks(dump_schema(s, sort=True))
            except Exception as e:  # noqa
                ctx.fail("schema-directives-once:%s:%s:%s" % (site, mode, type(e).__name__), "schema directive build raises", detail)
                continue
            ctx.stat("schema-directives-once:%s" % mode)
            twice = sorted(k for k, n in got.items() if n > 1)
            if twice:
                ctx.fail("schema-directives:applied-twice:%s:%s" % (site, mode),
                         "a schema directive written once in the SDL is applied more than once: " + ", ".join(twice), dict(detail, marks=got))
            elif sum(got.values()) != expected_marks:
                ctx.fail("schema-directives:not-applied:%s:%s" % (site, mode),
                         "%d applications written, %d applied" % (expected_marks, sum(got.values())), dict(detail, marks=got))


def run_source_forms(ctx):
    """hunt3 C11/2: `bytes` is a source form of the library (`parse`, `graphql`, `validate` take it): build_schema and
    extend_schema must build the same schema from the encoded text (the `raise` of `_document_ast` was missing)."""
    from py_gql import build_schema
    from py_gql.sdl import extend_schema
    for k in range(ctx.n(6, 40)):
        D, items = sdl.gen_doc(ctx.rng, size=1, p_ext=ctx.rng.choice([0.0, 0.5]))
        text = sdl.render(sdl.permute(ctx.rng, items))
        flags = {"ignore_extensions": bool(ctx.rng.random() < 0.3)}
        ctx.count()
        ref = real_build(text, **flags)
        try:
            got = ("ok", dump_schema(build_schema(text.encode("utf-8"), **flags), sort=True))
        except _classes() as e:
            got = ("rej", _coarse(e), type(e).__name__)
        except Exception as e:  # noqa
            got = ("exc", "internal:" + type(e).__name__)
        ctx.stat("bytes-source:" + got[0])
        if canon(list(ref)) != canon(list(got)):
            ctx.fail("bytes-source:build_schema:%s" % (got[1] if got[0] == "exc" else "differs"),
                     "build_schema(bytes) does not behave like build_schema(str)", {"sdl": text, "flags": flags, "special": "bytes", "got": list(got)[:2]})
            continue
        if ref[0] == "ok" and not flags["ignore_extensions"]:
            ctx.count()
            ext = "extend type %s { zz_bytes: Int }" % D["query"]
            try:
                a = dump_schema(extend_schema(build_schema(text), ext), sort=True)
                b = dump_schema(extend_schema(build_schema(text), ext.encode("utf-8")), sort=True)
                if canon(a) != canon(b):
                    ctx.fail("bytes-source:extend_schema:differs", "extend_schema(schema, bytes) differs from extend_schema(schema, str)",
                             {"sdl": text, "ext": ext, "special": "bytes"})
            except Exception as e:  # noqa
                ctx.fail("bytes-source:extend_schema:internal:" + type(e).__name__, "extend_schema(schema, bytes) raises " + type(e).__name__,
                         {"sdl": text, "ext": ext, "special": "bytes"})
    # not a document at all: the documented TypeError, not an AttributeError about NoneType
    for bad in (None, 42):
        ctx.count()
        try:
            build_schema(bad)
            ctx.fail("bytes-source:non-document-accepted", "build_schema(%r) returns" % (bad,), {"special": "bytes", "value": repr(bad)})
        except TypeError:
            pass
        except Exception as e:  # noqa
            ctx.fail("bytes-source:non-document:" + type(e).__name__, "build_schema(%r) raises %s instead of TypeError" % (bad, type(e).__name__),
                     {"special": "bytes", "value": repr(bad)})


def run_long_chains(ctx):
    """hunt3 C11/3: a long ACYCLIC chain of references between named types (no nesting of values or wrappers) builds
    whatever the order of the definitions — `_build_type_map` recursed once per type on the path, so the same
    definitions built leaf-first and overflowed the stack root-first. Direct oracle only (the by-name model has no
    stack)."""
    import sys
    n = ctx.rng.choice([1200, 1500]) if ctx.tier == "quick" else ctx.rng.choice([1500, 2500])
    shapes = {
        "objects": ["type Query { f: T0 }"] + ["type T%d { f: T%d }" % (i, i + 1) for i in range(n)] + ["type T%d { f: Int }" % n],
        "inputs": ["type Query { f(a: I0): Int }"] + ["input I%d { f: I%d }" % (i, i + 1) for i in range(n)] + ["input I%d { f: Int }" % n],
        "interfaces": ["type Query implements N0 { f: Int }"] + ["interface N%d { f: N%d }" % (i, i + 1) for i in range(n)] + ["interface N%d { f: Int }" % n],
    }
    limit = sys.getrecursionlimit()
    sys.setrecursionlimit(1000)
    try:
        for shape, defs in shapes.items():
            if shape == "interfaces":
                defs = ["type Query { f: N0 }"] + defs[1:]
            outcomes = {}
            for order in ("root-first", "leaf-first", "shuffled", "root-first+extension"):
                d = list(defs)
                if order == "leaf-first":
                    d.reverse()
                elif order == "shuffled":
                    ctx.rng.shuffle(d)
                elif order.endswith("extension"):
                    d.append("extend type Query { zz: Int }")
                ctx.count()
                r = real_build(" ".join(d))
                outcomes[order] = r[0] if r[0] == "ok" else (r[1] if r[0] == "exc" else r[2])
                ctx.stat("long-chain:%s:%s" % (shape, outcomes[order]))
            bad = sorted(o for o, v in outcomes.items() if v != "ok")
            if bad:
                ctx.fail("long-reference-chain:%s:%s" % (shape, outcomes[bad[0]]),
                         "a chain of %d named types builds or not depending on the order of the definitions: %s" % (n, outcomes),
                         {"special": "long-chain", "shape": shape, "n": n, "outcomes": outcomes})
    finally:
        sys.setrecursionlimit(limit)


def run_hand_built(ctx):
    """hunt3 C11/4: Document objects which no text can denote. The builder translates the sibling case (an enum value named
    `true` -> SDLError) but lets these reach the type constructors (bare ValueError) or drops the unknown root."""
    from py_gql import build_schema
    from py_gql.lang import ast as A
    from py_gql.lang import parse
    cls = _classes()

    def doc(text, edit):
        d = parse(text, allow_type_system=True)
        edit(d)
        return d

    def loc(names):
        return lambda d: setattr(d.definitions[0], "locations", [A.Name(value=n) for n in names])

    def twice(d):
        f = d.definitions[0].fields[0]
        f.type = A.NonNullType(type=f.type)

    def op(d):
        d.definitions[0].operation_types[1].operation = "foo"

    cases = [("unknown-directive-location", doc("directive @d on FIELD type Query { f: Int }", loc(["FOO"]))),
             ("no-directive-location", doc("directive @d on FIELD type Query { f: Int }", loc([]))),
             ("non-null-twice", doc("type Query { f: Int! }", twice)),
             ("unknown-operation-kind", doc("schema { query: Query mutation: Query } type Query { f: Int }", op)),
             ("reserved-enum-value", doc("enum E { A } type Query { f: E }", lambda d: setattr(d.definitions[0].values[0].name, "value", "true")))]
    for label, d in cases:
        ctx.count()
        try:
            build_schema(d)
            out = "accepted"
        except cls:
            out = None
        except Exception as e:  # noqa
            out = type(e).__name__
        ctx.stat("hand-built:%s:%s" % (label, out or "rejected"))
        if out is not None:
            ctx.fail("hand-built-document:%s:%s" % (label, out), "a hand-built invalid Document (%s) is %s" % (label, out),
                     {"special": "hand-built", "case": label})


def run_special(ctx):
    """Two targeted checks the by-name dump cannot express."""
    from py_gql import build_schema
    from py_gql.schema import ScalarType
    # C11/2: an explicit `reason: null` still deprecates
    for what, text, get in (
            ("field", "type Query { old: Int @deprecated(reason: null), f: Int }", lambda s: s.types["Query"].field_map["old"]),
            ("enum-value", "enum E { A @deprecated(reason: null) B } type Query { f: E }", lambda s: s.types["E"].values[0])):
        ctx.count()
        try:
            el = get(build_schema(text))
            if not el.deprecated:
                ctx.fail("C11-2:deprecated-null-reason-dropped:" + what, "@deprecated(reason: null) is dropped", {"sdl": text, "special": "C11-2"})
        except Exception as e:  # noqa
            ctx.fail("internal:%s:deprecated-null" % type(e).__name__, "@deprecated(reason: null) raises", {"sdl": text, "special": "C11-2"})
    # C11/6: a supplied ScalarType SUBCLASS survives the extension pass (fixed in /repo 8610722)

    class Cents(ScalarType):
        def __init__(self):
            super().__init__("Cents", serialize=None, parse=None)

        def serialize(self, value):
            return "%.2f" % (value / 100)

        def parse(self, value):
            return int(round(float(value) * 100))

        def parse_literal(self, node, variables=None):
            return self.parse(node.value)
    text = "scalar Cents type Query { price(min: Cents = 12.50): Cents } extend type Query { other: Int }"
    ctx.count()
    try:
        sc = build_schema(text, additional_types=[Cents()])
        c = sc.types["Cents"]
        dv = sc.types["Query"].field_map["price"].arguments[0].default_value
        if c.serialize(1250) != "12.50" or dv != 1250:
            ctx.fail("C11-6:scalar-subclass-flattened", "a supplied ScalarType subclass loses its overrides in the extension pass",
                     {"sdl": text, "special": "C11-6"})
    except Exception as e:  # noqa
        ctx.fail("C11-6:scalar-subclass-flattened:" + type(e).__name__, "a supplied ScalarType subclass breaks the extension pass",
                 {"sdl": text, "special": "C11-6"})


def run_invalid(ctx, batch):
    n = ctx.n(6, 30)
    for label in sdl.INVALID_LABELS:
        done = 0
        tries = 0
        while done < n and tries < n * 6 and ctx.time_left() > 12:
            tries += 1
            D, items = sdl.gen_doc(ctx.rng, size=ctx.rng.choice([1, 2]), p_ext=0.4)
            bad = sdl.inject(ctx.rng, items, label)
            if bad is None:
                continue
            done += 1
            bad = sdl.permute(ctx.rng, bad)
            text = sdl.render(bad)
            real = real_build(text)
            batch.add(text, bad, real, {})
            ctx.count()
            ctx.nontrivial(text)
            ctx.stat("invalid:%s:%s" % (label, real[2] if real[0] == "rej" else real[0]))
            detail = {"sdl": text, "label": label, "flags": {}}
            if real[0] == "ok":
                ctx.fail("invalid-accepted:" + label, "invalid document (%s) is accepted" % label, detail)
            elif real[0] == "exc":
                ctx.fail("%s:%s" % (real[1], label), "invalid document (%s) raises %s instead of a schema/SDL error" % (label, real[1]), detail)


def run_corpus(ctx, batch):
    d = CORPUS / "C11"
    if not d.exists():
        return
    from py_gql.lang import parse
    for f in sorted(d.glob("*.json")):
        for case in json.loads(f.read_text())["cases"]:
            ctx.count()
            ctx.stat("corpus")
            _corpus_case(ctx, batch, case, parse)


def _corpus_case(ctx, batch, case, parse):
    text = case["sdl"]
    flags = case.get("flags") or {}
    real = real_build(text, **flags)
    try:
        items = sdl.doc_json(parse(text, allow_type_system=True))
    except Exception:
        items = None
    if items is not None:
        batch.add(text, items, real, flags)
    detail = {"sdl": text, "flags": flags, "corpus": case.get("id")}
    sig = case.get("id", "corpus")
    if case["expect"] == "ok":
        if real[0] != "ok":
            what = real[2] if real[0] == "rej" else real[1]
            ctx.fail(("valid-rejected:%s:%s" if real[0] == "rej" else "%s:valid:%s") % ((sig, what) if real[0] == "rej" else (what, sig)),
                     "valid document: " + what, detail)
            return False
        exp = sdl.expected_dump(sdl.declared(items, base_only=bool(flags.get("ignore_extensions"))))
        if canon(exp) != canon(real[1]):
            p = diff_path(exp, real[1])
            ctx.fail("content-mismatch:%s:%s" % (sig, p), "built schema differs from the declared content at " + p,
                     dict(detail, expected=exp, got=real[1]))
            return False
        return True
    if real[0] == "ok":
        ctx.fail("invalid-accepted:" + sig, "invalid document is accepted", detail)
        return False
    if real[0] == "exc":
        ctx.fail("%s:%s" % (real[1], sig), "invalid document raises " + real[1], detail)
        return False
    return True


# ---------------------------------------------------------------------------
# model correspondence
# ---------------------------------------------------------------------------

def sort_dump(d):
    d = dict(d)
    d["types"] = sorted(d["types"], key=lambda t: t["name"])
    d["directives"] = sorted(d["directives"], key=lambda t: t["name"])
    return d


def run_model(ctx, batch):
    if not ctx.model_ok or not ctx.driver.available():
        ctx.notes.append("model driver not built: correspondence skipped, direct oracle only")
        return
    reqs = [{"op": "build", "doc": c["items"], "ignore_extensions": bool(c["flags"].get("ignore_extensions")),
             "additional": c["additional"]} for c in batch.cases]
    answers = ctx.driver.ask(reqs)
    for c, a in zip(batch.cases, answers):
        ctx.count()
        real = c["real"]
        detail = {"sdl": c["text"], "flags": c["flags"], "additional": c["additional"], "model": a if "ok" not in a else "ok", "real": real[:1] + real[2:] if real[0] == "rej" else real[0]}
        if real[0] == "ok" or (real[0] == "rej" and real[1] == "validation"):
            if "ok" not in a:
                ctx.fail("corr:model-rejects:%s" % a.get("err"), "model rejects (%s), implementation builds" % a.get("err"), detail, kind="correspondence")
                continue
            got = real[1] if real[0] == "ok" else None
            if got is None:
                r2 = real_build(c["text"], validate=False, additional=_live_additional(c["additional"]), **c["flags"])
                if r2[0] != "ok":
                    ctx.fail("corr:unvalidated-build:" + str(r2[1:]), "builder fails with validation disabled but the model builds", detail,
                             kind="correspondence")
                    continue
                got = r2[1]
            m = sort_dump(a["ok"])
            if canon(m) != canon(got):
                p = diff_path(got, m)
                ctx.fail("corr:dump:" + p, "model and implementation build different schemas at " + p,
                         dict(detail, model_dump=m, real_dump=got), kind="correspondence")
        elif real[0] == "rej":
            if "ok" in a:
                ctx.fail("corr:model-accepts:" + real[2], "implementation rejects (%s), model builds" % real[2], detail, kind="correspondence")
            elif str(a.get("err", "")).startswith("internal"):
                ctx.fail("corr:model-internal:" + a["err"], "implementation rejects properly, model takes an internal branch", detail,
                         kind="correspondence")
        else:
            if a.get("err") != real[1]:
                ctx.fail("corr:internal:%s" % real[1], "implementation raises %s, model says %s" % (real[1], "ok" if "ok" in a else a.get("err")),
                         detail, kind="correspondence")


def _live_additional(wire):
    """Live library types from their wire descriptions (references: built-in scalars or other supplied types)."""
    from py_gql import schema as S
    reg = {x.name: x for x in S.SPECIFIED_SCALAR_TYPES}

    def ty(j):
        if j["k"] == "named":
            return reg[j["n"]]
        return (S.ListType if j["k"] == "list" else S.NonNullType)(ty(j["t"]))

    def lazy(j):
        return lambda: ty(j)
    out = []
    for t in wire or []:
        k, n, d = t["kind"], t["name"], t.get("desc")
        if k == "enum":
            reg[n] = S.EnumType(n, [S.EnumValue(v["name"], v["value"], deprecation_reason=v.get("deprecated"), description=v.get("desc"))
                                    for v in t["values"]], description=d)
        elif k == "scalar":
            reg[n] = S.ScalarType(n, serialize=lambda x: x, parse=lambda x: x, parse_literal=lambda node, _v=None: node.value, description=d)
        elif k == "input":
            reg[n] = S.InputObjectType(n, (lambda t=t: [S.InputField(f["name"], lazy(f["type"]), description=f.get("desc"),
                                                                     **({"default_value": f["default_value"]} if f["has_default"] else {}))
                                                        for f in t["input_fields"]]), description=d)
        elif k == "object":
            reg[n] = S.ObjectType(n, (lambda t=t: [S.Field(f["name"], lazy(f["type"]), description=f.get("desc"),
                                                           deprecation_reason=f.get("deprecated")) for f in t["fields"]]), description=d)
        elif k == "interface":
            reg[n] = S.InterfaceType(n, (lambda t=t: [S.Field(f["name"], lazy(f["type"]), description=f.get("desc"),
                                                              deprecation_reason=f.get("deprecated")) for f in t["fields"]]), description=d)
        elif k == "union":
            reg[n] = S.UnionType(n, (lambda t=t: [reg[m] for m in t["members"]]), description=d)
        else:
            continue
        out.append(reg[n])
    return out or None


def run(ctx):
    batch = Batch()
    add_probes = C11_additional.run_probes(ctx, real_build, _live_additional, sdl.doc_json, canon)     # deterministic, no ctx.rng
    run_corpus(ctx, batch)
    run_generated(ctx, batch)
    run_extend(ctx, batch)
    probes = C11_extend.run_probes(ctx, real_extend, sdl.doc_json, canon, sort_dump, diff_path)
    run_invalid(ctx, batch)
    run_validation_rules(ctx, batch)
    run_schema_directives(ctx)
    run_schema_directives_once(ctx)
    run_special(ctx)
    run_hand_built(ctx)
    run_source_forms(ctx)
    run_long_chains(ctx)
    C11_extend.run_lax_stream(ctx, sdl, real_extend, extension_doc, canon, diff_path, EXT_CASES)    # last consumer of ctx.rng
    inprog = C11_inprogress.collect(ctx, real_build, sdl, sdl.doc_json, canon)      # named probes + stream: now the last consumer of ctx.rng
    run_model(ctx, batch)
    ctx.extra["documents_sent_to_model"] = len(batch.cases)
    # the exact model of the in-progress bookkeeping: the in-progress cases, and every document of the batch as well
    C11_inprogress.compare(ctx, inprog, canon, sort_dump, diff_path)
    C11_inprogress.compare(ctx, [("batch", c["text"], c["items"], c["flags"], c["additional"], c["real"]) for c in batch.cases
                                 if c["real"][0] != "rej" or c["real"][1] != "validation"],
                           canon, sort_dump, diff_path, what="batch")
    C11_extend.run_model(ctx, probes, EXT_CASES, canon, sort_dump, diff_path)
    C11_additional.run_model(ctx, add_probes, canon, sort_dump, diff_path)


def replay(ctx, data):
    inp = data.get("input", {})
    if inp.get("special") in ("bytes", "long-chain", "hand-built"):
        c2 = type(ctx)(ctx.prop, ctx.tier, ctx.seed)
        {"bytes": run_source_forms, "long-chain": run_long_chains, "hand-built": run_hand_built}[inp["special"]](c2)
        return not any(f["kind"] == "property" and f["detail"].get("special") == inp["special"]
                       and f["detail"].get("case") == inp.get("case") for f in c2.found)
    if inp.get("special") or inp.get("schema_directives"):
        c2 = type(ctx)(ctx.prop, ctx.tier, ctx.seed)
        (run_special if inp.get("special") else (run_schema_directives_once if inp.get("label") == "schema-directives-once" else run_schema_directives))(c2)
        return not any(f["kind"] == "property" and f["detail"].get("sdl") == inp.get("sdl") for f in c2.found)
    if "inprogress" in inp:
        real = real_build(inp["sdl"], additional=_live_additional(inp.get("additional")), validate=False, **(inp.get("flags") or {}))
        return real[0] != "exc" or real[1] == "internal:RecursionError"      # correspondence with the exact model only
    if "additional_probe" in inp:
        return C11_additional.replay(real_build, _live_additional, canon, inp)
    if "ignored_in_lax" in inp:
        real = real_extend(inp["base_sdl"], inp["ext_sdl"], inp.get("strict", True))
        if inp.get("strict", True):
            return real[0] == "rej"
        return real[0] == "ok" and ("expected" not in inp or canon(real[1]) == canon(inp["expected"]))
    if "probe" in inp:
        exp = {p[0]: p for p in C11_extend.PROBES}.get(inp["probe"])
        real = real_extend(inp["base_sdl"], inp["ext_sdl"], inp.get("strict", True))
        want = exp[2 if inp.get("strict", True) else 3] if exp else "any"
        return real[0] != "exc" and (want == "any" or real[0] == want)
    if "duplicated" in inp:
        return real_extend(inp["base_sdl"], inp["ext_sdl"], inp.get("strict", True))[0] == "rej"
    if "base_sdl" in inp:
        real = real_extend(inp["base_sdl"], inp["ext_sdl"], inp.get("strict", True))
        return real[0] == "ok" and canon(real[1]) == canon(inp["expected"])
    text = inp.get("sdl")
    if text is None:
        return True
    flags = inp.get("flags") or {}
    from py_gql.lang import parse
    add = _live_additional(inp.get("additional"))
    real = real_build(text, additional=add, **flags)
    if "label" in inp:
        return real[0] == "rej"
    if real[0] != "ok":
        # valid documents must build; for replays of corpus 'reject' cases only the class matters
        return real[0] == "rej" and inp.get("expect") == "reject"
    if "expected" in inp:
        return canon(inp["expected"]) == canon(real[1])
    items = sdl.doc_json(parse(text, allow_type_system=True))
    try:
        exp = sdl.expected_dump(sdl.declared(items, base_only=bool(flags.get("ignore_extensions"))))
    except sdl.Invalid:
        return True
    return canon(exp) == canon(real[1])

# -*- coding: utf-8 -*-
"""C01 — aggregated from corr/C01_*.py (see each part)."""
from corr import _parts

_parts.install("C01", globals())

# -*- coding: utf-8 -*-
"""
C12 (partial-literal scalars) -- a deterministic class: custom scalars that keep their values as TEXT and whose
`parse_literal` accepts only SOME number literals (sign-, range-, parity-dependent; Int and Float kinds).  The printer must
decide PER VALUE whether a numeric-looking text default is written as a number literal (`5`) or as a string (`"-5"`):
the decision for one value must not be reused for another value of the same scalar, neither inside one schema nor
across schemas printed earlier in the process.

Every quick run enumerates (no randomness): 5 scalar kinds x 2 layouts
  * `two-schemas`: S_acc (default accepted as a number literal) and S_rej (rejected), sharing ONE scalar object, printed
    in both orders in two structurally identical fresh worlds;
  * `one-schema`: accepted and rejected defaults side by side at every site a default can have (field arguments, input
    fields, directive arguments, inside a list default), in both orders of the members.
Oracles (exactly the property): (1) purity -- the text of a schema is the same whether it is printed first or after the
other one (twin worlds, reversed order); (2) round trip -- `build_schema(text, additional_types=[scalar])` succeeds, the
rebuilt schema dumps equal (same default values) and prints the same text.
Called from corr/C12.py:run; replays carry {"part": "C12_partial", "kind", "layout"}.
"""
PART = "C12_partial"

# kind -> (which literal class is value dependent, predicate on the number, accepted text, rejected text)
KINDS = {
    "nonneg-int": ("int", lambda x: x >= 0, "5", "-5"),
    "range-int": ("int", lambda x: abs(x) < 100, "7", "700"),
    "even-int": ("int", lambda x: x % 2 == 0, "4", "3"),
    "nonneg-float": ("float", lambda x: x >= 0, "1.5", "-1.5"),
    "small-float": ("float", lambda x: abs(x) < 10, "2.25", "1e+22"),
}
LAYOUTS = ("two-schemas", "one-schema")
OPTS = dict(indent=4, include_descriptions=True, include_introspection=False, include_custom_schema_directives=False)


def make_scalar(kind):
    from py_gql.lang import ast as _ast
    from py_gql.schema import ScalarType
    cls, pred, _, _ = KINDS[kind]

    def parse(value):
        if isinstance(value, bool) or not isinstance(value, (int, float, str)):
            raise TypeError("cannot represent %r" % (value,))
        return str(value)

    def parse_literal(node, _variables=None):
        if isinstance(node, _ast.StringValue):
            return node.value
        if isinstance(node, _ast.IntValue):
            if cls == "int" and not pred(int(node.value)):
                raise ValueError("rejected int literal")
            return node.value
        if isinstance(node, _ast.FloatValue):
            if cls == "float" and not pred(float(node.value)):
                raise ValueError("rejected float literal")
            return node.value
        raise TypeError("Invalid literal %s" % type(node).__name__)
    return ScalarType("Quantity", serialize=str, parse=parse, parse_literal=parse_literal)


def make_world(kind, layout, flip=False):
    """(scalar, [schemas]) -- fresh objects on every call; `flip` reverses the order of the members inside one schema"""
    from py_gql.schema import Argument, Directive, Field, InputField, InputObjectType, Int, ListType, ObjectType, Schema
    _, _, acc, rej = KINDS[kind]
    q = make_scalar(kind)
    if layout == "two-schemas":
        def schema(field, default):
            return Schema(ObjectType("Query", [Field(field, Int, args=[Argument("q", q, default_value=default)])]))
        return q, [schema("a", acc), schema("b", rej)]
    pair = [("p", acc), ("n", rej)]
    if flip:
        pair.reverse()
    fields = [Field("f_" + n, Int, args=[Argument("q", q, default_value=v)]) for n, v in pair]
    fields.append(Field("lst", Int, args=[Argument("l", ListType(q), default_value=[v for _, v in pair])]))
    fields.append(Field("inp", Int, args=[Argument("i", InputObjectType("In", [InputField("x_" + n, q, default_value=v) for n, v in pair]))]))
    d = Directive("d", ["FIELD"], args=[Argument("a_" + n, q, default_value=v) for n, v in pair])
    return q, [Schema(ObjectType("Query", fields), directives=[d])]


def _print(s):
    try:
        return ("ok", s.to_string(**OPTS))
    except Exception as e:  # noqa
        return ("exc", "internal:" + type(e).__name__)


def check_case(ctx, kind, layout):
    """True = the property holds on this case"""
    from py_gql import build_schema
    from canon_schema import dump_schema
    detail = {"part": PART, "kind": kind, "layout": layout}
    ok = True
    worlds = []
    for order in ((0, 1), (1, 0)):
        q, schemas = make_world(kind, layout, flip=(order == (1, 0) and layout == "one-schema"))
        idx = [i for i in order if i < len(schemas)]
        if layout == "one-schema":
            idx = [0]
        texts = {}
        for i in idx:
            texts[i] = _print(schemas[i])
        worlds.append((q, schemas, idx, texts))
        for i in idx:
            ctx.count()
            r = texts[i]
            if r[0] != "ok":
                ctx.fail("print-raises:%s:partial-literal-scalar:%s" % (r[1], kind), "to_string raises", dict(detail, order=list(order)))
                ok = False
                continue
            try:
                s2 = build_schema(r[1], additional_types=[q])
            except Exception as e:  # noqa
                ctx.fail("rebuild-raises:%s:partial-literal-scalar:%s" % (type(e).__name__, kind),
                         "a numeric-text default the scalar rejects as a number literal was printed as a number: "
                         "build_schema(to_string(s), additional_types=[scalar]) raises", dict(detail, order=list(order), text=r[1]))
                ok = False
                continue
            if dump_schema(s2, sort=True) != dump_schema(schemas[i], sort=True):
                ctx.fail("roundtrip-differs:partial-literal-scalar:%s" % kind, "the rebuilt schema differs (default values)",
                         dict(detail, order=list(order), text=r[1]))
                ok = False
            elif _print(s2) != r:
                ctx.fail("not-a-fixpoint:partial-literal-scalar:%s" % kind, "printing the rebuilt schema gives another text",
                         dict(detail, order=list(order), text=r[1], again=_print(s2)[1]))
                ok = False
            else:
                ctx.nontrivial(("partial-literal", kind, layout, order, i))
    if layout == "two-schemas":
        (_, _, _, t1), (_, _, _, t2) = worlds
        for i in (0, 1):
            if t1.get(i) != t2.get(i):
                ctx.fail("history-dependent:partial-literal-scalar:%s" % kind,
                         "the text of a schema depends on which schema sharing its custom scalar was printed before it",
                         dict(detail, schema=i, printed_first=(t1 if i == 0 else t2)[i][1], printed_second=(t2 if i == 0 else t1)[i][1]))
                ok = False
                break
    else:
        # the same defaults in the other member order: every default keeps its own spelling
        (_, _, _, t1), (_, _, _, t2) = worlds
        _, _, acc, rej = KINDS[kind]
        for t in (t1, t2):
            if t[0][0] == "ok":
                n_num = t[0][1].count("= %s" % acc) + t[0][1].count("[%s," % acc) + t[0][1].count(", %s]" % acc)
                n_str = t[0][1].count('"%s"' % rej)
                if n_num != 4 or n_str != 4:
                    ctx.fail("history-dependent:partial-literal-scalar:%s" % kind,
                             "inside one schema the spelling of a default depends on the defaults printed before it "
                             "(%d of 4 accepted values written as numbers, %d of 4 rejected values written as strings)" % (n_num, n_str),
                             dict(detail, text=t[0][1]))
                    ok = False
                    break
    ctx.stat("partial-literal:%s:%s" % (kind, layout))
    return ok


def run(ctx):
    for kind in KINDS:
        for layout in LAYOUTS:
            try:
                check_case(ctx, kind, layout)
            except Exception as e:  # noqa
                ctx.fail("internal:partial-literal-scalar:%s" % type(e).__name__, "the partial-literal class crashed",
                         {"part": PART, "kind": kind, "layout": layout, "error": repr(e)})


def replay(ctx, data):
    inp = data.get("input", {})
    c2 = type(ctx)(ctx.prop, ctx.tier, ctx.seed)
    check_case(c2, inp.get("kind", "nonneg-int"), inp.get("layout", "two-schemas"))
    return not c2.found

# -*- coding: utf-8 -*-
"""
Shared machinery of C08 / C09: the *simplified operation form*, its generators,
the four executor/runtime configurations of the REAL code under a controlled
scheduler, canonical observations, schedule enumeration and the shrinker.

Operation form (JSON; the Lean model `PyGqlModel/AsyncExec.lean` reads the same):

  case   = {"kind": "query" | "mutation", "fields": [field ...]}
  case may carry "serve": "methods" — fields have NO explicit resolver: the library `default_resolver` serves them from
           METHODS of the root value / of the parent objects (`def f(self, ctx, info, **args)`, `async def` under asyncio,
           methods returning `info.runtime.submit(...)`); same model, same oracles.
  case may carry "style": "plain" | "inline" | "spread" | "reselect-inline" | "reselect-spread" | "reselect-nested" (how the top-level selection is written:
           directly, inside `... on <Root> { }`, or through one fragment spread) — not part of the model.
  field  = {"key": str, "mode": "sync" | "deferred" | "nested" | "ready", "ty": ty, "out": fo}
           ("ready": the pool runs the task at submission, the executor receives an ALREADY FINISHED future)
  ty     = {"t":"int"} (Int) | {"t":"int","scalar":"trim"} (custom scalar whose serialize() maps blank strings to None) | {"t":"nn","of":ty} | {"t":"list","of":ty} | {"t":"obj","fields":[{"key","mode","ty"} ...]}
  fo     = {"r":"rerr"} | {"r":"exc"} | {"r":"ok","v": rv}          (what the resolver of this field *instance* does)
  "cerr" = COMPLETING the value raises ResolverError: at a trim leaf (serialize raises), at an abstract object position
           (ty obj with "abstract": true is a Union whose resolve_type raises), or a lazy list {"lazy": [items], "fail": true}
           (a generator that raises after its items). The field becomes null + one field error on every configuration.
           Model: when no sub-resolver ran before the raise this is THE SAME EVENT as the resolver raising ResolverError
           (field outcome `rerr`: same trace, same data, same error path/kind); otherwise the run is not compared with the model.
  rv     = null | int | "bad" | "tonull" | "cerr" (a NON-null resolver value that SERIALISES to null; only at trim leaves; the
           model sees the completed value: null) | [rv ...] | {"<key>": fo ...}         (the resolved value, completed at `ty`)

`ty` lives on the field *definition* (all instances under list items share it, like a schema);
`fo` belongs to the field *instance* (response path).  `to_model(case)` merges both into the
tree the Lean side executes (Comp / ROut / Flds).

A *schedule* is a list of indices into the queue of outstanding tasks (submission order).
"""
import asyncio
import itertools
import json
import logging
import os
import signal
import sys
import threading
import time
import warnings
from concurrent.futures import Future

MODES = ("sync", "deferred", "nested", "ready")


# ---------------------------------------------------------------------------
# exceptions used by the harness resolvers

class Boom(Exception):
    """The *unexpected* resolver exception."""


# The unexpected exception is raised with a VARIETY of classes: classes that the machinery itself catches somewhere
# (IndexError around `args.pop(0)`, KeyError around caches, ...) are where a slip would swallow a resolver's exception.
# StopIteration: Python rewrites it to RuntimeError inside coroutines (PEP 479) and asyncio futures refuse it: the harness accepts
# the rewritten form as the same exception (`__cause__`) and rewrites it itself where an `async def` resolver would.
class Fatal(BaseException):
    """an unexpected exception that is not an `Exception` (like SystemExit / asyncio.CancelledError)"""


class WithExtensions(Exception):
    """not a GraphQL error, but carries an `extensions` attribute like ResolverError does"""
    extensions = {"code": "X"}


def _library_unexpected():
    """library exception classes that are NOT ResolverError: a resolver raising one of them must surface like any other"""
    from py_gql import exc
    return (
        lambda m: exc.CoercionError(m),
        lambda m: exc.ValidationError(m),
        lambda m: exc.GraphQLSyntaxError(m, 0, "{ x }"),
        lambda m: exc.SchemaError(m),
        lambda m: exc.InvalidValue(m),
        lambda m: exc.ScalarSerializationError(m),
        lambda m: exc.GraphQLError(m),
    )      # ExecutionError is the subject of a named probe (finding E5): the entry point turns it into a response when synchronous


UNEXPECTED_CLASSES = (Boom, IndexError, KeyError, AttributeError, TypeError, ValueError, RuntimeError, LookupError,
                      ZeroDivisionError, AssertionError, OSError, NotImplementedError, WithExtensions,
                      StopIteration, StopAsyncIteration, Fatal,
                      "lib0", "lib1", "lib2", "lib3", "lib4", "lib5", "lib6")

CLASS_SALT = 0      # rotated by the checker so that every field position sees every class


def make_unexpected(path):
    cls = UNEXPECTED_CLASSES[(sum(map(ord, str(path))) + CLASS_SALT) % len(UNEXPECTED_CLASSES)]
    if isinstance(cls, str):
        err = _library_unexpected()[int(cls[3:])]("harness-unexpected at %r" % (path,))
    else:
        err = cls("harness-unexpected at %r" % (path,))
    err._harness_unexpected = True
    return err


class Watchdog(BaseException):
    """Raised by the SIGALRM watchdog: the code under test blocked."""


def _resolver_error_cls():
    from py_gql.exc import ResolverError

    global HarnessResolverError
    try:
        return HarnessResolverError
    except NameError:
        class HarnessResolverError(ResolverError):  # noqa
            pass
        return HarnessResolverError


WATCHDOG_S = 2.0     # wall-clock; a firing is only REPORTED after a confirmation run with CONFIRM_S (machine load!)
CONFIRM_S = 25.0


class _Deadlock:
    """
    Deterministic deadlock detector for the SINGLE-THREADED controlled worlds (manual executor / private loop):
    there the harness's main thread is the only thread that ever completes a `concurrent.futures.Future`, so a
    `Future.result()` / `.exception()` WITHOUT timeout on a pending future, called on the main thread by the code
    under test (e.g. a done-callback that waits for a nested future), can never return. Instead of waiting for the
    wall-clock watchdog (2 s per run, 25 s per confirmation - what made a seeded blocking callback time the whole
    check out), the patched accessors raise `Watchdog` at once and remember it: the run is reported as
    status="hang" with deterministic=True whatever the code under test did with that exception.
    """
    depth = 0
    blocked = None
    installed = False

    @classmethod
    def install(cls):
        if cls.installed:
            return
        cls.installed = True
        orig_result, orig_exception = Future.result, Future.exception

        def would_block(fut, timeout):
            return (cls.depth > 0 and timeout is None and threading.current_thread() is threading.main_thread()
                    and not fut.done())

        def result(self, timeout=None):
            if would_block(self, timeout):
                cls.blocked = "Future.result() on a pending future (single-threaded world: it can never complete)"
                raise Watchdog(cls.blocked)
            return orig_result(self, timeout)

        def exception(self, timeout=None):
            if would_block(self, timeout):
                cls.blocked = "Future.exception() on a pending future (single-threaded world: it can never complete)"
                raise Watchdog(cls.blocked)
            return orig_exception(self, timeout)

        Future.result, Future.exception = result, exception


class watchdog:
    """
    Hard timeout around code of the repo that may block (Future.result() on a pending future).
    `single_threaded=True` (the manual-executor worlds) additionally arms the deterministic deadlock detector:
    after the block `self.blocked` names the blocking call (None = none happened).
    """

    def __init__(self, seconds=None, single_threaded=False):
        self.seconds = seconds or WATCHDOG_S
        self.armed = False
        self.single = single_threaded
        self.blocked = None

    def __enter__(self):
        try:
            self.old = signal.signal(signal.SIGALRM, self._fire)
            signal.setitimer(signal.ITIMER_REAL, self.seconds)
            self.armed = True
        except ValueError:  # not in the main thread
            self.armed = False
        if self.single and self.armed:
            _Deadlock.install()
            if _Deadlock.depth == 0:
                _Deadlock.blocked = None
            _Deadlock.depth += 1
        return self

    def _fire(self, *a):
        raise Watchdog()

    def __exit__(self, *a):
        if self.single and self.armed:
            _Deadlock.depth -= 1
            self.blocked = _Deadlock.blocked
        if self.armed:
            signal.setitimer(signal.ITIMER_REAL, 0)
            signal.signal(signal.SIGALRM, self.old)
        return False


class StageTimeout(KeyboardInterrupt):
    """Raised on the main thread by `run_stages` when one stage of a check exceeds its wall-clock cap."""


STAGE_CAP_S = {"quick": 100.0, "thorough": 700.0}     # per stage; the whole quick budget of a check is 60 s


def run_stages(ctx, prop, stages, replaying=None):
    """
    BACKSTOP behind the per-call watchdogs: run the stages `[(name, thunk)]` of a check one after another, each under
    a wall-clock cap enforced by a timer thread that sends SIGUSR1 to the main thread (a real signal: it interrupts
    lock waits, `Future.result()`, `run_until_complete` and sleeps; independent of the SIGALRM itimer the per-call
    watchdogs use, so the two nest). A stage that exceeds the cap - the code under test blocked at a place no
    per-call watchdog covers - becomes a FAILING CASE `<prop>:never-completes:stage:<name>` whose replay re-runs that
    stage, and the remaining stages are skipped (a tree that blocks would make each of them wait as long): the check
    always finishes. The cap is far above what a stage takes on the unchanged tree (they stop at ctx.out_of_time()).
    """
    cap = STAGE_CAP_S.get(ctx.tier, 100.0)
    main_id = threading.main_thread().ident
    if threading.current_thread() is not threading.main_thread():
        for name, thunk in stages:
            thunk()
        return True

    def handler(*a):
        raise StageTimeout()

    old = signal.signal(signal.SIGUSR1, handler)
    try:
        for name, thunk in stages:
            if replaying is not None and name != replaying:
                continue
            # the code under test may SWALLOW the exception (`except BaseException: outer.set_exception(err)`) and block
            # again: after the cap the signal is repeated every 2 s until the stage is left, and a stage that swallowed
            # every one of them but came back is still reported.
            stop = threading.Event()
            fired = []

            def nag():
                if stop.wait(cap):
                    return
                while not stop.is_set():
                    fired.append(1)
                    signal.pthread_kill(main_id, signal.SIGUSR1)
                    stop.wait(2.0)
            timer = threading.Thread(target=nag, daemon=True)
            timer.cancel = stop.set
            timer.start()
            t0 = time.time()
            try:
                try:
                    thunk()
                finally:
                    stop.set()
                if fired:
                    raise StageTimeout()
            except StageTimeout:
                ctx.fail("%s:never-completes:stage:%s" % (prop.lower(), name),
                         "stage %r of the check did not finish within %d s: the code under test blocks the calling thread at a "
                         "place where the harness waits on it" % (name, cap),
                         {"probe": "stage", "stage": name})
                release_stuck_workers(ctx)
                return False
            finally:
                timer.cancel()
                ctx.extra.setdefault("stage_seconds", {})[name] = round(time.time() - t0, 1)
                if os.environ.get("VERIF_STAGE_LOG"):
                    print("stage %s/%s: %.1f s" % (prop, name, time.time() - t0), file=sys.stderr, flush=True)
        return True
    finally:
        signal.signal(signal.SIGUSR1, old)


def release_stuck_workers(ctx=None):
    """
    A ThreadPoolExecutor worker that the code under test blocked for good (it waits inside a done-callback) is a
    NON-daemon thread: interpreter shutdown would join it forever and the check would never exit. After a stage on
    real pools: give shut-down pools a moment, then take the workers that are still alive out of the two shutdown
    join lists (concurrent.futures' and threading's). Healthy idle workers of live pools are not affected in any
    observable way (they are only no longer joined at exit).
    """
    import concurrent.futures.thread as cft
    import time
    stuck = [t for t in list(cft._threads_queues) if t.is_alive()]
    if not stuck:
        return 0
    t_end = time.time() + 0.3
    while time.time() < t_end and any(t.is_alive() for t in stuck):
        time.sleep(0.02)
    n = 0
    for t in stuck:
        if not t.is_alive():
            continue
        n += 1
        try:
            cft._threads_queues.pop(t, None)
            lock = getattr(t, "_tstate_lock", None)
            if lock is not None:
                threading._shutdown_locks.discard(lock)
        except Exception:  # noqa  -- best effort, interpreter internals
            pass
    if n and ctx is not None:
        ctx.stat("stuck-pool-workers-detached", n)
    return n


def list_items(rv):
    """items of a list value: a plain list or a lazy (generator-backed) one"""
    return rv["lazy"] if isinstance(rv, dict) else rv


def list_fails(rv):
    return isinstance(rv, dict) and bool(rv.get("fail"))


def completion_event(ty, rv):
    """
    What completing `rv` at `ty` does BEFORE returning, in completion order: (event, n, e) with event in
    {None, "cerr", "bad"} (raises ResolverError / RuntimeError), n = number of sub-field resolvers invoked before it and
    e = number of non-null violations recorded before it.
    """
    if ty["t"] == "nn":
        ev, n, e = completion_event(ty["of"], rv)
        if ev is None and (rv is None or rv == "tonull"):
            e += 1
        return ev, n, e
    if rv is None or rv == "tonull":
        return None, 0, 0
    if rv == "cerr":
        return "cerr", 0, 0
    if rv == "bad":
        return "bad", 0, 0
    if ty["t"] == "int":
        return None, 0, 0
    if ty["t"] == "list":
        n = e = 0
        for x in list_items(rv):
            ev, k, k2 = completion_event(ty["of"], x)
            n += k
            e += k2
            if ev:
                return ev, n, e
        return ("cerr", n, e) if list_fails(rv) else (None, n, e)
    return None, max(1, len(ty["fields"])), 0


# ---------------------------------------------------------------------------
# generators

def gen_ty(rng, depth, p):
    r = rng.random()
    if depth <= 0 or r < 0.45:
        base = {"t": "int", "scalar": "trim"} if rng.random() < p.get("p_trim", 0.3) else {"t": "int"}
    elif r < 0.8:
        n = rng.randint(1, p["max_sub"])
        base = {"t": "obj", "fields": [gen_fdef(rng, depth - 1, p, "abcdefgh"[i]) for i in range(n)]}
        if rng.random() < p.get("p_abstract", 0.25):
            base["abstract"] = True
    else:
        base = {"t": "list", "of": gen_ty(rng, depth - 1, p)}
    if rng.random() < p["p_nn"]:
        base = {"t": "nn", "of": base}
    return base


def gen_mode(rng, p):
    r = rng.random()
    if r < p["p_sync"]:
        return "sync"
    if rng.random() < p.get("p_ready", 0.0):
        return "ready"
    return "nested" if rng.random() < p["p_nested"] else "deferred"


def gen_fdef(rng, depth, p, key):
    return {"key": key, "mode": gen_mode(rng, p), "ty": gen_ty(rng, depth, p)}


def gen_rv(rng, ty, p):
    if ty["t"] == "nn":
        return gen_rv(rng, ty["of"], dict(p, p_null=p["p_null"] * 0.4))
    if rng.random() < p["p_null"]:
        return None
    if ty["t"] == "int":
        if rng.random() < p["p_bad"]:
            return "bad"
        if ty.get("scalar") == "trim" and rng.random() < p.get("p_tonull", 0.25):
            return "tonull"
        if ty.get("scalar") == "trim" and rng.random() < p.get("p_cerr", 0.1):
            return "cerr"
        return rng.randint(0, 9)
    if ty["t"] == "list":
        if rng.random() < p["p_bad"]:
            return "bad"
        items = [gen_rv(rng, ty["of"], p) for _ in range(rng.choice((0, 1, 1, 2, 2, 3)))]
        if rng.random() < p.get("p_lazy", 0.25):
            return {"lazy": items, "fail": rng.random() < 0.5}
        return items
    if ty.get("abstract") and rng.random() < p.get("p_cerr", 0.1):
        return "cerr"
    return {f["key"]: gen_fo(rng, f["ty"], p) for f in ty["fields"]}


def gen_fo(rng, ty, p):
    r = rng.random()
    if r < p["p_rerr"]:
        return {"r": "rerr"}
    if r < p["p_rerr"] + p["p_exc"]:
        return {"r": "exc"}
    return {"r": "ok", "v": gen_rv(rng, ty, p)}


DEFAULT_P = {"p_ready": 0.12, "max_sub": 3, "p_nn": 0.25, "p_sync": 0.4, "p_nested": 0.15, "p_null": 0.12, "p_bad": 0.0,
             "p_rerr": 0.12, "p_exc": 0.0}


def gen_case(rng, kind=None, n_top=None, depth=2, **over):
    p = dict(DEFAULT_P, **over)
    kind = kind or rng.choice(("query", "mutation"))
    n_top = n_top or rng.randint(1, 4)
    keys = ["m%d" % (i + 1) for i in range(n_top)] if kind == "mutation" else ["q%d" % (i + 1) for i in range(n_top)]
    fdefs = [gen_fdef(rng, depth, p, k) for k in keys]
    fields = [dict(f, out=gen_fo(rng, f["ty"], p)) for f in fdefs]
    case = {"kind": kind, "fields": fields}
    style = rng.choice(("plain", "plain", "inline", "spread", "reselect-inline", "reselect-spread", "reselect-nested"))
    if style != "plain":
        case["style"] = style
    if rng.random() < p.get("p_methods", 0.3):
        case["serve"] = "methods"
    return case


# ---------------------------------------------------------------------------
# views of a case

def to_model(case):
    """The merged tree executed by the Lean model."""
    def comp(ty, rv):
        if ty["t"] == "nn":
            return {"t": "nonNull", "c": comp(ty["of"], rv)}
        if rv is None or rv == "tonull":
            return {"t": "null"}
        if rv == "bad":
            return {"t": "bad"}
        if ty["t"] == "int":
            return {"t": "leaf", "v": rv}
        if ty["t"] == "list":
            return {"t": "list", "items": [comp(ty["of"], x) for x in list_items(rv)]}
        return {"t": "obj", "fields": [fld(f, rv[f["key"]]) for f in ty["fields"]]}

    nomodel = [False]

    def fld(f, fo):
        if fo["r"] == "ok":
            ev, n, e = completion_event(f["ty"], fo["v"])
            if ev == "cerr" and n == 0 and e == 0:
                out = {"t": "rerr"}            # completion failure before any side effect = the resolver-error event
            elif ev == "cerr":
                nomodel[0] = True              # sub-resolvers ran / errors were recorded before the raise: not expressible
                out = {"t": "rerr"}
            else:
                out = {"t": "ok", "c": comp(f["ty"], fo["v"])}
        else:
            out = {"t": fo["r"]}
        return {"key": f["key"], "mode": f["mode"], "out": out}

    m = {"kind": case["kind"], "fields": [fld(f, f["out"]) for f in case["fields"]]}
    if nomodel[0]:
        m["nomodel"] = True
    return m


def count_tasks(case):
    """Number of deferred tasks created if every resolver is reached (upper bound)."""
    def c_rv(ty, rv):
        if ty["t"] == "nn":
            return c_rv(ty["of"], rv)
        if rv is None or rv in ("bad", "cerr") or ty["t"] == "int":
            return 0
        if ty["t"] == "list":
            return sum(c_rv(ty["of"], x) for x in list_items(rv))
        return sum(c_f(f, rv[f["key"]]) for f in ty["fields"])

    def c_f(f, fo):
        own = {"sync": 0, "deferred": 1, "nested": 2, "ready": 0}[f["mode"]]
        return own + (c_rv(f["ty"], fo["v"]) if fo["r"] == "ok" else 0)

    return sum(c_f(f, f["out"]) for f in case["fields"])


def features(case):
    """Structural features (for signatures and statistics)."""
    fs = set()

    def w_rv(ty, rv, under):
        if ty["t"] == "nn":
            fs.add("nonNull")
            if rv is None:
                fs.add("nonNull-null")
            if rv == "tonull":
                fs.add("nonNull-tonull")
            return w_rv(ty["of"], rv, under)
        if rv is None:
            return
        if rv == "bad":
            fs.add("bad")
            return
        if rv == "tonull":
            fs.add("tonull")
            return
        if rv == "cerr":
            fs.add("cerr-" + ("abstract" if ty["t"] == "obj" else "scalar"))
            return
        if ty["t"] == "list":
            fs.add("list")
            if isinstance(rv, dict):
                fs.add("lazy-list-fails" if rv.get("fail") else "lazy-list")
            for x in list_items(rv):
                w_rv(ty["of"], x, under + ["[]"])
        elif ty["t"] == "obj":
            fs.add("obj")
            if ty.get("abstract"):
                fs.add("abstract")
            for f in ty["fields"]:
                w_f(f, rv[f["key"]], under)

    def w_f(f, fo, under):
        fs.add(f["mode"])
        fs.add(fo["r"])
        if under:
            fs.add("nested-" + f["mode"])
        if fo["r"] == "ok":
            ev, n, e = completion_event(f["ty"], fo["v"])
            if ev == "cerr" and n > 0:
                fs.add("completion-raises-after-sub-resolvers")
            w_rv(f["ty"], fo["v"], under + [f["key"]])

    for f in case["fields"]:
        w_f(f, f["out"], [])
    fs.add(case["kind"])
    if case.get("serve") == "methods":
        fs.add("served-by-methods")
    return fs


def has_unexpected(case):
    fs = features(case)
    return "exc" in fs or "bad" in fs


# ---------------------------------------------------------------------------
# building the real schema / document

def _tname(keys):
    return "T_" + "_".join(keys)


def _ty_doc(ty, keys):
    while ty["t"] in ("nn", "list"):
        ty = ty["of"]
    if ty["t"] == "obj":
        inner = " ".join(f["key"] + _ty_doc(f["ty"], keys + (f["key"],)) for f in ty["fields"])
        if ty.get("abstract"):
            return " { ... on %s { %s } }" % (_tname(keys), inner)
        return " { " + inner + " }"
    return ""


def document(case):
    body = " ".join(f["key"] + _ty_doc(f["ty"], (f["key"],)) for f in case["fields"])
    op = "mutation" if case["kind"] == "mutation" else "query"
    root = "Mutation" if case["kind"] == "mutation" else "Query"
    style = case.get("style", "plain")
    if style.startswith("reselect"):
        # the root selection RE-SELECTS an earlier response key after other fields (inside a fragment): execution and
        # response order is the order of FIRST appearance
        parts = [f["key"] + _ty_doc(f["ty"], (f["key"],)) for f in case["fields"]]
        head, rest = parts[:2], parts[2:]
        again = " ".join([parts[0]] + rest + ([parts[1]] if len(parts) > 1 else []))
        if style == "reselect-inline":
            return "%s { %s ... on %s { %s } }" % (op, " ".join(head), root, again)
        if style == "reselect-nested":
            return "%s { %s ... on %s { ... on %s { %s } %s } }" % (op, " ".join(head), root, root, parts[0], again)
        return "%s { %s ...Again } fragment Again on %s { %s }" % (op, " ".join(head), root, again)
    if style == "inline":
        return "%s { ... on %s { %s } }" % (op, root, body)
    if style == "spread":
        return "%s { ...Top } fragment Top on %s { %s }" % (op, root, body)
    return op + " { " + body + " }"


def r_explicit(root, ctx, info, **kw):
    return ctx.resolve(info, True)


def r_default(root, ctx, info, **kw):
    return ctx.resolve(info, False)


_TRIM = None


def trim_scalar():
    """A custom scalar whose serialize() turns some NON-null values (blank strings) into None."""
    global _TRIM
    if _TRIM is None:
        from py_gql.exc import ScalarSerializationError
        from py_gql.schema import ScalarType

        def serialize(v):
            if v == "cerr!":
                raise _resolver_error_cls()("Trimmed refuses %r" % (v,))
            if isinstance(v, str) and not v.strip():
                return None
            if isinstance(v, int) and not isinstance(v, bool):
                return v
            raise ScalarSerializationError("Trimmed cannot represent %r" % (v,))

        _TRIM = ScalarType("Trimmed", serialize=serialize, parse=lambda v: v)
    return _TRIM


class CerrMarker:
    """an object value whose abstract type cannot be resolved: `resolve_type` raises ResolverError for it"""


def build_schema(case, all_explicit=False):
    from py_gql.schema import Field, Int, ListType, NonNullType, ObjectType, Schema, UnionType

    def mk_ty(ty, keys):
        if ty["t"] == "int":
            return trim_scalar() if ty.get("scalar") == "trim" else Int
        if ty["t"] == "nn":
            return NonNullType(mk_ty(ty["of"], keys))
        if ty["t"] == "list":
            return ListType(mk_ty(ty["of"], keys))
        obj = ObjectType(_tname(keys), [mk_field(f, keys + (f["key"],)) for f in ty["fields"]])
        if not ty.get("abstract"):
            return obj
        name = obj.name

        def resolve_type(value, ctx, info):
            if isinstance(value, CerrMarker):
                raise _resolver_error_cls()("cannot resolve the type of %r" % (value,))
            return name
        return UnionType("U_" + "_".join(keys), [obj], resolve_type=resolve_type)

    methods = case.get("serve") == "methods"

    def mk_field(f, keys):
        explicit = (all_explicit or f["mode"] != "sync") and not methods
        return Field(f["key"], mk_ty(f["ty"], keys), resolver=r_explicit if explicit else None)

    root_fields = [mk_field(f, (f["key"],)) for f in case["fields"]]
    if case["kind"] == "mutation":
        schema = Schema(query_type=ObjectType("Query", [Field("dummy", Int)]),
                        mutation_type=ObjectType("Mutation", root_fields))
    else:
        schema = Schema(query_type=ObjectType("Query", root_fields))
    if not methods:
        schema.default_resolver = r_default
    return schema


_PREP = {}


def prepared(case):
    """(schema, parsed document) of a case; built once (keyed by the canonical JSON of the case)."""
    from py_gql.lang import parse
    key = json.dumps(case, sort_keys=True)
    hit = _PREP.get(key)
    if hit is None:
        if len(_PREP) > 64:
            _PREP.clear()
        hit = _PREP[key] = (build_schema(case), parse(document(case)))
    return hit


def outcome_table(case):
    """response path (tuple) -> (field definition, fo) for every reachable field instance."""
    table = {}

    def w_rv(ty, rv, path):
        if ty["t"] == "nn":
            return w_rv(ty["of"], rv, path)
        if rv is None or rv in ("bad", "cerr") or ty["t"] == "int":
            return
        if ty["t"] == "list":
            for i, x in enumerate(list_items(rv)):
                w_rv(ty["of"], x, path + (i,))
        else:
            for f in ty["fields"]:
                w_f(f, rv[f["key"]], path + (f["key"],))

    def w_f(f, fo, path):
        table[path] = (f, fo)
        if fo["r"] == "ok":
            w_rv(f["ty"], fo["v"], path)

    for f in case["fields"]:
        w_f(f, f["out"], (f["key"],))
    return table


def py_value(ty, rv):
    """The Python value a resolver returns for `rv` at type `ty`."""
    if ty["t"] == "nn":
        return py_value(ty["of"], rv)
    if rv is None:
        return None
    if rv == "bad":
        return "not-an-int" if ty["t"] == "int" else 7
    if rv == "tonull":
        return "   "
    if rv == "cerr":
        return "cerr!" if ty["t"] == "int" else CerrMarker()
    if ty["t"] == "int":
        return rv
    if ty["t"] == "list":
        return lazy_or_list([py_value(ty["of"], x) for x in list_items(rv)], rv)
    return {"__obj__": True}


def lazy_or_list(items, rv):
    """a plain list, or — for {"lazy": …} — a generator that yields the items and then possibly raises ResolverError"""
    if not isinstance(rv, dict):
        return items

    def gen():
        for x in items:
            yield x
        if rv.get("fail"):
            raise _resolver_error_cls()("the lazy iterable failed after %d items" % len(items))
    return gen()


# ---------------------------------------------------------------------------
# worlds: one per configuration

class World:
    """Context value handed to the executor; resolvers call back into it."""
    config = "?"

    def __init__(self, case):
        self.case = case
        self.table = outcome_table(case)
        self.trace = []          # [kind, path]
        self.queue = []          # outstanding tasks (submission order)
        self.sizes = []
        self.choices = []
        self.boom_raised = 0
        self.methods = case.get("serve") == "methods"
        self.nomodel = False

    def root_value(self):
        return MethodObj(self, ()) if self.methods else None

    def objectify(self, ty, rv, path):
        """in `methods` mode object values are instances whose methods serve the sub-fields"""
        if ty["t"] == "nn":
            return self.objectify(ty["of"], rv, path)
        if rv is None or rv in ("bad", "tonull", "cerr") or ty["t"] == "int":
            return py_value(ty, rv)
        if ty["t"] == "list":
            return lazy_or_list([self.objectify(ty["of"], x, path + (i,)) for i, x in enumerate(list_items(rv))], rv)
        return MethodObj(self, path)

    # events -----------------------------------------------------------
    def ev(self, kind, path):
        self.trace.append([kind, list(path)])

    def body(self, path):
        """The resolver's real work: raises or returns the Python value."""
        f, fo = self.table[path]
        self.ev("body", path)
        try:
            if fo["r"] == "rerr":
                if sum(map(ord, str(path))) % 3 == 0:
                    raise _resolver_error_cls()("resolver error at %r" % (path,), extensions={"code": len(path)})
                raise _resolver_error_cls()("resolver error at %r" % (path,))
            if fo["r"] == "exc":
                self.boom_raised += 1
                raise make_unexpected(path)
            if self.methods:
                return self.objectify(f["ty"], fo["v"], path)
            return py_value(f["ty"], fo["v"])
        finally:
            self.ev("done", path)

    def resolve(self, info, explicit):
        path = tuple(info.path)
        self.ev("call", path)
        return self.body(path)


class BlockingWorld(World):
    pass


class MethodObj:
    """Root value / parent object whose METHODS are the resolvers (served by the library default resolver)."""

    def __init__(self, world, path):
        self.__dict__["_w"] = world
        self.__dict__["_p"] = tuple(path)

    def __getattr__(self, name):
        w, p = self.__dict__["_w"], self.__dict__["_p"] + (name,)
        entry = w.table.get(p)
        if entry is None:
            raise AttributeError(name)
        if w.config == "asyncio" and entry[0]["mode"] in ("deferred", "nested") and sum(map(ord, str(p))) % 3 == 0:
            # its body (and with it the `call` event) only starts when the loop schedules it — possibly never, if the
            # overall result fails first: no comparison with the callback model's trace for this run
            w.nomodel = True

            async def amethod(ctx, info, **kw):          # an `async def` method of the root / parent value
                r = w.resolve(info, False)
                return await r
            return amethod

        def method(ctx, info, **kw):
            return w.resolve(info, False)
        return method


class _Entry:
    __slots__ = ("fn", "args", "kwargs", "fut", "path", "stage", "started")


class ManualExecutor:
    """Stands in for ThreadPoolRuntime._inner: futures are completed by the harness."""

    def __init__(self, world):
        self.world = world

    def submit(self, fn, /, *args, **kwargs):
        e = _Entry()
        e.fn, e.args, e.kwargs = fn, args, kwargs
        e.fut = Future()
        if len(args) >= 3 and hasattr(args[2], "path"):
            e.path, e.stage = tuple(args[2].path), 1
            self.world.ev("call", e.path)
            if self.world.table.get(e.path, ({"mode": "deferred"},))[0]["mode"] == "ready":
                # the pool ran the task at once: the executor receives an already finished Future
                try:
                    r = fn(*args, **kwargs)
                except Watchdog:
                    raise
                except BaseException as err:  # noqa
                    e.fut.set_exception(err)
                else:
                    e.fut.set_result(r)
                return e.fut
        else:
            e.path, e.stage = getattr(fn, "label", ("?",)), 2
        self.world.queue.append(e)
        return e.fut

    def shutdown(self, *a, **k):
        pass


class _Inner:
    def __init__(self, world, path):
        self.world, self.label = world, path

    def __call__(self):
        return self.world.body(self.label)


class _Outer:
    """first stage of a nested deferred: a pool task whose result is the Future of another pool task"""

    def __init__(self, world, path, runtime):
        self.world, self.label, self.runtime = world, path, runtime

    def __call__(self):
        return self.runtime.submit(_Inner(self.world, self.label))


class ThreadPoolWorld(World):
    config = "threadpool"

    def resolve(self, info, explicit):
        path = tuple(info.path)
        f, fo = self.table[path]
        if not explicit and self.methods and f["mode"] != "sync":
            # a method of the root / parent value, called synchronously, that returns a Future itself
            self.ev("call", path)
            if f["mode"] == "deferred":
                return info.runtime.submit(_Inner(self, path))
            if f["mode"] == "nested":
                outer = _Outer(self, path, info.runtime)
                return info.runtime.submit(outer)
            fut = Future()                          # ready: already finished
            try:
                fut.set_result(self.body(path))
            except Watchdog:
                raise
            except BaseException as err:  # noqa
                fut.set_exception(err)
            return fut
        if not explicit:                       # default resolver: called synchronously by the executor
            self.ev("call", path)
            return self.body(path)
        # we are inside a pool task (the `call` event was recorded at submission)
        if f["mode"] == "nested":
            return info.runtime.submit(_Inner(self, path))
        return self.body(path)

    def complete(self, idx):
        e = self.queue.pop(idx)
        try:
            r = e.fn(*e.args, **e.kwargs)
        except Watchdog:
            raise
        except BaseException as err:  # noqa
            e.fut.set_exception(err)
        else:
            e.fut.set_result(r)


class AsyncWorld(World):
    config = "asyncio"

    def __init__(self, case, loop, all_gated=False):
        super().__init__(case)
        self.loop = loop
        self.all_gated = all_gated
        self.stuck = None

    def resolve(self, info, explicit):
        path = tuple(info.path)
        f, fo = self.table[path]
        self.ev("call", path)
        if f["mode"] == "sync":
            return self.body(path)
        if f["mode"] == "ready":
            fut = self.loop.create_future()
            try:
                fut.set_result(self.body(path))
            except Watchdog:
                raise
            except BaseException as err:  # noqa
                _set_loop_exception(fut, err)
            return fut
        e = _Entry()
        e.path, e.stage, e.started = path, (1 if f["mode"] == "nested" else 2), True
        self.queue.append(e)
        if self.all_gated or sum(map(ord, str(path))) % 2 == 0:
            # a GENUINE coroutine resolver: its body only starts when the event loop runs it, and then waits on a gate the
            # harness releases in the scheduled order. The task is outstanding from the invocation on (queue = call order):
            # siblings are gathered concurrently, so every invoked coroutine must have STARTED at the next quiescent point.
            e.fut, e.started = None, False

            async def coro(e=e):
                e.started = True
                e.fut = self.loop.create_future()
                return await e.fut
            return coro()
        e.fut = self.loop.create_future()
        return e.fut

    def complete(self, idx):
        e = self.queue[idx]
        if not e.started:
            # the resolver whose result should become available next has not even started: a later sibling is not run
            # until earlier ones finish - this completion order can never happen / the request would hang
            self.stuck = list(e.path)
            return False
        self.queue.pop(idx)
        if e.stage == 1:
            e2 = _Entry()
            e2.fut = self.loop.create_future()
            e2.path, e2.stage, e2.started = e.path, 2, True
            self.queue.append(e2)
            e.fut.set_result(e2.fut)
        else:
            try:
                r = self.body(e.path)
            except Watchdog:
                raise
            except BaseException as err:  # noqa
                _set_loop_exception(e.fut, err)
            else:
                e.fut.set_result(r)
        drain(self.loop)
        return True


def _set_loop_exception(fut, err):
    """what an `async def` resolver raising `err` gives: StopIteration cannot travel through an asyncio Future (PEP 479)"""
    if isinstance(err, StopIteration):
        new = RuntimeError("coroutine raised StopIteration")
        new.__cause__ = err
        err = new
    fut.set_exception(err)


def drain(loop, limit=100000):
    """Run the private loop until no callback is ready (atomic completion step)."""
    for _ in range(limit):
        loop.call_soon(loop.stop)
        loop.run_forever()
        if not loop._ready:
            return
    raise Watchdog()


_LOOP = None


def private_loop():
    global _LOOP
    if _LOOP is None or _LOOP.is_closed():
        _LOOP = asyncio.new_event_loop()
        _LOOP.set_exception_handler(lambda l, c: None)
    return _LOOP


def close_private_loop():
    global _LOOP
    if _LOOP is not None and not _LOOP.is_closed():
        _LOOP.close()
    _LOOP = None


def quiet():
    logging.getLogger("concurrent.futures").setLevel(logging.CRITICAL + 10)
    logging.getLogger("asyncio").setLevel(logging.CRITICAL + 10)
    warnings.filterwarnings("ignore", category=RuntimeWarning, message=".*was never awaited.*")


# ---------------------------------------------------------------------------
# canonical observation

def err_kind(err):
    from py_gql.exc import ResolverError
    if isinstance(err, _resolver_error_cls()):
        return "resolver"
    if type(err) is ResolverError:
        return "nonnull"
    return "other:" + type(err).__name__


def canon_errors(errors):
    out = [[list(e.path) if getattr(e, "path", None) is not None else None, err_kind(e)] for e in errors]
    return sorted(out, key=lambda x: json.dumps(x))


def exc_name(err):
    if isinstance(err, Boom) or getattr(err, "_harness_unexpected", False) \
            or getattr(getattr(err, "__cause__", None), "_harness_unexpected", False):
        return "Boom"
    if isinstance(err, RuntimeError):
        return "RuntimeError"
    return "other:" + type(err).__name__


def obs_of_result(world, result=None, exc=None, status=None, steps=0):
    o = {"nomodel": world.nomodel, "status": status, "trace": world.trace, "sizes": world.sizes, "steps": steps, "choices": world.choices}
    if status == "ok":
        o["data"] = result.data
        o["errors"] = canon_errors(result.errors)
    elif status == "failed":
        o["exc"] = exc_name(exc)
    return o


def pick(schedule, step, n):
    return (schedule[step] if step < len(schedule) else 0) % n


def run_blocking(case, generic=False, subclass=False):
    """BlockingExecutor, or the generic Executor on BlockingRuntime. No schedule."""
    from py_gql import process_graphql_query
    from py_gql.execution import BlockingExecutor, Executor
    from py_gql.execution.runtime import BlockingRuntime
    w = BlockingWorld(case)
    schema, doc = prepared(case)
    with watchdog():
        try:
            # the reference run goes through the full pipeline (document text, default validators)
            rt_cls = runtime_subclasses()["SubBlocking"] if subclass else BlockingRuntime
            res = process_graphql_query(schema, doc if generic else document(case), context=w, root=w.root_value(), runtime=rt_cls(),
                                        validators=[] if generic else None,
                                        executor_cls=Executor if generic else BlockingExecutor)
        except Watchdog:
            return obs_of_result(w, status="hang")
        except BaseException as err:  # noqa
            return obs_of_result(w, exc=err, status="failed")
    return obs_of_result(w, result=res, status="ok")


_SUBCLASSES = {}


def runtime_subclasses():
    """
    USER RUNTIMES: identity subclasses of the three stock runtimes, a BlockingRuntime SUBCLASS that defers work to a pool
    (futures it knows how to chain / gather / unwrap), and a runtime implementing the `Runtime` base directly.
    The pool is always the harness' manual executor (`_inner`), so completion order stays under control.
    """
    if _SUBCLASSES:
        return _SUBCLASSES
    import functools
    from py_gql.execution.runtime import AsyncIORuntime, BlockingRuntime, ThreadPoolRuntime
    from py_gql.execution.runtime import threadpool as tp
    from py_gql.execution.runtime.base import Runtime

    class SubThreadPool(ThreadPoolRuntime):
        pass

    class SubAsyncIO(AsyncIORuntime):
        pass

    class SubBlocking(BlockingRuntime):
        pass

    class _PoolMixin:
        def submit(self, func, *args, **kwargs):
            return self._inner.submit(func, *args, **kwargs)

        def ensure_wrapped(self, value):
            if tp._is_future_fast(value):
                return value
            outer = Future()
            outer.set_result(value)
            return outer

        def map_value(self, value, then, else_=None):
            return tp.chain(value, then, else_)

        def gather_values(self, values):
            return tp.gather_futures(values)

        def unwrap_value(self, value):
            return tp.unwrap_future(value)

        def wrap_callable(self, func):
            return functools.partial(self._inner.submit, func)

    class PoolBackedBlocking(_PoolMixin, BlockingRuntime):
        """derives from BlockingRuntime but off-loads resolvers to a pool"""

    class DirectRuntime(_PoolMixin, Runtime):
        """implements the Runtime base directly"""

    _SUBCLASSES.update({"SubThreadPool": SubThreadPool, "SubAsyncIO": SubAsyncIO, "SubBlocking": SubBlocking,
                        "PoolBackedBlocking": PoolBackedBlocking, "DirectRuntime": DirectRuntime})
    return _SUBCLASSES


def _run_threadpool(case, schedule, runtime, wd):
    from py_gql import process_graphql_query
    from py_gql.execution import Executor
    from py_gql.execution.runtime import ThreadPoolRuntime
    w = ThreadPoolWorld(case)
    schema, doc = prepared(case)
    if runtime in (None, "SubThreadPool"):
        rt = (ThreadPoolRuntime if runtime is None else runtime_subclasses()[runtime])(max_workers=1)
        rt._inner.shutdown(wait=False)
    else:
        rt = runtime_subclasses()[runtime]()
    rt._inner = ManualExecutor(w)
    steps = 0
    wd.world = w
    try:
        with wd:
            try:
                fut = process_graphql_query(schema, doc, context=w, root=w.root_value(), runtime=rt, executor_cls=Executor, validators=[])
            except Watchdog:
                raise
            except BaseException as err:  # noqa
                o = obs_of_result(w, exc=err, status="failed")
                o["raised_at_call"] = True          # no Future was returned: nothing to attach a done-callback to
                return o
            if not isinstance(fut, Future):
                return obs_of_result(w, status="not-a-future")
            while not fut.done() and w.queue:
                w.sizes.append(len(w.queue))
                w.choices.append(pick(schedule, steps, len(w.queue)))
                try:
                    w.complete(w.choices[-1])
                except Watchdog:
                    raise
                except BaseException:  # noqa  -- escaped from a done-callback: on a real pool it kills the worker's callback chain
                    pass
                steps += 1
            if not fut.done():
                return obs_of_result(w, status="pending", steps=steps)
            if fut.exception() is not None:
                return obs_of_result(w, exc=fut.exception(), status="failed", steps=steps)
            return obs_of_result(w, result=fut.result(), status="ok", steps=steps)
    except Watchdog:
        return obs_of_result(w, status="hang", steps=steps)


def run_threadpool(case, schedule, runtime=None):
    """
    One run on the manual executor. The world is single-threaded, so a blocking wait of the code under test on a
    pending future is detected deterministically (see `_Deadlock`) and reported as status="hang" - also when the code
    under test swallowed the detector's exception (`except BaseException: outer.set_exception(err)`).
    """
    wd = watchdog(single_threaded=True)
    obs = _run_threadpool(case, schedule, runtime, wd)
    if wd.blocked:
        obs = obs_of_result(wd.world, status="hang", steps=obs.get("steps", 0))
        obs["deterministic"] = wd.blocked
    return obs


def run_asyncio(case, schedule, runtime=None):
    from py_gql import process_graphql_query
    from py_gql.execution import Executor
    from py_gql.execution.runtime import AsyncIORuntime
    if runtime is not None:
        AsyncIORuntime = runtime_subclasses()[runtime]
    loop = private_loop()
    # resolver style: per case either a mix of returned futures and genuine coroutines, or ALL genuine gated coroutines
    all_gated = sum(map(ord, json.dumps(case, sort_keys=True))) % 2 == 0
    w = AsyncWorld(case, loop, all_gated=all_gated)
    schema, doc = prepared(case)
    rt = AsyncIORuntime(loop=loop, execute_blocking_functions_in_thread=False)
    steps = 0
    task = None
    try:
        with watchdog():
            try:
                aw = process_graphql_query(schema, doc, context=w, root=w.root_value(), runtime=rt, executor_cls=Executor, validators=[])
            except Watchdog:
                raise
            except BaseException as err:  # noqa
                o = obs_of_result(w, exc=err, status="failed")
                o["raised_at_call"] = True          # the call itself raised: there is no awaitable to await
                return o
            if not asyncio.iscoroutine(aw) and not asyncio.isfuture(aw):
                return obs_of_result(w, status="not-awaitable")
            task = asyncio.ensure_future(aw, loop=loop)
            drain(loop)
            while not task.done() and w.queue:
                w.sizes.append(len(w.queue))
                w.choices.append(pick(schedule, steps, len(w.queue)))
                if not w.complete(w.choices[-1]):
                    o = obs_of_result(w, status="pending", steps=steps)
                    o["stuck"] = w.stuck
                    return o
                steps += 1
            if not task.done():
                return obs_of_result(w, status="pending", steps=steps)
            if isinstance(task.exception(), Watchdog):
                return obs_of_result(w, status="hang", steps=steps)
            if task.exception() is not None:
                return obs_of_result(w, exc=task.exception(), status="failed", steps=steps)
            return obs_of_result(w, result=task.result(), status="ok", steps=steps)
    except Watchdog:
        return obs_of_result(w, status="hang", steps=steps)
    finally:
        try:
            for t in asyncio.all_tasks(loop):
                t.cancel()
            drain(loop)
            for e in w.queue:
                if e.fut is not None and not e.fut.done():
                    e.fut.cancel()
            drain(loop)
        except BaseException:  # noqa
            close_private_loop()


RUNNERS = {"threadpool": run_threadpool, "asyncio": run_asyncio,
           # user runtimes (subclasses): same worlds, same schedules, same oracles
           "threadpool/SubThreadPool": lambda c, s: run_threadpool(c, s, "SubThreadPool"),
           "threadpool/PoolBackedBlocking(BlockingRuntime)": lambda c, s: run_threadpool(c, s, "PoolBackedBlocking"),
           "threadpool/DirectRuntime(Runtime)": lambda c, s: run_threadpool(c, s, "DirectRuntime"),
           "asyncio/SubAsyncIO": lambda c, s: run_asyncio(c, s, "SubAsyncIO")}
SUBCLASS_CONFIGS = tuple(k for k in RUNNERS if "/" in k)


def confirm_hang(case, config, schedule):
    """Re-run one configuration with a long watchdog. True = it really does not complete (hang or pending)."""
    global WATCHDOG_S
    old = WATCHDOG_S
    WATCHDOG_S = CONFIRM_S
    try:
        if config == "blocking":
            obs = run_blocking(case)
        elif config == "generic-blocking":
            obs = run_blocking(case, generic=True)
        else:
            obs = RUNNERS[config](case, schedule or [])
    finally:
        WATCHDOG_S = old
    return obs["status"] in ("hang", "pending")


# ---------------------------------------------------------------------------
# schedules

def enumerate_schedules(run, cap):
    """
    All schedules of a dynamic task queue, by re-execution: `run(schedule) -> observation`
    (with obs["sizes"] = queue length before each completion). Yields (schedule, obs).
    Stops after `cap` schedules (returns False in the final `complete` flag through StopIteration value).
    """
    stack = [[]]
    n = 0
    while stack:
        prefix = stack.pop()
        obs = run(prefix)
        sizes = obs["sizes"]
        full = prefix + [0] * (len(sizes) - len(prefix))
        yield full[:len(sizes)], obs
        n += 1
        if n >= cap:
            return
        for pos in range(len(sizes) - 1, len(prefix) - 1, -1):
            for alt in range(1, sizes[pos]):
                stack.append(full[:pos] + [alt])


def random_schedule(rng, n=40):
    return [rng.randrange(0, 1000) for _ in range(n)]


LIFO = [-1] * 200      # pick() reduces modulo the queue length: -1 = the most recently submitted task


# ---------------------------------------------------------------------------
# C09 trace predicate (the statement itself)

def serial_violation(case, obs, kinds=("call", "body")):
    """
    None if the trace satisfies C09's ordering, else a short description.
    For every top-level field j: when its resolver is invoked, every event of every earlier top-level
    field's subtree has already happened, all of their invoked resolvers have finished, and nothing of
    an earlier subtree happens afterwards.
    """
    keys = [f["key"] for f in case["fields"]]
    pos = {k: i for i, k in enumerate(keys)}
    started = -1
    open_calls = {}
    for kind, path in obs["trace"]:
        top = pos[path[0]]
        if top < started:
            return "event %s %r of an earlier top-level field after %r started" % (kind, path, keys[started])
        if kind in kinds and len(path) == 1 and top > started:
            for p, c in open_calls.items():
                if c > 0:
                    return "resolver of %r invoked while %r of an earlier field is unfinished" % (path, list(p))
            if top != started + 1:
                return "top-level field %r invoked before %r" % (path, keys[started + 1])
            started = top
        if kind == "call":
            open_calls[tuple(path)] = open_calls.get(tuple(path), 0) + 1
        elif kind == "done":
            open_calls[tuple(path)] = open_calls.get(tuple(path), 0) - 1
    return None


# ---------------------------------------------------------------------------
# shrinking

def shrink(case, still_fails, budget=150, seconds=6.0):
    """Greedy structural shrinking; `still_fails(case) -> bool`. Bounded by attempts and wall-clock."""
    import time
    spent = [0]
    t_stop = time.time() + seconds

    def attempt(c):
        if spent[0] >= budget or time.time() > t_stop:
            return False
        spent[0] += 1
        try:
            return still_fails(c)
        except Watchdog:
            raise
        except Exception:
            return False

    def candidates(c):
        fs = c["fields"]
        # drop a top-level field
        for i in range(len(fs)):
            if len(fs) > 1:
                yield dict(c, fields=fs[:i] + fs[i + 1:])
        # per field simplifications
        for i, f in enumerate(fs):
            for g in simplify_field(f):
                yield dict(c, fields=fs[:i] + [g] + fs[i + 1:])

    def simplify_field(f):
        if f["mode"] != "sync":
            yield dict(f, mode="sync")
        if f["mode"] == "nested":
            yield dict(f, mode="deferred")
        if f["ty"] != {"t": "int"}:
            yield dict(f, ty={"t": "int"}, out={"r": "ok", "v": 1} if f["out"]["r"] == "ok" else f["out"])
        if f["out"]["r"] == "ok":
            for ty2, v2 in simplify_tv(f["ty"], f["out"]["v"]):
                yield dict(f, ty=ty2, out={"r": "ok", "v": v2})
        else:
            yield dict(f, out={"r": "ok", "v": None})

    def simplify_tv(ty, v):
        if ty["t"] == "nn":
            yield ty["of"], v
            for t2, v2 in simplify_tv(ty["of"], v):
                yield {"t": "nn", "of": t2}, v2
            return
        if v is None:
            return
        yield ty, None
        if v in ("cerr", "tonull", "bad"):
            return
        if ty["t"] == "list" and isinstance(v, dict):
            items = v["lazy"]
            yield ty, items                                  # not lazy any more
            for i in range(len(items)):
                yield ty, dict(v, lazy=items[:i] + items[i + 1:])
            return
        if ty["t"] == "list" and v != "bad":
            for i in range(len(v)):
                yield ty, v[:i] + v[i + 1:]
            for i, x in enumerate(v):
                # simplify one item keeping the item type
                for t2, x2 in simplify_tv(ty["of"], x):
                    if t2 == ty["of"]:
                        yield ty, v[:i] + [x2] + v[i + 1:]
            if len(v) == 1:
                yield ty["of"], v[0]
        if ty["t"] == "obj":
            fl = ty["fields"]
            if ty.get("abstract"):
                yield {k: x for k, x in ty.items() if k != "abstract"}, v
            for i in range(len(fl)):
                if len(fl) > 1:
                    t2 = dict(ty, fields=fl[:i] + fl[i + 1:])
                    yield t2, {k: x for k, x in v.items() if k != fl[i]["key"]}
            for i, fd in enumerate(fl):
                for g in simplify_field(dict(fd, out=v[fd["key"]])):
                    fd2 = {"key": g["key"], "mode": g["mode"], "ty": g["ty"]}
                    yield dict(ty, fields=fl[:i] + [fd2] + fl[i + 1:]), dict(v, **{fd["key"]: g["out"]})

    cur = case
    progress = True
    while progress and spent[0] < budget and time.time() < t_stop:
        progress = False
        for cand in candidates(cur):
            if not well_typed(cand):
                continue
            if attempt(cand):
                cur = cand
                progress = True
                break
    return cur


def well_typed(case):
    """Every instance value conforms to the definition type (list items share the item type's fields)."""
    def ok_rv(ty, rv):
        if ty["t"] == "nn":
            return ok_rv(ty["of"], rv)
        if rv is None:
            return True
        if rv == "bad":
            return ty["t"] in ("int", "list")
        if rv == "tonull":
            return ty["t"] == "int" and ty.get("scalar") == "trim"
        if rv == "cerr":
            return (ty["t"] == "int" and ty.get("scalar") == "trim") or (ty["t"] == "obj" and bool(ty.get("abstract")))
        if ty["t"] == "int":
            return isinstance(rv, int)
        if ty["t"] == "list":
            if isinstance(rv, dict):
                return set(rv) <= {"lazy", "fail"} and isinstance(rv.get("lazy"), list) and all(ok_rv(ty["of"], x) for x in rv["lazy"])
            return isinstance(rv, list) and all(ok_rv(ty["of"], x) for x in rv)
        return isinstance(rv, dict) and set(rv) == {f["key"] for f in ty["fields"]} and all(
            ok_fo(f["ty"], rv[f["key"]]) for f in ty["fields"])

    def ok_fo(ty, fo):
        return fo["r"] in ("rerr", "exc") or ok_rv(ty, fo["v"])

    return all(ok_fo(f["ty"], f["out"]) for f in case["fields"])

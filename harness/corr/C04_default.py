# -*- coding: utf-8 -*-
"""
C04, default-resolver stream: no resolver is installed; the root value and every parent value are PLAIN DATA
(dicts, nested dicts, objects with attributes, objects with callables, callables raising ResolverError), with keys
present / present-with-None / absent, over a schema whose field names collide with Mapping methods
(`items`, `keys`, `values`, `get`, `copy`, `pop`, `update`, `setdefault`). Compared: the real executor with the real
`default_resolver`, the Lean model (`DefaultResolver.lean` world through `Exec.lean`), the Lean spec and the Python
reference, on ORDERED data and the error multiset.
"""
import json

from corr import exec_common as X
from gen import operation as go
from canon_schema import ty_tuple

SDL = """
type Query { items: [Item], keys: String, values: Int, get: String, copy: Item, pop: Int, update: String,
             setdefault: String, node: Node, nodes: [Node!], plain: Item, count: Int!,
             page(info: Int = 1): Int, search(context: String): String, pick(root: Int, self: Int, args: Int, kwargs: Int): Int }
type Item implements Node { id: ID, items: [Item], keys: String, values: Int, get: String, copy: Item, name: String!, update: String }
type Other implements Node { id: ID, pop: Int, setdefault: String, values: Int }
interface Node { id: ID, values: Int }
"""

NATURAL = {"Int": [3, 0, -7], "String": ["s", "", "x y"], "Boolean": [True, False], "ID": ["id1", "7"],
           "Float": [{"$float": "1.5"}]}


def desc_from_dump(dump):
    types = []
    for t in dump["types"]:
        d = {"kind": t["kind"], "name": t["name"], "interfaces": t.get("interfaces", []), "members": t.get("members", []),
             "values": t.get("values", []),
             "fields": [{"name": f["name"], "type": ty_tuple(f["type"]),
                         "args": [{"name": a["name"], "type": ty_tuple(a["type"]), "default": None} for a in f["args"]]}
                        for f in t.get("fields", [])]}
        types.append(d)
    return {"types": types, "directives": [], "query": dump["query"], "mutation": dump["mutation"], "subscription": None}


# ---- data generation (PVal JSON: see lean/PyGqlModel/DefaultResolver.lean) -------------------------------------

def gen_value(rng, dump, types, t, depth):
    if t["k"] == "nonNull":
        return gen_value(rng, dump, types, t["t"], depth)
    if rng.random() < 0.12:
        return {"t": "none"}
    if t["k"] == "list":
        return {"t": "list", "items": [gen_value(rng, dump, types, t["t"], depth + 1) for _ in range(rng.randint(0, 2))]}
    name = t["n"]
    td = types.get(name)
    if td is None:
        return {"t": "leaf", "v": rng.choice(NATURAL.get(name, [1]))}
    if td["kind"] == "object":
        return gen_object(rng, dump, types, name, depth + 1)
    if td["kind"] in ("interface", "union"):
        poss = [o["name"] for o in dump["types"] if o["kind"] == "object" and (name in o["interfaces"] or o["name"] in td["members"])]
        return gen_object(rng, dump, types, rng.choice(poss), depth + 1) if poss else {"t": "none"}
    return {"t": "leaf", "v": 1}


def gen_object(rng, dump, types, tname, depth):
    if depth > 3:
        return {"t": "none"}
    as_dict = rng.random() < 0.6
    kv, calls, raises = [["__typename__", {"t": "leaf", "v": tname}]], [], []
    for f in types[tname]["fields"]:
        r = rng.random()
        if r < 0.3:
            continue                                     # ABSENT
        v = {"t": "none"} if r < 0.42 else gen_value(rng, dump, types, f["type"], depth)   # present-with-None / value
        if as_dict:
            kv.append([f["name"], v])
        else:
            c = rng.random()
            if c < 0.6:
                kv.append([f["name"], v])
            elif c < 0.93:
                calls.append([f["name"], v])
            else:
                raises.append([f["name"], "boom-" + f["name"]])
    # `py`: the Python representation (ignored by the Lean side). All objects of one style are instances of ONE class,
    # whatever their GraphQL type: the type name is instance state.
    if as_dict:
        return {"t": "dict", "kv": kv, "py": rng.choice(["dict", "dict", "dict-subclass"])}
    return {"t": "obj", "attrs": kv, "calls": calls, "raises": raises, "py": rng.choice(["Obj", "Obj", "SimpleNamespace", "property"])}


def pval_to_py(p):
    """the real Python value"""
    from py_gql.exc import ResolverError
    t = p["t"]
    if t == "none":
        return None
    if t == "leaf":
        v = p["v"]
        return float(v["$float"]) if isinstance(v, dict) else v
    if t == "list":
        return [pval_to_py(x) for x in p["items"]]
    if t == "dict":
        d = {k: pval_to_py(v) for k, v in p["kv"]}
        return X.DictSub(d) if p.get("py") == "dict-subclass" else d
    import types as _t
    style = p.get("py", "Obj")
    if style == "SimpleNamespace":
        o = _t.SimpleNamespace()
    elif style == "property":
        o = X.PropObj(None)
    else:
        o = PlainObj()
    for k, v in p["attrs"]:
        if k == "__typename__" and style == "property":
            o._tn = pval_to_py(v)
        else:
            setattr(o, k, pval_to_py(v))
    for k, v in p["calls"]:
        # collision-free callables: (context, info) arrive positionally, field arguments of ANY name as keywords
        setattr(o, k, (lambda val: (lambda *positional, **args: val))(pval_to_py(v)))
    for k, m in p["raises"]:
        def raiser(*positional, _m=m, **args):
            raise ResolverError(_m)
        setattr(o, k, raiser)
    return o


def with_style(p, style):
    """copy of a PVal with every object represented in the given Python style"""
    if p["t"] == "list":
        return dict(p, items=[with_style(x, style) for x in p["items"]])
    if p["t"] == "dict":
        return dict(p, kv=[[k, with_style(v, style)] for k, v in p["kv"]])
    if p["t"] == "obj":
        return dict(p, py=style, attrs=[[k, with_style(v, style)] for k, v in p["attrs"]],
                    calls=[[k, with_style(v, style)] for k, v in p["calls"]])
    return p


class PlainObj(object):
    """ONE class for every object-typed value of the plain-data stream"""


class DataWorld:
    """Python REFERENCE of default resolution over PVal data (same interface as exec_common.World)"""

    def __init__(self, schema_d, root):
        self.d = schema_d
        self.root = root
        self.types = {t["name"]: t for t in schema_d["types"]}
        self.seed, self.mode = 0, 0

    possible = X.World.possible

    @staticmethod
    def lookup(p, name):
        """('value', pval) | ('raised', msg)"""
        if p["t"] == "dict":
            for k, v in p["kv"]:
                if k == name:
                    return ("value", v)
            return ("value", {"t": "none"})
        if p["t"] == "obj":
            for group in ("attrs", "calls"):
                for k, v in p[group]:
                    if k == name:
                        return ("value", v)
            for k, m in p["raises"]:
                if k == name:
                    return ("raised", m)
        return ("value", {"t": "none"})

    def at(self, path):
        cur = self.root
        for seg in path:
            if isinstance(seg, int):
                if cur["t"] != "list" or seg >= len(cur["items"]):
                    return None
                cur = cur["items"][seg]
            else:
                r = self.lookup(cur, seg)
                if r[0] != "value":
                    return None
                cur = r[1]
        return cur

    def raw(self, p):
        t = p["t"]
        if t == "none":
            return None
        if t == "leaf":
            return p["v"]
        if t == "list":
            return ("list", [self.raw(x) for x in p["items"]])
        kv = p["kv"] if t == "dict" else p["attrs"]
        tn = "dict" if t == "dict" else "O"
        for k, v in kv:
            if k == "__typename__" and v["t"] == "leaf" and isinstance(v["v"], str):
                tn = v["v"]
                break
        return ("obj", tn)

    def outcome(self, parent, field, ftype, path, args):
        pv = self.at(path[:-1])
        if pv is None:
            return ("val", None)
        r = self.lookup(pv, field)
        if r[0] == "raised":
            return ("err", r[1], None)
        return ("val", self.raw(r[1]))


def canon_error_plain(e):
    from py_gql.exc import CoercionError, ResolverError
    locs = [n.loc[0] for n in (getattr(e, "nodes", None) or []) if getattr(n, "loc", None)]
    path = list(e.path) if getattr(e, "path", None) is not None else None
    msg = getattr(e, "message", "")
    if isinstance(e, CoercionError):
        return {"kind": "coercion", "path": path, "locs": locs, "msg": None, "ext": None}
    if isinstance(getattr(e, "__cause__", None), CoercionError):
        return X.canon_error(e)        # invalid @skip/@include condition at run time (4e87d3d): kind "directive"
    if isinstance(e, ResolverError) and msg.startswith("boom-"):
        return {"kind": "resolver", "path": path, "locs": locs, "msg": msg, "ext": None}
    return {"kind": "nonnull", "path": path, "locs": locs, "msg": None, "ext": None}


def run_impl_default(schema, text, root, opname=None):
    from py_gql import graphql_blocking
    try:
        r = graphql_blocking(schema, text, root=root, operation_name=opname)
    except RecursionError:
        return {"internal": "RecursionError"}
    except Exception as e:  # noqa
        return {"internal": type(e).__name__, "msg": str(e)[:200]}
    from py_gql.execution.wrappers import _UNSET
    from py_gql.exc import ExecutionError, VariableCoercionError
    if r.data is _UNSET or (r.data is None and r.errors and all(getattr(e, "path", None) is None for e in r.errors)
                            and any(isinstance(e, (ExecutionError, VariableCoercionError)) for e in r.errors)):
        return {"abort": "operation"}
    return {"data": X.canon_data(r.data), "errors": [canon_error_plain(e) for e in r.errors]}


def one_case(ctx, schema, dump, text, root, label=None, opname=None):
    """returns (case dict, impl, pyspec) or None when the document is not executed"""
    from py_gql.lang import parse
    from py_gql.validation import validate_ast
    ast = parse(text)
    if validate_ast(schema, ast).errors:
        ctx.stat("default-resolver:invalid")
        return None
    docj = X.doc_to_json(ast, schema, {})
    impl = run_impl_default(schema, text, pval_to_py(root), opname)
    spec = X.py_spec_run(dump, docj, opname, {}, DataWorld(dump, root))
    ctx.count()
    case = {"sdl": SDL, "document": text, "root": root, "stream": "default-resolver", "label": label, "operation_name": opname}
    if "internal" in impl:
        ctx.fail("default-resolver:internal-exception:%s" % impl["internal"],
                 "a valid operation over plain data (default resolver) raised %s" % impl["internal"],
                 dict(case, impl=impl, spec=spec))
    elif not X.results_agree(impl, spec, dedup_locs=True):
        from corr.C04 import classify
        ctx.fail("default-resolver:differs-from-spec:%s" % classify(impl, spec),
                 "with the default resolver over plain data the response differs from the specification "
                 "(Mapping: value or null, never attributes/methods; object: attribute, else call the callable)",
                 dict(case, impl=impl, spec=spec))
    return case, impl, docj


FIXED = [
    ("dict-method-names-absent", "{ items { id } keys values get copy { id } pop update setdefault count }", {"t": "dict", "kv": []}),
    ("dict-method-names-none", "{ items { id } keys values get pop update setdefault }",
     {"t": "dict", "kv": [[k, {"t": "none"}] for k in ("items", "keys", "values", "get", "pop", "update", "setdefault")]}),
    ("nested-dict-absent", "{ plain { id items { id } keys values get copy { name } update name } }",
     {"t": "dict", "kv": [["plain", {"t": "dict", "kv": [["id", {"t": "leaf", "v": "i"}]]}]]}),
    ("object-attributes-and-callables", "{ keys values get plain { name keys } }",
     {"t": "obj", "attrs": [["keys", {"t": "leaf", "v": "k"}]], "calls": [["values", {"t": "leaf", "v": 3}], ["plain", {"t": "dict", "kv": [["name", {"t": "leaf", "v": "n"}]]}]],
      "raises": [["get", "boom-get"]]}),
    ("abstract-over-dicts", "{ node { __typename id values ... on Other { pop setdefault } ... on Item { keys get } } nodes { id values } }",
     {"t": "dict", "kv": [["node", {"t": "dict", "kv": [["__typename__", {"t": "leaf", "v": "Other"}], ["id", {"t": "leaf", "v": "o1"}]]}],
                          ["nodes", {"t": "list", "items": [{"t": "dict", "kv": [["__typename__", {"t": "leaf", "v": "Item"}]]}]}]]}),
    ("abstract-over-one-class", "{ nodes { __typename id values ... on Other { pop setdefault } ... on Item { keys get name } } node { __typename ... on Item { keys } ... on Other { pop } } }",
     {"t": "obj", "calls": [], "raises": [], "attrs": [
         ["nodes", {"t": "list", "items": [
             {"t": "obj", "calls": [], "raises": [], "attrs": [["__typename__", {"t": "leaf", "v": "Other"}], ["id", {"t": "leaf", "v": "o1"}], ["pop", {"t": "leaf", "v": 3}]]},
             {"t": "obj", "calls": [], "raises": [], "attrs": [["__typename__", {"t": "leaf", "v": "Item"}], ["id", {"t": "leaf", "v": "i1"}], ["keys", {"t": "leaf", "v": "k"}], ["name", {"t": "leaf", "v": "n"}]]},
             {"t": "obj", "calls": [], "raises": [], "attrs": [["__typename__", {"t": "leaf", "v": "Other"}], ["setdefault", {"t": "leaf", "v": "d"}]]}]}],
         ["node", {"t": "obj", "calls": [], "raises": [], "attrs": [["__typename__", {"t": "leaf", "v": "Item"}], ["keys", {"t": "leaf", "v": "kk"}]]}]]}),
    ("protocol-argument-names-dict", "{ page search(context: \"c\") pick(root: 7, self: 1, args: 2, kwargs: 3) keys }",
     {"t": "dict", "kv": [["page", {"t": "leaf", "v": 5}], ["search", {"t": "leaf", "v": "s"}], ["pick", {"t": "leaf", "v": 4}]]}),
    ("protocol-argument-names-object", "{ page search(context: \"c\") pick(root: 7, self: 1, args: 2, kwargs: 3) }",
     {"t": "obj", "calls": [], "raises": [], "attrs": [["page", {"t": "leaf", "v": 5}], ["search", {"t": "leaf", "v": "s"}], ["pick", {"t": "leaf", "v": 4}]]}),
    ("protocol-argument-names-default-only", "{ page }", {"t": "dict", "kv": [["page", {"t": "leaf", "v": 5}]]}),
    ("root-none", "{ keys values items { id } }", {"t": "none"}),
    # audit C04-F1 / fix d72dd53: a bool at an Int position is the INTEGER 1 / 0 in the response (JSON `1`, not `true`);
    # the model's serializeInt and the Python reference returned the bool until round ex2 (json.dumps tells them apart)
    ("bool-at-int-position", "{ values pop count }",
     {"t": "dict", "kv": [["values", {"t": "leaf", "v": True}], ["pop", {"t": "leaf", "v": False}], ["count", {"t": "leaf", "v": True}]]}),
]


# values that are NOT lists at list positions: a string / bytes is never iterated (RuntimeError "should be iterable")
NOT_ITERATED = [
    ("str-at-list-position", "{ items { id } keys }", {"items": "ab", "keys": "k"}),
    ("bytes-at-list-position", "{ items { id } }", {"items": b"ab"}),
    ("str-at-nonnull-item-list", "{ nodes { id } }", {"nodes": "x"}),
    ("int-at-list-position", "{ items { id } }", {"items": 5}),
]


def not_iterated(ctx, schema):
    for label, text, root in NOT_ITERATED:
        impl = run_impl_default(schema, text, root)
        ctx.count()
        if impl.get("internal") != "RuntimeError":
            ctx.fail("default-resolver:non-list-at-list-position:%s" % label,
                     "a value that is not a list (string, bytes, number) at a list position must end in RuntimeError "
                     "(\"resolved value should be iterable\"), it is never iterated character by character",
                     {"sdl": SDL, "document": text, "root_repr": repr(root), "impl": impl, "stream": "default-resolver-negative"})


def run(ctx):
    from py_gql import build_schema
    from canon_schema import dump_schema
    rng = ctx.rng
    schema = build_schema(SDL)             # NO resolver installed: default_resolver everywhere
    dump = dump_schema(schema)
    desc = desc_from_dump(dump)
    types = {t["name"]: t for t in dump["types"]}
    not_iterated(ctx, schema)
    use_lean = ctx.model_ok and ctx.driver.available()
    batch = []
    todo = [(lab, text, root, None) for lab, text, root in FIXED]
    for lab, text, root in FIXED:
        if lab == "abstract-over-one-class":
            for style in ("SimpleNamespace", "property"):
                todo.append((lab + ":" + style, text, with_style(root, style), None))
    for i in range(ctx.n(60, 400)):
        op = go.gen_operation(rng, desc, size=rng.randint(1, 3), p_alias=0.0, p_directive=0.1)
        if "$" in op["text"] or ":" in op["text"].split("{", 1)[-1].replace("(if:", ""):
            ctx.stat("default-resolver:skipped-alias-or-variable")
            continue
        root = gen_object(rng, dump, types, "Query", 0) if rng.random() < 0.93 else {"t": "none"}
        todo.append((None, op["text"], root, op["opname"]))
    for lab, text, root, opname in todo:
        if ctx.time_left() < 8:
            break
        try:
            r = one_case(ctx, schema, dump, text, root, lab, opname)
        except Exception as e:  # noqa
            ctx.stat("default-resolver:harness-error:" + type(e).__name__)
            continue
        if r is None:
            continue
        case, impl, docj = r
        ctx.stat("default-resolver:executed")
        if "data" in impl and impl["data"]:
            ctx.nontrivial(("default-resolver", text, json.dumps(root, sort_keys=True)))
        if use_lean:
            batch.append((case, impl, docj))
    if use_lean and batch:
        reqs = [{"op": "exec", "schema": dump, "doc": docj, "opname": case["operation_name"], "vars": {}, "seed": 0, "mode": 0, "root": case["root"]}
                for case, impl, docj in batch]
        for (case, impl, docj), a in zip(batch, ctx.driver.ask(reqs)):
            ctx.stat("default-resolver:lean-compared")
            model = a.get("model")
            if model is None or not X.results_agree(impl, model, dedup_locs=False):
                ctx.fail("corr:default-resolver:model-vs-impl", "Lean model of default resolution and the real executor differ",
                         dict(case, impl=impl, model=model), kind="correspondence")
            spec = a.get("spec")
            if spec is not None and not X.results_agree(impl, spec, dedup_locs=True):
                ctx.fail("default-resolver:differs-from-spec:lean", "response differs from the Lean specification under default resolution",
                         dict(case, impl=impl, spec=spec))
    if todo:
        ctx.sample({"stream": "default-resolver", "document": todo[-1][1][:300], "root": json.dumps(todo[-1][2])[:300]})


def replay(ctx, inp):
    from py_gql import build_schema
    from canon_schema import dump_schema
    from py_gql.lang import parse
    schema = build_schema(inp["sdl"])
    dump = dump_schema(schema)
    docj = X.doc_to_json(parse(inp["document"]), schema, {})
    impl = run_impl_default(schema, inp["document"], pval_to_py(inp["root"]), inp.get("operation_name"))
    spec = X.py_spec_run(dump, docj, inp.get("operation_name"), {}, DataWorld(dump, inp["root"]))
    ok = "internal" not in impl and X.results_agree(impl, spec, dedup_locs=True)
    if not ok:
        print("impl:", json.dumps(impl)[:1200])
        print("spec:", json.dumps(spec)[:1200])
    return ok

# -*- coding: utf-8 -*-
"""
C11 — the PUBLIC `extend_schema(schema, document, strict=…)` against its Lean model
(`PyGqlModel/SdlExtend.lean`: `collectExtensions`, `extendSchemaPublic`, `buildThenExtend`).

Called from corr/C11.py (`run_extend` collects the generated valid cases; `run_probes` adds a DETERMINISTIC block of
named extension documents — one per branch of `_collect_extensions` and per rejection of the extension pass — each
with strict=True and strict=False).

Direct oracle (kind=property), exactly what the property states: an extension document that breaks a rule is rejected
with a library schema/SDL error, never another exception; a valid one is accepted.  Everything finer (what a
non-strict call silently skips, the resulting content) is compared with the model (kind=correspondence).
"""
import json

BASE = ('"""root""" type Query { a: Int f(i: I = {x: 1}, e: E = A): Int } enum E { A B } input I { x: Int y: E = B } '
        'interface N { id: ID } type T implements N { id: ID } union U = T scalar S '
        'directive @d(a: E = A) on FIELD_DEFINITION')

# (label, extension document, expectation under strict=True, expectation under strict=False)
#   "ok"  valid: must be accepted        "rej" breaks a rule: must be rejected with a library error
#   "any" strict=False documents the offending part as silently ignored: only "no other exception" is asked
PROBES = [
    ("new-type", "type A { a: Int q: Query }", "ok", "ok"),
    ("new-type-and-extension-before-it", "extend type A { b: E } type A { a: Int }", "ok", "ok"),
    ("new-directive", "directive @n(a: I = {x: 2}) on FIELD", "ok", "ok"),
    ("extend-old-types-of-every-kind",
     "extend type Query { b: T } extend enum E { C } extend input I { z: [I] v: [E!] = [C, A] } extend interface N { n: Int } "
     "extend type T { n: Int } extend union U = Query", "ok", "ok"),
    ("new-root-through-extend-schema", "type M { m: Int } extend schema { mutation: M }", "ok", "ok"),
    ("new-type-with-conventional-root-name", "type Mutation { m: Int }", "ok", "ok"),
    ("old-default-completed-by-new-field", "extend input I { w: Int = 7 }", "ok", "ok"),
    ("new-default-uses-new-enum-value", "extend enum E { Z } extend type Query { g(e: E = Z): Int }", "ok", "ok"),
    ("executable-definitions-only", "{ a }", "ok", "ok"),
    ("empty-effect-redefinitions-only", "type Query { zz: Int }", "rej", "any"),
    ("redefines-type", "type T { x: Int } type A { a: Int }", "rej", "any"),
    ("redefines-specified-scalar", "scalar Int type A { a: Int }", "rej", "any"),
    ("redefines-directive", "directive @d on FIELD type A { a: Int }", "rej", "any"),
    ("redefines-specified-directive", "directive @skip on FIELD type A { a: Int }", "rej", "any"),
    ("schema-definition", "schema { query: Query } type A { a: Int }", "rej", "any"),
    ("unknown-target", "extend type Nope { a: Int } type A { a: Int }", "rej", "any"),
    ("new-type-twice", "type A { a: Int } type A { b: Int }", "rej", "rej"),
    ("new-directive-twice", "directive @n on FIELD directive @n on FIELD", "rej", "rej"),
    ("wrong-kind-extension", "extend enum Query { A }", "rej", "rej"),
    ("wrong-kind-extension-of-new-type", "type A { a: Int } extend input A { a: Int }", "rej", "rej"),
    ("wrong-kind-extension-of-specified-type", "extend type Int { a: Int }", "rej", "rej"),
    ("duplicate-field", "extend type Query { a: String }", "rej", "rej"),
    ("duplicate-enum-value", "extend enum E { A }", "rej", "rej"),
    ("duplicate-input-field", "extend input I { x: Int }", "rej", "rej"),
    ("duplicate-union-member", "extend union U = T", "rej", "rej"),
    ("duplicate-interface", "extend type T implements N", "rej", "rej"),
    ("root-already-set", "type M { m: Int } extend schema { query: M }", "rej", "rej"),
    ("root-twice", "type M { m: Int } extend schema { mutation: M } extend schema { mutation: M }", "rej", "rej"),
    ("root-unknown-type", "extend schema { mutation: Nope }", "rej", "rej"),
    ("unknown-reference", "extend type Query { x: Nope }", "rej", "rej"),
    ("unknown-argument-type", "extend type Query { x(a: Nope): Int }", "rej", "rej"),
    ("bad-default", "extend type Query { x(a: Int = \"s\"): Int }", "rej", "rej"),
    ("new-required-field-invalidates-old-default", "extend input I { req: Int! }", "rej", "rej"),
    ("enum-value-true", "extend enum E { true }", "rej", "rej"),
    ("union-of-itself", "union V = V", "rej", "rej"),
    ("syntax-error", "type {", "rej", "rej"),
]


def real_collect(base_schema, ext_text, strict):
    """What `_collect_extensions` keeps, read through the private function (names only)."""
    from py_gql.lang import parse
    from py_gql.sdl.schema_from_ast import _collect_extensions
    from py_gql.exc import SDLError, SchemaError, GraphQLSyntaxError
    try:
        doc = parse(ext_text, allow_type_system=True)
        se, td, dd, te = _collect_extensions(base_schema, doc, strict=strict)
    except (SDLError, SchemaError, GraphQLSyntaxError) as e:
        return ("rej", type(e).__name__)
    except Exception as e:  # noqa
        return ("exc", "internal:" + type(e).__name__)
    order = []
    for d in doc.definitions:
        n = getattr(getattr(d, "name", None), "value", None)
        if n in te and d in te[n]:
            order.append(n)
    return ("ok", {"types": list(td), "directives": list(dd), "exts": order, "schema_exts": len(se)})


def compare(ctx, a, real, detail, what, canon, sort_dump, diff_path):
    """model answer `a` of op=extend vs real_extend outcome"""
    if "base" in a:
        if real[0] != "base":
            ctx.fail("corr:extend:model-base-fails:%s" % a["base"], "model cannot build the base schema the implementation builds", detail,
                     kind="correspondence")
        return
    if real[0] == "base":
        return
    if real[0] == "ok":
        if "ok" not in a:
            ctx.fail("corr:extend:model-rejects:%s:%s" % (what, a.get("err")), "model rejects (%s), extend_schema accepts" % a.get("err"), detail,
                     kind="correspondence")
            return
        m = sort_dump(a["ok"])
        if canon(m) != canon(real[1]):
            p = diff_path(real[1], m)
            ctx.fail("corr:extend:dump:%s:%s" % (what, p), "model and extend_schema differ at " + p, dict(detail, model_dump=m, real_dump=real[1]),
                     kind="correspondence")
    elif real[0] == "rej":
        if real[1] == "validation":
            return                 # Schema.validate (C13) is not part of the model
        if "ok" in a:
            ctx.fail("corr:extend:model-accepts:%s:%s" % (what, real[2]), "extend_schema rejects (%s), model accepts" % real[2], detail,
                     kind="correspondence")
        elif str(a.get("err", "")).startswith("internal"):
            ctx.fail("corr:extend:model-internal:%s" % what, "extend_schema rejects properly, model takes an internal branch", detail,
                     kind="correspondence")
        elif a.get("err") == "ext" and real[2] != "ExtensionError":
            ctx.fail("corr:extend:class:%s:%s" % (what, real[2]), "model says ExtensionError, extend_schema raises " + real[2], detail,
                     kind="correspondence")
    else:
        if a.get("err") != real[1]:
            ctx.fail("corr:extend:internal:%s:%s" % (what, real[1]), "extend_schema raises %s, model says %s" % (real[1], a.get("err", "ok")), detail,
                     kind="correspondence")


def run_probes(ctx, real_extend, doc_items, canon, sort_dump, diff_path):
    """The deterministic block: every probe × strict ∈ {True, False}.  Returns the model requests it made."""
    from py_gql import build_schema
    from py_gql.lang import parse
    base_schema = build_schema(BASE)
    base_items = doc_items(parse(BASE, allow_type_system=True))
    cases = []
    for label, ext, exp_strict, exp_lax in PROBES:
        for strict, exp in ((True, exp_strict), (False, exp_lax)):
            real = real_extend(BASE, ext, strict)
            ctx.count()
            ctx.stat("extend-probe:%s:%s" % ("strict" if strict else "lax", real[0]))
            ctx.nontrivial(("extend-probe", label, strict))
            detail = {"base_sdl": BASE, "ext_sdl": ext, "strict": strict, "probe": label}
            mode = "strict" if strict else "lax"
            if real[0] == "exc":
                ctx.fail("extend-probe:%s:%s:%s" % (real[1], label, mode), "extend_schema raises %s on probe %s" % (real[1], label), detail)
            elif exp == "ok" and real[0] != "ok":
                ctx.fail("extend-probe:valid-rejected:%s:%s" % (label, mode), "a valid extension document is rejected with %s" % real[2], detail)
            elif exp == "rej" and real[0] != "rej":
                ctx.fail("extend-probe:invalid-accepted:%s:%s" % (label, mode), "an extension document that breaks a rule is accepted", detail)
            try:
                b_items = doc_items(parse(ext, allow_type_system=True))
            except Exception:  # noqa   (syntax error: nothing to send)
                continue
            rc = real_collect(base_schema, ext, strict)
            cases.append({"label": label, "strict": strict, "real": real, "collect": rc, "detail": detail,
                          "req": {"op": "extend", "doc": base_items, "ext": b_items, "strict": strict},
                          "creq": {"op": "collect_ext", "doc": base_items, "ext": b_items, "strict": strict}})
    return cases


def run_lax_stream(ctx, sdl, real_extend, extension_doc, canon, diff_path, out_cases):
    """Generated extension documents with parts that strict mode refuses and non-strict mode ignores: a redefinition of a
    type / directive of the base schema, a `schema` block, an extension of an unknown type.  strict=True must reject (direct
    oracle: a document that breaks a rule of strict extension is rejected with a library error); strict=False is compared
    with the model AND with the result on the document without those parts (`extend_lax_is_strict_on_kept`)."""
    import copy
    n = ctx.n(12, 80)
    for k in range(n):
        if ctx.time_left() < 10:
            ctx.notes.append("lax stream cut short at %d" % k)
            break
        D, items = sdl.gen_doc(ctx.rng, size=1, p_ext=ctx.rng.choice([0.0, 0.4]))
        a_items = sdl.permute(ctx.rng, items)
        a_text = sdl.render(a_items)
        B, both = extension_doc(ctx.rng, D)
        try:
            expected = sdl.expected_dump(both)
        except sdl.Invalid:
            continue
        junk = []
        olds = [i for i in items if i["k"] == "type"]
        if olds and ctx.rng.random() < 0.7:
            junk.append(("redefinition", copy.deepcopy(ctx.rng.choice(olds))))
        dirs = [i for i in items if i["k"] == "directive"]
        if dirs and ctx.rng.random() < 0.5:
            junk.append(("directive-redefinition", copy.deepcopy(ctx.rng.choice(dirs))))
        if ctx.rng.random() < 0.5:
            junk.append(("schema-block", {"k": "schema", "ops": [{"op": "query", "type": D["query"]}], "dirs": []}))
        if ctx.rng.random() < 0.6 or not junk:
            junk.append(("unknown-target", {"k": "ext", "kind": "object", "name": "Nope", "desc": None, "interfaces": [], "members": [], "values": [],
                                            "input_fields": [], "dirs": [],
                                            "fields": [{"name": "zz", "desc": None, "args": [], "type": {"k": "named", "n": "Int"}, "dirs": []}]}))
        order = sdl.permute(ctx.rng, B)
        for _, j in junk:
            order.insert(ctx.rng.randint(0, len(order)), j)
        labels = "+".join(sorted(l for l, _ in junk))
        b_text = sdl.render(order)
        ctx.stat("extend-lax-stream:" + labels)
        ctx.nontrivial(("extend-lax", a_text, b_text))
        # strict: rejected
        real_s = real_extend(a_text, b_text, True)
        ctx.count()
        detail = {"base_sdl": a_text, "ext_sdl": b_text, "strict": True, "ignored_in_lax": labels}
        if real_s[0] == "base":
            continue
        if real_s[0] == "ok":
            ctx.fail("extend-lax-stream:invalid-accepted:strict:" + labels, "strict extend_schema accepts a document with " + labels, detail)
        elif real_s[0] == "exc":
            ctx.fail("extend-lax-stream:%s:strict:%s" % (real_s[1], labels), "strict extend_schema raises " + real_s[1], detail)
        out_cases.append({"real": real_s, "detail": detail, "req": {"op": "extend", "doc": a_items, "ext": order, "strict": True}})
        # lax: the ignored parts change nothing
        real_l = real_extend(a_text, b_text, False)
        ctx.count()
        detail = {"base_sdl": a_text, "ext_sdl": b_text, "strict": False, "ignored_in_lax": labels, "expected": expected}
        if real_l[0] == "exc":
            ctx.fail("extend-lax-stream:%s:lax:%s" % (real_l[1], labels), "non-strict extend_schema raises " + real_l[1], detail)
        elif real_l[0] == "rej":
            ctx.fail("corr:extend-lax-stream:rejected:%s:%s" % (real_l[2], labels), "non-strict extend_schema rejects what it documents as ignored",
                     detail, kind="correspondence")
        elif canon(real_l[1]) != canon(expected):
            pth = diff_path(expected, real_l[1])
            ctx.fail("corr:extend-lax-stream:not-ignored:%s:%s" % (labels, pth), "non-strict extend_schema: the ignored parts change the result at " + pth,
                     dict(detail, got=real_l[1]), kind="correspondence")
        out_cases.append({"real": real_l, "detail": {"base_sdl": a_text, "ext_sdl": b_text, "strict": False, "ignored_in_lax": labels},
                          "req": {"op": "extend", "doc": a_items, "ext": order, "strict": False}})


def run_model(ctx, probe_cases, generated_cases, canon, sort_dump, diff_path):
    if not ctx.model_ok or not ctx.driver.available():
        return
    reqs = [c["req"] for c in probe_cases] + [c["creq"] for c in probe_cases] + [c["req"] for c in generated_cases]
    if not reqs:
        return
    ans = ctx.driver.ask(reqs)
    n = len(probe_cases)
    for c, a in zip(probe_cases, ans[:n]):
        ctx.count()
        compare(ctx, a, c["real"], dict(c["detail"], model=a if "ok" not in a else "ok"), "probe:" + c["label"] + (":strict" if c["strict"] else ":lax"),
                canon, sort_dump, diff_path)
    for c, a in zip(probe_cases, ans[n:2 * n]):
        ctx.count()
        rc = c["collect"]
        what = c["label"] + (":strict" if c["strict"] else ":lax")
        detail = dict(c["detail"], model=a, real_collect=rc)
        if rc[0] == "ok":
            if a.get("ok") != rc[1]:
                ctx.fail("corr:collect-extensions:%s" % what, "_collect_extensions keeps %s, the model %s" % (json.dumps(rc[1]), json.dumps(a)), detail,
                         kind="correspondence")
        elif rc[0] == "rej":
            if "ok" in a or a.get("err") != "ext" or rc[1] != "ExtensionError":
                ctx.fail("corr:collect-extensions:%s" % what, "_collect_extensions raises %s, the model says %s" % (rc[1], json.dumps(a)), detail,
                         kind="correspondence")
        else:
            ctx.fail("corr:collect-extensions:internal:%s" % what, "_collect_extensions raises " + rc[1], detail, kind="correspondence")
    for c, a in zip(generated_cases, ans[2 * n:]):
        ctx.count()
        compare(ctx, a, c["real"], dict(c["detail"], model=a if "ok" not in a else "ok"), "generated", canon, sort_dump, diff_path)
    ctx.extra["extend_cases_sent_to_model"] = len(probe_cases) * 2 + len(generated_cases)
